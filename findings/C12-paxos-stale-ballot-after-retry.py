"""C12 finding: after a retry PaxosNode keeps the tallies of the abandoned ballot but deletes its value;
a late Accepted for the abandoned ballot reaches the quorum and the node decides None (never proposed).
A late Promise for the abandoned ballot likewise starts a Phase 2 that sends Accept(value=None).

3 nodes; b proposes 'vb' (ballot 1), a proposes 'va' (ballot 2) and nacks b's Accept; b's retry timer fires
(ballot 1 abandoned), then the Accepted from c for ballot 1 arrives.  Exit 1 when b reports decided None.
"""
import sys
from happysimulator.components.network.network import Network
from happysimulator.core.clock import Clock
from happysimulator.core.event import Event
from happysimulator.core.temporal import Instant


class Wire:
    """Hand-driven network: keeps what the nodes send, delivers one chosen message at a time
    exactly as NetworkLink would (same type, target = destination, same metadata)."""

    def __init__(self):
        self.clock = Clock(Instant.Epoch)
        self.net = Network(name="net")
        self.net.set_clock(self.clock)
        self.inflight, self.timers, self.nodes = [], [], {}

    def add(self, *nodes):
        for n in nodes:
            n.set_clock(self.clock)
            self.nodes[n.name] = n

    def absorb(self, out):
        for ev in ([out] if isinstance(out, Event) else (out or [])):
            (self.inflight if ev.target is self.net else self.timers).append(ev)

    def deliver(self, etype, src, dst, **match):
        for ev in self.inflight:
            md = ev.context["metadata"]
            if (ev.event_type, md["source"], md["destination"]) == (etype, src, dst) and \
                    all(md.get(k) == v for k, v in match.items()):
                self.inflight.remove(ev)
                print(f"  deliver {etype} {src}->{dst} { {k: v for k, v in md.items() if k not in ("source", "destination")} }")
                fwd = Event(time=self.clock.now, event_type=etype, target=self.nodes[dst], daemon=True,
                            context={"metadata": md})
                self.absorb(self.nodes[dst].handle_event(fwd))
                return
        raise SystemExit(f"script error: no in-flight {etype} {src}->{dst} {match}")

    def fire(self, etype, node):
        for ev in self.timers:
            if ev.event_type == etype and ev.target.name == node and not ev.cancelled:
                self.timers.remove(ev)
                if ev.time > self.clock.now:
                    self.clock.update(ev.time)
                print(f"  timer   {etype}@{node} t={ev.time.to_seconds()}s")
                self.absorb(ev.target.handle_event(ev))
                return
        raise SystemExit(f"script error: no timer {etype}@{node}")


from happysimulator.components.consensus.paxos import PaxosNode

import random
random.seed(0)  # only the timestamp of the retry event depends on it
w = Wire()
a, b, c = (PaxosNode(n, w.net) for n in "abc")
for n in (a, b, c):
    n.set_peers([a, b, c])
w.add(a, b, c)

fb = b.propose("vb"); w.absorb(b.start_phase1())
w.deliver("PaxosPrepare", "b", "a")
w.deliver("PaxosPromise", "a", "b")          # quorum (b, a): Phase 2 of ballot 1, b self-accepts
w.deliver("PaxosAccept", "b", "c")           # c accepts (1,b) 'vb' -> Accepted in flight
fa = a.propose("va"); w.absorb(a.start_phase1())   # a now promises its own ballot (2,a)
w.deliver("PaxosAccept", "b", "a")           # a nacks ballot 1
w.deliver("PaxosNack", "a", "b")             # b schedules a retry
w.fire("PaxosRetry", "b")                    # ballot 1 abandoned, its value forgotten
w.deliver("PaxosAccepted", "c", "b")         # late reply for ballot 1: count 2 -> decide(None)
print("b:", b.is_decided, repr(b.decided_value), " proposed: 'vb', 'va'")
bad = b.is_decided and b.decided_value not in ("va", "vb")
print("DEFECT: b reports a decided value that nobody proposed" if bad else "ok")
sys.exit(1 if bad else 0)

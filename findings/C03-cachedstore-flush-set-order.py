"""C03 finding: CachedStore (write-back) keeps dirty keys in a set of strings; flush() writes them
back in set order, which follows PYTHONHASHSEED.  With a backing store whose latency depends on the
key (a ShardedStore with unequal shards) the simulated timeline of the flush - and, when writers
evict entries while the flush is in progress, the number of write-backs - differs between
interpreters.  Exits 1 when the order of backing-store writes differs."""
import os
import subprocess
import sys

CHILD = r'''
import os, sys
if os.environ.get("VERIF_REPO"): sys.path.insert(0, os.environ["VERIF_REPO"])
from happysimulator import Entity, Event, Instant, Simulation
from happysimulator.components.datastore import CachedStore, KVStore
from happysimulator.components.datastore.eviction_policies import LRUEviction

order = []
class Spy(KVStore):
    def put(self, key, value):
        order.append((self.now.nanoseconds, key))
        return (yield from super().put(key, value))

backing = Spy("backing", write_latency=0.001)
cache = CachedStore("cache", backing_store=backing, cache_capacity=16, eviction_policy=LRUEviction(),
                    write_through=False)
class Client(Entity):
    def handle_event(self, event):
        for i in range(8):
            yield from cache.put(f"key-{i:03d}", i)
        yield from cache.flush()
c = Client("client")
sim = Simulation(entities=[backing, cache, c], end_time=Instant.from_seconds(1.0))
sim.schedule(Event(time=Instant.from_seconds(0.1), event_type="go", target=c))
sim.run()
print(order)
'''


def run(hashseed):
    env = dict(os.environ, PYTHONHASHSEED=str(hashseed))
    return subprocess.run([sys.executable, "-c", CHILD], env=env, capture_output=True, text=True, check=True).stdout


a, b = run(1), run(2)
print("PYTHONHASHSEED=1:", a.strip())
print("PYTHONHASHSEED=2:", b.strip())
if a != b:
    print("DEFECT: flush() writes dirty keys back in a hash-seed dependent order")
    sys.exit(1)
print("ok: flush order identical")

"""C09 / ThreadPool (FixedConcurrency behind a QueueDriver): (a) two tasks submitted at the same
instant to a pool with TWO workers run one after the other (the driver polls once per notify /
completion, the second task waits although a worker is idle); (b) with one worker, two tasks that
arrive at the instant the running task completes are both dequeued, the second one fails
_worker_pool.acquire() and is silently dropped (tasks_rejected).

Standalone reproduction (no verification harness).  Exit status 1 = defect shows.
Run:  /venv/bin/python /verif/findings/C09-threadpool-idle-worker.py      (VERIF_REPO=<dir> selects another source tree)
"""
import os
import sys

if os.environ.get("VERIF_REPO"):
    sys.path.insert(0, os.environ["VERIF_REPO"])

from happysimulator.core.entity import Entity
from happysimulator.core.event import Event
from happysimulator.core.simulation import Simulation
from happysimulator.core.temporal import Instant
from happysimulator.components.server.thread_pool import ThreadPool


def scenario(workers, tasks):
    starts = {}

    def extractor(task):  # public hook: called when a worker starts the task
        md = task.context["metadata"]
        starts[md["tag"]] = pool.now.to_seconds()
        return md["processing_time"]

    pool = ThreadPool("tp", num_workers=workers, processing_time_extractor=extractor)
    sim = Simulation(entities=[pool])
    for tag, (t, p) in enumerate(tasks):
        sim.schedule(Event(time=Instant.from_seconds(t), event_type="task", target=pool,
                           context={"metadata": {"tag": tag, "processing_time": p}}))
    sim.run()
    return starts, pool.stats


bad = 0
starts, stats = scenario(2, [(0.0, 1.0), (0.0, 1.0)])
print("2 workers, 2 tasks at t=0:", "start times", starts, stats)
if starts.get(1, 99) > 0.0:
    print("DEFECT (a): second task started at", starts.get(1), "s although a worker was idle at 0 s")
    bad = 1
starts, stats = scenario(1, [(0.0, 1.0), (1.0, 0.5), (1.0, 0.5)])
print("1 worker, task at 0 (1 s) + two tasks at t=1:", "start times", starts, stats)
if len(starts) < 3:
    print("DEFECT (b): task(s)", sorted(set(range(3)) - set(starts)), "never started; tasks_rejected =", stats.tasks_rejected)
    bad = 1
sys.exit(bad)

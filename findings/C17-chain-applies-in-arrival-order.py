"""C17 finding: chain nodes apply Propagate messages in ARRIVAL order, ignoring their sequence numbers.

Chain head -> tail, two writes of key "a" (1 then 2) issued at t=0.  The first Propagate takes 3 s,
the second 1 s, so the tail receives seq=2 before seq=1 and ends with the OLDER value: after every
message has been delivered head holds a=2, tail holds a=1 — and tail reads (the "strongly
consistent" ones) return the overwritten value for ever.
Exit status 1 when the defect shows.
"""
import os
import sys

if os.environ.get("VERIF_REPO"):
    sys.path.insert(0, os.environ["VERIF_REPO"])

from happysimulator.components.datastore.kv_store import KVStore
from happysimulator.components.network.link import NetworkLink
from happysimulator.components.network.network import Network
from happysimulator.components.replication.chain_replication import build_chain
from happysimulator.core.event import Event
from happysimulator.core.sim_future import SimFuture
from happysimulator.core.simulation import Simulation
from happysimulator.core.temporal import Duration, Instant
from happysimulator.distributions.latency_distribution import LatencyDistribution


class Scripted(LatencyDistribution):
    """Per-message delays taken from a list (the last one repeats)."""

    def __init__(self, delays):
        super().__init__(delays[0])
        self.delays = list(delays)

    def get_latency(self, current_time):
        d = self.delays.pop(0) if len(self.delays) > 1 else self.delays[0]
        return Duration.from_seconds(d)


def at(t):
    return Instant.from_seconds(float(t))


def write(head, t, value, fut=None):
    return Event(time=at(t), event_type="Write", target=head,
                 context={"metadata": {"key": "a", "value": value, "reply_future": fut or SimFuture()}})


def read(node, t, fut):
    return Event(time=at(t), event_type="Read", target=node,
                 context={"metadata": {"key": "a", "reply_future": fut}})


def main():
    net = Network(name="net")
    head, tail = build_chain(["head", "tail"], net, lambda n: KVStore(n, read_latency=0.0, write_latency=0.0))
    net.add_link(head, tail, NetworkLink(name="h>t", latency=Scripted([3.0, 1.0])))   # seq 2 overtakes seq 1
    net.add_link(tail, head, NetworkLink(name="t>h", latency=Scripted([1.0])))
    f1, f2 = SimFuture(), SimFuture()
    sim = Simulation(entities=[head, tail, net, head.store, tail.store])
    sim.schedule([write(head, 0, 1, f1), write(head, 0, 2, f2)])
    sim.run()
    print("acks:", f1.value, f2.value)
    final = {"head": head.store.get_sync("a"), "tail": tail.store.get_sync("a")}
    print("final:", final)
    bad = final["head"] != final["tail"]
    print("DEFECT: chain nodes diverged after all messages were delivered" if bad else "ok: chain converged")
    return 1 if bad else 0


if __name__ == "__main__":
    sys.exit(main())

"""C10: Inductor re-polls forever at one instant when its smoothed interval is below 1 ns.

Two arrivals at 0.999999999 s and two at 1.000000000 s: the EWMA interval becomes
~1e-18 s; the last arrival is queued (elapsed 0 < interval) and the poll is
scheduled after Duration.from_seconds(1e-18) == 0 ns, fires at the same instant,
still cannot forward, re-schedules after 0 ns, ... (frozen clock, drain stalls).
Exit status 1 when the defect shows.
"""
import sys

from happysimulator.components.rate_limiter import Inductor
from happysimulator.core.entity import Entity
from happysimulator.core.event import Event
from happysimulator.core.simulation import Simulation
from happysimulator.core.temporal import Instant


class Sink(Entity):
    def handle_event(self, event):
        return None


sink = Sink("sink")
lim = Inductor("lim", sink, time_constant=1.0, queue_capacity=10)
sim = Simulation(entities=[lim, sink], end_time=Instant.from_seconds(5.0))
sim.schedule([Event(time=Instant(t), event_type="req", target=lim)
              for t in (999_999_999, 999_999_999, 1_000_000_000, 1_000_000_000)])
n = {"events": 0}


def hook(ev):
    n["events"] += 1
    if n["events"] >= 2000:
        sim.control.pause()


sim.control.on_event(hook)
sim.run()
print(f"{n['events']} events delivered, clock at {lim.now.nanoseconds}ns, queue_depth={lim.queue_depth}, "
      f"estimated_rate={lim.estimated_rate:.3g}/s")
if n["events"] >= 2000:
    print("  -> poll re-fires at a frozen clock; the queued request is never forwarded")
    sys.exit(1)
sys.exit(0)

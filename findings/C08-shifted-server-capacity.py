"""C08 / ShiftedServer strands work and overruns its schedule.

 A. stall   shift [0,1) has capacity 0, from t=1 on capacity 1.  A request arriving at t=0 is queued; at
            the shift change nothing polls the queue (the driver only polls on a notify = enqueue into an
            EMPTY queue, or on a completion) -> the request, and every later one, waits forever.
 B. overrun shift [0,1) capacity 1, [1,2) capacity 0.  The first request arrives at t=1: the server still
            uses the capacity of t=0 and starts it although the schedule allows 0.
Exit 1 when either shows.
"""
import sys

from happysimulator.components.industrial.shift_schedule import Shift, ShiftedServer, ShiftSchedule
from happysimulator.core.entity import Entity
from happysimulator.core.event import Event
from happysimulator.core.simulation import Simulation
from happysimulator.core.temporal import Instant


class Sink(Entity):
    def __init__(self):
        super().__init__("sink")
        self.log = []

    def handle_event(self, event):
        self.log.append(self.now.to_seconds())


def run(shifts, default, arrivals):
    sink = Sink()
    srv = ShiftedServer("s", ShiftSchedule(shifts, default_capacity=default), service_time=1.0, downstream=sink)
    sim = Simulation(entities=[sink, srv])
    evs = [Event(time=Instant.from_seconds(t), event_type="Req", target=srv) for t in arrivals]
    evs.append(Event(time=Instant.from_seconds(20.0), event_type="KeepAlive", target=sink))  # let shifts play out
    sim.schedule(evs)
    sim.run()
    return srv, [t for t in sink.log if t != 20.0]


bad = 0
srv, done = run([Shift(0.0, 1.0, 0)], 1, [0.0, 3.0])
print("A. capacity 0 in [0,1), 1 afterwards; arrivals t=0,3: completions", done, "still queued", srv.depth)
if srv.depth:
    print("   DEFECT: requests wait forever although the server has had free capacity since t=1")
    bad = 1
srv, done = run([Shift(0.0, 1.0, 1), Shift(1.0, 5.0, 0)], 1, [1.0])
print("B. capacity 1 in [0,1), 0 in [1,5), 1 afterwards; arrival t=1: completions", done)
if done and done[0] < 6.0:
    print("   DEFECT: served during the closed shift (capacity of t=0 was still in force)")
    bad = 1
sys.exit(bad)

"""OutboxRelay: an event that (re)primes the poll loop while a poll cycle is still relaying (relay latency > 0)
starts a second poll loop (`_poll_scheduled` is cleared at the start of a cycle).  Each cycle marks an entry
as relayed only when it reaches it, so two overlapping cycles relay the same entry twice.  On the unchanged
tree the duplicate shows in stats.entries_relayed (the events themselves are dropped, see C19-5); with C19-5
applied the downstream entity receives the entry twice.  Exits 1 when the defect shows."""
import sys

from happysimulator.components.microservice.outbox_relay import OutboxRelay
from happysimulator.core.entity import Entity
from happysimulator.core.event import Event
from happysimulator.core.simulation import Simulation
from happysimulator.core.temporal import Instant


class Down(Entity):
    def __init__(self):
        super().__init__("down")
        self.got = []

    def handle_event(self, event):
        self.got.append(event.context["metadata"]["entry_id"])


class Writer(Entity):
    def __init__(self, ob):
        super().__init__("writer")
        self.ob = ob

    def handle_event(self, event):
        n = event.context["n"]
        for _ in range(n):
            self.ob.write({"x": 1})
        return [Event(time=self.now, event_type="kick", target=self.ob)]  # documented way to prime the loop


down = Down()
ob = OutboxRelay("outbox", downstream=down, poll_interval=1.5, batch_size=2, relay_latency=0.25)
w = Writer(ob)
sim = Simulation(entities=[down, ob, w], end_time=Instant.from_seconds(12))
for t, n in ((0, 1), (4, 2), (5, 2)):
    sim.schedule(Event(time=Instant.from_seconds(t), event_type="go", target=w, context={"n": n}))
sim.run()
st = ob.stats
print("written:", st.entries_written, " counted as relayed:", st.entries_relayed, " downstream received:", down.got)
if st.entries_relayed > st.entries_written or len(down.got) != len(set(down.got)):
    print("DEFECT: an entry was relayed twice by two overlapping poll cycles")
    sys.exit(1)
print("ok")

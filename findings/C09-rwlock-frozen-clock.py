"""C09 / RWLock: a reader blocked by a writer (acquire_read loop) and a writer blocked by a
reader (acquire_write loop) both spin at zero delay; the clock freezes.

Standalone reproduction (no verification harness).  Exit status 1 = defect shows.
Run:  /venv/bin/python /verif/findings/C09-rwlock-frozen-clock.py      (VERIF_REPO=<dir> selects another source tree)
"""
import os
import sys

if os.environ.get("VERIF_REPO"):
    sys.path.insert(0, os.environ["VERIF_REPO"])

from happysimulator.core.entity import Entity
from happysimulator.core.event import Event
from happysimulator.core.simulation import Simulation
from happysimulator.core.temporal import Instant
from happysimulator.components.sync import RWLock


def run(sim, limit=5000):
    """Run with a horizon: stop after `limit` deliveries (a livelock must not hang this script)."""
    seen = {"n": 0, "last": None}

    def hook(ev):
        seen["n"] += 1
        seen["last"] = ev.time.to_seconds()
        if seen["n"] >= limit:
            sim.control.pause()

    sim.control.on_event(hook)
    sim.run()
    return seen


class Worker(Entity):
    def __init__(self, name, prim, hold):
        super().__init__(name)
        self.prim, self.hold = prim, hold

    def handle_event(self, event):
        yield from (self.prim.acquire_write() if self.name.startswith('w') else self.prim.acquire_read())
        LOG.append((self.now.to_seconds(), self.name, "granted"))
        yield self.hold
        LOG.append((self.now.to_seconds(), self.name, "releases"))
        return self.prim.release_write() if self.name.startswith('w') else self.prim.release_read()


bad = 0
for variant in range(2):
    LOG = []
    prim = RWLock("rw")
    workers = [Worker("w1", prim, 1.0), Worker("r1", prim, 1.0)] if variant == 0 else [Worker("r1", prim, 1.0), Worker("w1", prim, 1.0)]
    sim = Simulation(entities=[prim] + workers)
    for w in workers:
        sim.schedule(Event(time=Instant.Epoch, event_type="go", target=w))
    seen = run(sim)
    granted = [e for e in LOG if e[2] == "granted"]
    print("variant", variant, "log:", LOG)
    print("  deliveries:", seen["n"], "last event time:", seen["last"], "s")
    if len(granted) < 2 or seen["n"] >= 5000:
        print("  DEFECT: the second acquirer was never granted; %d deliveries, clock stuck at %s s"
              % (seen["n"], seen["last"]))
        bad = 1
sys.exit(bad)

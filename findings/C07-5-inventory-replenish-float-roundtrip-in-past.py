"""InventoryBuffer / PerishableInventory compute the replenishment instant as Instant.from_seconds(now.to_seconds()
+ lead_time).  With lead_time 0 and e.g. now = 1.001 s the float round trip lands 1 ns BEFORE now: the replenishment
is discarded and, because _order_pending stays set, the buffer never reorders again."""
import importlib.util, os
spec = importlib.util.spec_from_file_location("c", os.path.join(os.path.dirname(__file__), "C07-_repro_common.py"))
c = importlib.util.module_from_spec(spec); spec.loader.exec_module(c)

from happysimulator import Event, Instant, Simulation
from happysimulator.components.industrial import InventoryBuffer, PerishableInventory

h = c.watch()
inv = InventoryBuffer("inv", initial_stock=1, reorder_point=1, order_quantity=5, lead_time=0.0)
per = PerishableInventory("per", initial_stock=1, shelf_life_s=100.0, spoilage_check_interval_s=50.0,
                           reorder_point=1, order_quantity=5, lead_time=0.0)
sim = Simulation(entities=[inv, per], end_time=Instant.from_seconds(5))
t = Instant(1_001_000_000)  # 1.001 s
print("round trip of 1.001 s:", Instant.from_seconds(t.to_seconds()).nanoseconds, "ns")
sim.schedule(Event(time=t, event_type="Consume", target=inv, context={"quantity": 1}))
sim.schedule(Event(time=t, event_type="Consume", target=per, context={"quantity": 1}))
sim.run()
print("stock after instant replenishment: inventory", inv.stock, " perishable", per.stock, "(expected 5 and 5)")
c.verdict(h, "replenishment lost", extra_bad=(inv.stock, per.stock) != (5, 5))

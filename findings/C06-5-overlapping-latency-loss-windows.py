"""C06 defect 5: the first deactivation ends ALL overlapping latency / loss faults on a link.

InjectLatency a->b [1, 3) and [2, 4): both closures captured the configured
latency at schedule time, so the deactivation at 3.0 restores it although the
second window is active until 4.0 (same for InjectPacketLoss).  Exits 1 when the defect shows.
"""
import sys

from happysimulator.components.network.link import NetworkLink
from happysimulator.components.network.network import Network
from happysimulator.core.entity import Entity
from happysimulator.core.event import Event
from happysimulator.core.simulation import Simulation
from happysimulator.core.temporal import Instant
from happysimulator.distributions.constant import ConstantLatency
from happysimulator.faults import FaultSchedule, InjectLatency, InjectPacketLoss

got = {}
rates = {}


class Node(Entity):
    def handle_event(self, event):
        got[event.context["metadata"]["sent"]] = self.now.to_seconds()


class Sender(Entity):
    def handle_event(self, event):
        rates[self.now.to_seconds()] = net.get_link("a", "b").packet_loss_rate
        return [net.send(a, b, "probe", payload={"sent": self.now.to_seconds()})]


a, b, snd = Node("a"), Node("b"), Sender("snd")
net = Network(name="net")
net.add_link(a, b, NetworkLink(name="ab", latency=ConstantLatency(0.125)))
fs = FaultSchedule()
fs.add(InjectLatency("a", "b", 250.0, 1.0, 3.0))
fs.add(InjectLatency("a", "b", 250.0, 2.0, 4.0))
fs.add(InjectPacketLoss("a", "b", 0.0625, 1.0, 3.0))
fs.add(InjectPacketLoss("a", "b", 0.0625, 2.0, 4.0))
sim = Simulation(entities=[net, a, b, snd], fault_schedule=fs, end_time=Instant.from_seconds(6.0))
sim.schedule([Event(time=Instant.from_seconds(t), event_type="tick", target=snd) for t in (0.5, 1.5, 2.5, 3.5, 4.5)])
import random
random.random = lambda: 0.999  # no probe is lost
sim.run()
delay = {t: round(got[t] - t, 6) for t in sorted(got)}
print("probe delays:", delay)
print("loss rate seen at send time:", rates)
bad = False
if delay.get(3.5) == 0.125:
    print("DEFECT: probe sent at 3.5 s (latency window [2, 4) active) took only the configured 0.125 s")
    bad = True
if rates.get(3.5) == 0.0:
    print("DEFECT: packet_loss_rate is 0.0 at 3.5 s although the loss window [2, 4) is active")
    bad = True
sys.exit(1 if bad else 0)

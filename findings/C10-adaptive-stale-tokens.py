"""C10: AdaptivePolicy admits more than the bucket bound of its current rate.

initial_rate 2/s, window 1 s => 2 tokens.  record_failure halves the rate to 1/s
(bucket capacity 1) but leaves the level at 2; the first _refill only records the
time and returns, so the level is never capped: two requests are admitted at the
same instant although the current rate has been 1/s (capacity 1) all along.
Exit status 1 when the defect shows.
"""
import sys

from happysimulator.components.rate_limiter import AdaptivePolicy
from happysimulator.core.temporal import Instant

p = AdaptivePolicy(initial_rate=2.0, min_rate=1.0, max_rate=4.0, increase_step=1.0,
                   decrease_factor=0.5, window_size=1.0)
p.record_failure(Instant(0))
t = Instant.from_seconds(5.0)
got = [p.try_acquire(t), p.try_acquire(t)]
print(f"current_rate={p.current_rate}/s window=1s -> bucket bound at one instant = {p.current_rate * 1.0}")
print(f"two try_acquire at t=5s: {got}")
if sum(got) > p.current_rate * 1.0 + 1e-6:
    print("  -> 2 admitted at one instant, bound is 1")
    sys.exit(1)
sys.exit(0)

"""C09 / ConnectionPool: a waiter of an exhausted pool polls every min(0.1, timeout/10) s instead of
parking: (a) waiting schedules events, (b) release() hands the connection over at once but acquire()
only returns at the waiter's next poll, i.e. later than capacity allows.

Standalone reproduction (no verification harness).  Exit status 1 = defect shows.
Run:  /venv/bin/python /verif/findings/C09-connpool-poll-wait.py      (VERIF_REPO=<dir> selects another source tree)
"""
import os
import sys

if os.environ.get("VERIF_REPO"):
    sys.path.insert(0, os.environ["VERIF_REPO"])

from happysimulator.core.entity import Entity
from happysimulator.core.event import Event
from happysimulator.core.simulation import Simulation
from happysimulator.core.temporal import Instant
from happysimulator.components.client.connection_pool import ConnectionPool
from happysimulator.distributions.constant import ConstantLatency

LOG = []
RESUMES = {"b": 0}


class Sink(Entity):
    def handle_event(self, event):
        return None


class Client(Entity):
    def __init__(self, name, pool, hold):
        super().__init__(name)
        self.pool, self.hold = pool, hold

    def handle_event(self, event):
        conn = yield from self.pool.acquire()
        LOG.append((self.now.to_seconds(), self.name, "acquired"))
        yield self.hold
        LOG.append((self.now.to_seconds(), self.name, "releases"))
        return self.pool.release(conn)


db = Sink("db")
pool = ConnectionPool("pool", target=db, max_connections=1, connection_latency=ConstantLatency(0.0))
a, b = Client("a", pool, 1.05), Client("b", pool, 1.0)
sim = Simulation(entities=[pool, db, a, b])
sim.schedule(Event(time=Instant.Epoch, event_type="go", target=a))
sim.schedule(Event(time=Instant.from_seconds(0.5), event_type="go", target=b))   # pool exhausted: b waits
sim.control.on_event(lambda ev: RESUMES.__setitem__("b", RESUMES["b"] + (ev.target is b)))
sim.run()
for e in LOG:
    print(e)
t_rel = [e[0] for e in LOG if e[1] == "a" and e[2] == "releases"][0]
t_acq = [e[0] for e in LOG if e[1] == "b" and e[2] == "acquired"][0]
print("a released at", t_rel, "s; b's acquire returned at", t_acq, "s; deliveries to b's process:", RESUMES["b"])
if t_acq > t_rel or RESUMES["b"] > 3:
    print("DEFECT: b polled while waiting and was granted later than the release")
    sys.exit(1)
sys.exit(0)

"""C02 finding: any_of() built over inputs that have ALREADY resolved reports the
lowest argument index instead of the input that resolved first.

Statement / docstring: "any_of resumes with the (index, value) of the first input
to resolve".  Here `slow` (argument 0) resolves at t=2s, `fast` (argument 1)
resolves at t=1s; a process that does `yield any_of(slow, fast)` at t=3s must get
(1, "fast") but receives (0, "slow").  Exits 1 when the defect shows.
"""
import sys

from happysimulator.core.entity import Entity
from happysimulator.core.event import Event
from happysimulator.core.sim_future import SimFuture, any_of
from happysimulator.core.simulation import Simulation
from happysimulator.core.temporal import Instant

slow, fast = SimFuture(), SimFuture()
got = []


class Waiter(Entity):
    def handle_event(self, event):
        yield 3.0
        got.append((yield any_of(slow, fast)))


w = Waiter("w")
sim = Simulation(entities=[w])
sim.schedule([
    Event(time=Instant.Epoch, event_type="go", target=w),
    Event.once(Instant.from_seconds(1.0), "fast", lambda e: fast.resolve("fast")),
    Event.once(Instant.from_seconds(2.0), "slow", lambda e: slow.resolve("slow")),
])
sim.run()
print("any_of(slow, fast) ->", got[0], "; first input to resolve was index 1 ('fast' at t=1s)")
sys.exit(1 if tuple(got[0]) != (1, "fast") else 0)

#!/venv/bin/python
"""C04 finding: control.reset() brings a pre-run event back to life that had been
cancelled before run().

Model: one stateless recorder entity, two events scheduled before run(); the
second one is cancelled before run() (e.g. a timeout the caller withdrew).
Original run delivers only the first.  reset() + run() delivers both: the
delivery sequence of the original run is not repeated although no entity holds
state.  Exits 1 when the defect shows.
"""
import os
import sys

_repo = os.environ.get("VERIF_REPO")
if _repo:
    sys.path.insert(0, _repo)

from happysimulator import Entity, Event, Instant, Simulation


class Rec(Entity):
    def __init__(self, name, log):
        super().__init__(name)
        self.log = log

    def handle_event(self, event):
        self.log.append((self.now.nanoseconds, event.event_type))


log = []
rec = Rec("rec", log)
sim = Simulation(entities=[rec], end_time=Instant(10))
keep = Event(time=Instant(1), event_type="keep", target=rec)
withdrawn = Event(time=Instant(2), event_type="withdrawn", target=rec)
sim.schedule([keep, withdrawn])
withdrawn.cancel()

sim.run()
first = list(log)
del log[:]
sim.control.reset()
sim.run()
second = list(log)
print("original run delivered :", first)
print("reset()+run() delivered:", second)
if first != second:
    print("DEFECT: reset() followed by run() did not repeat the original delivery sequence")
    sys.exit(1)
print("ok")

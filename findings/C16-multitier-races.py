"""C16 reproduction (no harness): MultiTierCache serves a stale value after (1) delete() overlapped a
read that missed every tier, (2) put() overlapped a read that was being served from the slower tier
(the old value is promoted into L1 over the new one).  Exits 1 when the defect shows."""
import sys

from happysimulator import Entity, Event, Instant, Simulation
from happysimulator.components.datastore import CachedStore, KVStore, LRUEviction, MultiTierCache


class Client(Entity):
    def __init__(self, name, fn):
        super().__init__(name)
        self.fn, self.result = fn, None

    def handle_event(self, event):
        self.result = yield from self.fn()


def build():
    backing = KVStore("db", read_latency=4.0, write_latency=2.0, delete_latency=3.0)
    backing.put_sync("a", "old")
    l1 = CachedStore("l1", backing, 2, LRUEviction(), cache_read_latency=1.0)
    l2 = CachedStore("l2", backing, 2, LRUEviction(), cache_read_latency=3.0)
    return backing, l1, l2, MultiTierCache("mtc", tiers=[l1, l2], backing_store=backing)


def run_delete():
    backing, l1, l2, mtc = build()
    reader = Client("reader", lambda: mtc.get("a"))  # t=0 miss everywhere, backing read lands t=4
    deleter = Client("deleter", lambda: mtc.delete("a"))  # t=1.5 .. 4.5
    later = Client("later", lambda: mtc.get("a"))  # t=20
    sim = Simulation(entities=[backing, l1, l2, mtc, reader, deleter, later])
    for t, c in ((0.0, reader), (1.5, deleter), (20.0, later)):
        sim.schedule(Event(time=Instant.from_seconds(t), event_type="go", target=c))
    sim.run()
    print(f"delete(a) overlapping a missing get(a): get(a) at t=20 returned {later.result!r}, expected None")
    return later.result is not None


def run_promote():
    backing, l1, l2, mtc = build()
    warm = Client("warm", lambda: l2.get("a"))  # t=0: the slower tier caches 'a' (e.g. a CacheWarmer on L2)
    reader = Client("reader", lambda: mtc.get("a"))  # t=10: L2 hit, completes t=13, promotes to L1
    writer = Client("writer", lambda: mtc.put("a", "new"))  # t=9: backing write lands t=11, tiers invalidated
    later = Client("later", lambda: mtc.get("a"))  # t=30
    sim = Simulation(entities=[backing, l1, l2, mtc, warm, reader, writer, later])
    for t, c in ((0.0, warm), (10.0, reader), (9.0, writer), (30.0, later)):
        sim.schedule(Event(time=Instant.from_seconds(t), event_type="go", target=c))
    sim.run()
    print(f"put(a,new) overlapping an L2 hit of get(a): get(a) at t=30 returned {later.result!r}, expected 'new'")
    return later.result != "new"


bad = [run_delete(), run_promote()]
sys.exit(1 if any(bad) else 0)

"""C08 / Server throws away a dequeued request when the limit is lowered on the dispatch instant.

Server(DynamicConcurrency(2)), one request in service.  A second request arrives at t=1; on the same instant
``set_limit(1)`` is delivered between the queue's dequeue (capacity check passed: 1 of 2 in use) and the
worker's receipt of the request (two events later).  acquire() fails there and the request - accepted by the
queue, already dequeued - is counted in stats.requests_rejected and never served.  Exit 1 when it shows.
"""
import sys

from happysimulator.components.server.concurrency import DynamicConcurrency
from happysimulator.components.server.server import Server
from happysimulator.core.entity import Entity
from happysimulator.core.event import Event
from happysimulator.core.simulation import Simulation
from happysimulator.core.temporal import Instant
from happysimulator.distributions.constant import ConstantLatency


class Sink(Entity):
    def __init__(self):
        super().__init__("sink")
        self.log = []

    def handle_event(self, event):
        self.log.append((self.now.to_seconds(), event.context["metadata"]["tag"]))


class Fwd(Entity):
    def __init__(self, name, target):
        super().__init__(name)
        self.target = target

    def handle_event(self, event):
        return [self.forward(event, self.target)]


class Knob(Entity):
    def __init__(self, model):
        super().__init__("knob")
        self.model = model

    def handle_event(self, event):
        self.model.set_limit(1)


sink = Sink()
model = DynamicConcurrency(initial=2, min_limit=1, max_limit=3)
srv = Server("s", concurrency=model, service_time=ConstantLatency(2.0), downstream=sink)
knob = Knob(model)
f2 = Fwd("f2", knob)
f1 = Fwd("f1", f2)  # the limit change reaches the knob through two zero-delay hops
sim = Simulation(entities=[sink, srv, knob, f1, f2])
sim.schedule([
    Event(time=Instant.from_seconds(0), event_type="Req", target=srv, context={"metadata": {"tag": 0}}),
    Event(time=Instant.from_seconds(1), event_type="Req", target=srv, context={"metadata": {"tag": 1}}),
    Event(time=Instant.from_seconds(1), event_type="SetLimit", target=f1),
])
sim.run()
print("completed", sink.log, "accepted", srv.stats_accepted, "requests_rejected", srv.stats.requests_rejected)
sys.exit(1 if srv.stats.requests_rejected or len(sink.log) != 2 else 0)

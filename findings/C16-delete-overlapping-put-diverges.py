"""C16 reproduction (no harness): a write-through put() that overlaps a delete() of the same key leaves the
cache and the backing store disagreeing for good (delete removes the cached copy when it STARTS, the put
re-caches the key, the faster write lands first, the delete lands last): reads return the put's value from
the cache, and None once the entry is invalidated/evicted.  Exits 1 when the defect shows."""
import sys

from happysimulator import Entity, Event, Instant, Simulation
from happysimulator.components.datastore import CachedStore, KVStore, LRUEviction


class Client(Entity):
    def __init__(self, name, fn):
        super().__init__(name)
        self.fn, self.result = fn, None

    def handle_event(self, event):
        self.result = yield from self.fn()


class Invalidator(Entity):
    def __init__(self, cache):
        super().__init__("inv")
        self.cache = cache

    def handle_event(self, event):
        self.cache.invalidate("a")


backing = KVStore("db", read_latency=4.0, write_latency=2.0, delete_latency=3.0)
backing.put_sync("a", "old")
cache = CachedStore("c", backing, cache_capacity=2, eviction_policy=LRUEviction(), cache_read_latency=1.0)
deleter = Client("deleter", lambda: cache.delete("a"))  # t=0 .. 3
writer = Client("writer", lambda: cache.put("a", "new"))  # t=0 .. 2
r1 = Client("r1", lambda: cache.get("a"))  # t=10
inv = Invalidator(cache)  # t=20
r2 = Client("r2", lambda: cache.get("a"))  # t=21
sim = Simulation(entities=[backing, cache, deleter, writer, r1, inv, r2])
for t, c in ((0.0, deleter), (0.0, writer), (10.0, r1), (20.0, inv), (21.0, r2)):
    sim.schedule(Event(time=Instant.from_seconds(t), event_type="go", target=c))
sim.run()
print(f"delete(a) || put(a,new) at t=0; quiescent reads: get(a)@10 -> {r1.result!r}, invalidate, get(a)@21 -> {r2.result!r}; "
      f"backing holds {backing.get_sync('a')!r}")
sys.exit(1 if r1.result != r2.result else 0)

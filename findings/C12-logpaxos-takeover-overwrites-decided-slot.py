"""C12 finding (needs a redesign): a new Multi-Paxos / Flexible Paxos leader ignores the logs returned in
the promises (and its own missing slots) and assigns its queued command to a slot that is already decided.

a becomes leader and decides slot 1 = c1 with b.  c (empty log) then takes over with a higher ballot, gets
a promise from a that carries slot 1 = c1 and commit_index 1, and still replicates ITS command c2 as slot 1;
a acknowledges, c decides slot 1 = c2.  Exit 1 when a and c report different commands for slot 1.
"""
import sys
from happysimulator.components.network.network import Network
from happysimulator.core.clock import Clock
from happysimulator.core.event import Event
from happysimulator.core.temporal import Instant


class Wire:
    """Hand-driven network: keeps what the nodes send, delivers one chosen message at a time
    exactly as NetworkLink would (same type, target = destination, same metadata)."""

    def __init__(self):
        self.clock = Clock(Instant.Epoch)
        self.net = Network(name="net")
        self.net.set_clock(self.clock)
        self.inflight, self.timers, self.nodes = [], [], {}

    def add(self, *nodes):
        for n in nodes:
            n.set_clock(self.clock)
            self.nodes[n.name] = n

    def absorb(self, out):
        for ev in ([out] if isinstance(out, Event) else (out or [])):
            (self.inflight if ev.target is self.net else self.timers).append(ev)

    def deliver(self, etype, src, dst, **match):
        for ev in self.inflight:
            md = ev.context["metadata"]
            if (ev.event_type, md["source"], md["destination"]) == (etype, src, dst) and \
                    all(md.get(k) == v for k, v in match.items()):
                self.inflight.remove(ev)
                print(f"  deliver {etype} {src}->{dst} { {k: v for k, v in md.items() if k not in ("source", "destination")} }")
                fwd = Event(time=self.clock.now, event_type=etype, target=self.nodes[dst], daemon=True,
                            context={"metadata": md})
                self.absorb(self.nodes[dst].handle_event(fwd))
                return
        raise SystemExit(f"script error: no in-flight {etype} {src}->{dst} {match}")

    def fire(self, etype, node):
        for ev in self.timers:
            if ev.event_type == etype and ev.target.name == node and not ev.cancelled:
                self.timers.remove(ev)
                if ev.time > self.clock.now:
                    self.clock.update(ev.time)
                print(f"  timer   {etype}@{node} t={ev.time.to_seconds()}s")
                self.absorb(ev.target.handle_event(ev))
                return
        raise SystemExit(f"script error: no timer {etype}@{node}")


from happysimulator.components.consensus.flexible_paxos import FlexiblePaxosNode
from happysimulator.components.consensus.multi_paxos import MultiPaxosNode


def scenario(cls, pre):
    print(cls.__name__)
    w = Wire()
    a, b, c = (cls(n, w.net, peers=[None, None]) for n in "abc")  # placeholder peers: quorum check at construction
    for n in (a, b, c):
        n.set_peers([a, b, c])
    w.add(a, b, c)
    a.submit({"op": "set", "key": "k", "value": "c1"})
    c.submit({"op": "set", "key": "k", "value": "c2"})
    w.absorb(a.start())
    w.deliver(pre + "Prepare", "a", "b")
    w.deliver(pre + "Promise", "b", "a")
    w.deliver(pre + "Accept", "a", "b", slot=1)
    w.deliver(pre + "Accepted", "b", "a")        # slot 1 = c1 decided at a (a + b accepted)
    ra = a.log.get(1).command["value"] if a.log.commit_index >= 1 else None
    w.absorb(c.start())                          # take-over attempt by c (ballot (1,c) > (1,a))
    w.deliver(pre + "Prepare", "c", "a")
    w.deliver(pre + "Promise", "a", "c")         # promise carries slot 1 = c1, commit_index 1: ignored
    w.deliver(pre + "Accept", "c", "a", slot=1)  # c2 for slot 1
    w.deliver(pre + "Accepted", "a", "c")        # c decides slot 1 = c2
    rc = c.log.get(1).command["value"] if c.log.commit_index >= 1 else None
    print(f"  slot 1 reported decided: a={ra!r} (earlier) c={rc!r}; a now reports "
          f"{a.log.get(1).command['value'] if a.log.commit_index >= 1 else None!r}")
    return ra is not None and rc is not None and ra != rc


bad = scenario(MultiPaxosNode, "MultiPaxos") | scenario(FlexiblePaxosNode, "FlexPaxos")
print("DEFECT: slot 1 decided twice with different commands" if bad else "ok")
sys.exit(1 if bad else 0)

"""C11 defect 1: two leaders in one term.

A follower that voted for A in term 1 receives A's first AppendEntries (term 1).
`_handle_append_entries` calls `_step_down(term)` for `term >= current_term`, which resets
`voted_for`; the follower then grants its term-1 vote a second time, to C.
Exit status 1 when the defect shows."""
import importlib.util
import os
import sys

spec = importlib.util.spec_from_file_location("c11common", os.path.join(os.path.dirname(__file__), "C11-repro_common.py"))
m = importlib.util.module_from_spec(spec)
spec.loader.exec_module(m)

c = m.Cluster()
c.fire("A")                              # A: candidate, term 1
c.deliver("RequestVote", "A", "B")       # B votes for A in term 1
c.deliver("VoteResponse", "B", "A")      # A is leader of term 1, sends AppendEntries
c.deliver("AppendEntries", "A", "B")     # same-term AppendEntries: B forgets its vote
c.fire("C")                              # C never heard of A: candidate, term 1
c.deliver("RequestVote", "C", "B")       # B votes AGAIN in term 1
c.deliver("VoteResponse", "B", "C")      # C is leader of term 1 as well
leaders = [(n, nd.current_term) for n, nd in c.node.items() if nd.is_leader]
print("leaders:", leaders)
bad = len({t for _n, t in leaders}) < len(leaders)
print("DEFECT: two leaders in one term" if bad else "ok: at most one leader per term")
sys.exit(1 if bad else 0)

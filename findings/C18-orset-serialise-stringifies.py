"""ORSet.to_dict keys its entries by str(element): a round trip changes the element's type and elements
with equal str() collide.  Exits 1 when the defect shows."""
import os
import sys

if os.environ.get("VERIF_REPO"):
    sys.path.insert(0, os.environ["VERIF_REPO"])
from happysimulator.components.crdt.or_set import ORSet

bad = 0
a = ORSet("ra")
a.add(1)
b = ORSet.from_dict(a.to_dict())
print("round trip of {1}:", set(b.value), " equal to original:", a == b)
if b.value != a.value or not a == b:
    bad = 1
c = ORSet("rc")
c.merge(ORSet.from_dict(a.to_dict()))   # what CRDTStore gossip does
print("gossip-merge of {1} into an empty replica:", set(c.value))
if c.value != frozenset({1}):
    bad = 1
d = ORSet("rd")
d.add(1)
d.add("1")
e = ORSet.from_dict(d.to_dict())
print("round trip of {1, '1'}:", set(e.value))
if e.value != d.value:
    bad = 1
sys.exit(bad)

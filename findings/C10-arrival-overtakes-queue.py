"""C10: an arrival delivered at the pending poll instant overtakes the queued request.

RateLimitedEntity._handle_request (and Inductor._handle_arrival) try the policy
before looking at the queue.  Token bucket capacity 1, 1 token/s: request A at
0 s is forwarded, B at 0.5 s is queued (poll due at 1.0 s), C is timed exactly
1.0 s and was created before the poll event, so the engine delivers it first:
C takes the token and is forwarded at 1.0 s, B only at 2.0 s.
Exit status 1 when the defect shows.
"""
import sys

from happysimulator.components.rate_limiter import Inductor, RateLimitedEntity, TokenBucketPolicy
from happysimulator.core.entity import Entity
from happysimulator.core.event import Event
from happysimulator.core.simulation import Simulation
from happysimulator.core.temporal import Instant


class Sink(Entity):
    def __init__(self):
        super().__init__("sink")
        self.seen = []

    def handle_event(self, event):
        self.seen.append((self.now.to_seconds(), event.context["metadata"]["tag"]))


def run(make, times):
    sink = Sink()
    lim = make(sink)
    sim = Simulation(entities=[lim, sink], end_time=Instant.from_seconds(30.0))
    sim.schedule([Event(time=Instant.from_seconds(t), event_type="req", target=lim,
                        context={"metadata": {"tag": tag}}) for tag, t in times])
    sim.run()
    return sink.seen


bad = 0
seen = run(lambda s: RateLimitedEntity("lim", s, TokenBucketPolicy(capacity=1, refill_rate=1), queue_capacity=10),
           [("A", 0.0), ("B", 0.5), ("C", 1.0)])
print("RateLimitedEntity arrival order A,B,C; forwarded:", seen)
if [t for _, t in seen] != ["A", "B", "C"]:
    print("  -> C overtook the queued B")
    bad = 1
seen = run(lambda s: Inductor("lim", s, time_constant=1.0, queue_capacity=10),
           [("A", 0.0), ("B", 0.5), ("C", 0.5), ("D", 1.0)])
print("Inductor arrival order A,B,C,D; forwarded:", seen)
if [t for _, t in seen] != ["A", "B", "C", "D"]:
    print("  -> D overtook the queued C")
    bad = 1
sys.exit(bad)

"""C12 finding: PaxosNode restarts Phase 2 on every promise at or beyond the quorum and counts
Accepted replies per ballot number without remembering who sent them.

3 nodes a, b, c.  a proposes 'va' (ballot (1,a)), b proposes 'vb' (ballot (2,b)).  a has promised (2,b)
before its own Phase 2 starts, so a never accepts its own ballot; only c accepts (1,a).  The late promise
from c restarts Phase 2: c gets a second Accept, answers a second Accepted, and a counts 2 = "quorum" with a
single real acceptor.  b completes ballot (2,b) with a and decides 'vb'.  Exit 1 when a and b report
different decided values.  Standalone: /venv/bin/python /verif/findings/C12-paxos-phase2-restart.py
"""
import sys
from happysimulator.components.network.network import Network
from happysimulator.core.clock import Clock
from happysimulator.core.event import Event
from happysimulator.core.temporal import Instant


class Wire:
    """Hand-driven network: keeps what the nodes send, delivers one chosen message at a time
    exactly as NetworkLink would (same type, target = destination, same metadata)."""

    def __init__(self):
        self.clock = Clock(Instant.Epoch)
        self.net = Network(name="net")
        self.net.set_clock(self.clock)
        self.inflight, self.timers, self.nodes = [], [], {}

    def add(self, *nodes):
        for n in nodes:
            n.set_clock(self.clock)
            self.nodes[n.name] = n

    def absorb(self, out):
        for ev in ([out] if isinstance(out, Event) else (out or [])):
            (self.inflight if ev.target is self.net else self.timers).append(ev)

    def deliver(self, etype, src, dst, **match):
        for ev in self.inflight:
            md = ev.context["metadata"]
            if (ev.event_type, md["source"], md["destination"]) == (etype, src, dst) and \
                    all(md.get(k) == v for k, v in match.items()):
                self.inflight.remove(ev)
                print(f"  deliver {etype} {src}->{dst} { {k: v for k, v in md.items() if k not in ("source", "destination")} }")
                fwd = Event(time=self.clock.now, event_type=etype, target=self.nodes[dst], daemon=True,
                            context={"metadata": md})
                self.absorb(self.nodes[dst].handle_event(fwd))
                return
        raise SystemExit(f"script error: no in-flight {etype} {src}->{dst} {match}")

    def fire(self, etype, node):
        for ev in self.timers:
            if ev.event_type == etype and ev.target.name == node and not ev.cancelled:
                self.timers.remove(ev)
                if ev.time > self.clock.now:
                    self.clock.update(ev.time)
                print(f"  timer   {etype}@{node} t={ev.time.to_seconds()}s")
                self.absorb(ev.target.handle_event(ev))
                return
        raise SystemExit(f"script error: no timer {etype}@{node}")


from happysimulator.components.consensus.paxos import PaxosNode

w = Wire()
a, b, c = (PaxosNode(n, w.net) for n in "abc")
for n in (a, b, c):
    n.set_peers([a, b, c])
w.add(a, b, c)

fa = a.propose("va"); w.absorb(a.start_phase1())
w.deliver("PaxosPrepare", "a", "b")
w.deliver("PaxosPrepare", "a", "c")
fb = b.propose("vb"); w.absorb(b.start_phase1())
w.deliver("PaxosPrepare", "b", "a")          # a promises (2,b): it will not accept its own ballot 1
w.deliver("PaxosPromise", "b", "a")          # quorum (a, b) -> Phase 2 of ballot 1, value 'va'
w.deliver("PaxosAccept", "a", "c")           # c accepts (1,a)
w.deliver("PaxosAccepted", "c", "a")         # count = 1
w.deliver("PaxosPromise", "c", "a")          # late promise: Phase 2 is started again
w.deliver("PaxosAccept", "a", "c")           # second Accept of the same ballot to c
w.deliver("PaxosAccepted", "c", "a")         # count = 2 -> a decides with ONE acceptor
w.deliver("PaxosPromise", "a", "b")          # b: quorum (b, a), nothing accepted reported
w.deliver("PaxosAccept", "b", "a")
w.deliver("PaxosAccepted", "a", "b")         # b decides 'vb'
print("a:", a.is_decided, a.decided_value, " b:", b.is_decided, b.decided_value,
      " futures:", fa.is_resolved and fa.value, fb.is_resolved and fb.value)
bad = a.is_decided and b.is_decided and a.decided_value != b.decided_value
print("DEFECT: two nodes report different decided values" if bad else "ok: no disagreement")
sys.exit(1 if bad else 0)

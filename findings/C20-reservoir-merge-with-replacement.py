"""C20 finding: ReservoirSampler.merge() draws WITH replacement.

Statement clause: "a reservoir holds min(k, n) items of the stream".
After merging two reservoirs the sample can hold one stream occurrence twice
(and therefore miss another one), even when the combined stream is no longer
than the capacity, i.e. when the reservoir should hold the whole stream.

Exits 1 when the defect shows.
"""
import sys
from collections import Counter

from happysimulator.sketching.reservoir import ReservoirSampler

bad = 0
for seed in (0, 1, 2, 3):
    for left, right in (([], [0, 1]), ([0], [1]), ([0, 1], [2])):
        a = ReservoirSampler(size=2 if len(left) + len(right) == 2 else 3, seed=seed)
        b = ReservoirSampler(size=a.capacity, seed=seed)
        for x in left:
            a.add(x)
        for x in right:
            b.add(x)
        a.merge(b)
        stream = Counter(left + right)
        sample = a.sample()
        dup = [x for x, m in Counter(sample).items() if m > stream[x]]
        ok = len(sample) == min(a.capacity, len(left) + len(right)) and not dup
        print(f"seed={seed} capacity={a.capacity} merge(sketch({left}), sketch({right})) -> sample {sample}"
              f"{'' if ok else '   <-- holds an item more often than the stream does'}")
        bad += not ok
print("DEFECT" if bad else "ok")
sys.exit(1 if bad else 0)

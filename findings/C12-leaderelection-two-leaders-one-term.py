"""C12 finding (needs a redesign): LeaderElection terms are private per-node counters (incremented on every
local election and on every leader announcement; the term carried by messages is ignored), so two nodes can
claim leadership for the same term number.

Bully strategy, nodes a < b < c.  c has not yet been registered at a and b (add_member pending), c knows
everybody.  b's election finds no higher member and claims term 1; c's election claims term 1 as well.
Exit 1 when two different nodes report is_leader with the same current_term.
"""
import sys
from happysimulator.components.network.network import Network
from happysimulator.core.clock import Clock
from happysimulator.core.event import Event
from happysimulator.core.temporal import Instant


class Wire:
    """Hand-driven network: keeps what the nodes send, delivers one chosen message at a time
    exactly as NetworkLink would (same type, target = destination, same metadata)."""

    def __init__(self):
        self.clock = Clock(Instant.Epoch)
        self.net = Network(name="net")
        self.net.set_clock(self.clock)
        self.inflight, self.timers, self.nodes = [], [], {}

    def add(self, *nodes):
        for n in nodes:
            n.set_clock(self.clock)
            self.nodes[n.name] = n

    def absorb(self, out):
        for ev in ([out] if isinstance(out, Event) else (out or [])):
            (self.inflight if ev.target is self.net else self.timers).append(ev)

    def deliver(self, etype, src, dst, **match):
        for ev in self.inflight:
            md = ev.context["metadata"]
            if (ev.event_type, md["source"], md["destination"]) == (etype, src, dst) and \
                    all(md.get(k) == v for k, v in match.items()):
                self.inflight.remove(ev)
                print(f"  deliver {etype} {src}->{dst} { {k: v for k, v in md.items() if k not in ("source", "destination")} }")
                fwd = Event(time=self.clock.now, event_type=etype, target=self.nodes[dst], daemon=True,
                            context={"metadata": md})
                self.absorb(self.nodes[dst].handle_event(fwd))
                return
        raise SystemExit(f"script error: no in-flight {etype} {src}->{dst} {match}")

    def fire(self, etype, node):
        for ev in self.timers:
            if ev.event_type == etype and ev.target.name == node and not ev.cancelled:
                self.timers.remove(ev)
                if ev.time > self.clock.now:
                    self.clock.update(ev.time)
                print(f"  timer   {etype}@{node} t={ev.time.to_seconds()}s")
                self.absorb(ev.target.handle_event(ev))
                return
        raise SystemExit(f"script error: no timer {etype}@{node}")


from happysimulator.components.consensus.election_strategies import BullyStrategy
from happysimulator.components.consensus.leader_election import LeaderElection

w = Wire()
a, b, c = (LeaderElection(n, w.net, strategy=BullyStrategy(), election_timeout=2.0) for n in "abc")
w.add(a, b, c)
for n in (a, b):
    n.add_member(a); n.add_member(b)
for m in (a, b, c):
    c.add_member(m)
for n in (a, b, c):
    w.absorb(n.start())
for n in "abc":
    w.fire("ElectionTimeoutCheck", n)    # t=2s: not yet timed out (strict >)
w.fire("ElectionTimeoutCheck", "b")      # t=4s: b starts an election, no higher member known -> leader, term 1
w.fire("ElectionTimeoutCheck", "c")      # t=4s: c starts an election -> leader, term 1
claims = [(n.name, n.current_term) for n in (a, b, c) if n.is_leader]
print("leadership claims (node, term):", claims)
terms = [t for _, t in claims]
bad = len(terms) != len(set(terms))
print("DEFECT: two different leaders reported for one term" if bad else "ok")
sys.exit(1 if bad else 0)

"""C17 finding: a CRAQ read checks the dirty set BEFORE the store's read latency and never again.

Chain head -> tail with CRAQ, store write latency 2 s, read latency 1 s, links 9 s.  Write a=1
arrives at the head at t=0 and is applied (and marked dirty) at t=2.  A read that arrives at the head
at t=1 sees the key clean, spends the read latency, and at t=2 returns a=1 — a value that reaches the
tail only at t=13.  (The same happens at a middle node when a Propagate is applied during the read.)
Exit status 1 when the defect shows.
"""
import os
import sys

if os.environ.get("VERIF_REPO"):
    sys.path.insert(0, os.environ["VERIF_REPO"])

from happysimulator.components.datastore.kv_store import KVStore
from happysimulator.components.network.link import NetworkLink
from happysimulator.components.network.network import Network
from happysimulator.components.replication.chain_replication import build_chain
from happysimulator.core.event import Event
from happysimulator.core.sim_future import SimFuture
from happysimulator.core.simulation import Simulation
from happysimulator.core.temporal import Duration, Instant
from happysimulator.distributions.latency_distribution import LatencyDistribution


class Scripted(LatencyDistribution):
    """Per-message delays taken from a list (the last one repeats)."""

    def __init__(self, delays):
        super().__init__(delays[0])
        self.delays = list(delays)

    def get_latency(self, current_time):
        d = self.delays.pop(0) if len(self.delays) > 1 else self.delays[0]
        return Duration.from_seconds(d)


def at(t):
    return Instant.from_seconds(float(t))


def write(head, t, value, fut=None):
    return Event(time=at(t), event_type="Write", target=head,
                 context={"metadata": {"key": "a", "value": value, "reply_future": fut or SimFuture()}})


def read(node, t, fut):
    return Event(time=at(t), event_type="Read", target=node,
                 context={"metadata": {"key": "a", "reply_future": fut}})


def main():
    net = Network(name="net")
    head, tail = build_chain(["head", "tail"], net, lambda n: KVStore(n, read_latency=1.0, write_latency=2.0),
                             craq_enabled=True)
    net.add_link(head, tail, NetworkLink(name="h>t", latency=Scripted([9.0])))
    net.add_link(tail, head, NetworkLink(name="t>h", latency=Scripted([9.0])))
    r_head, r_tail = SimFuture(), SimFuture()
    sim = Simulation(entities=[head, tail, net, head.store, tail.store])
    sim.schedule([write(head, 0, 1), read(head, 1, r_head), read(tail, 1, r_tail)])
    sim.run()
    print("read issued at t=1 at head ->", r_head.value, "   at tail ->", r_tail.value)
    bad = r_head.value["value"] == 1 and r_tail.value["value"] is None
    print("DEFECT: head returned a=1 eleven seconds before the tail applied it" if bad else "ok")
    return 1 if bad else 0


if __name__ == "__main__":
    sys.exit(main())

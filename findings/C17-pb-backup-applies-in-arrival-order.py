"""C17 finding: a BackupNode applies Replicate messages in ARRIVAL order, ignoring their sequence numbers.

Two writes of key "a" (values 1 then 2) are sent to a SYNC primary with two backups.  The link to
backup B1 delays the first Replicate by 9 s and the second by 1 s, so seq=2 overtakes seq=1 there.

Observed on the defective tree:
  * B1 applies a=2 at t=2 and then overwrites it with the OLDER a=1 at t=9,
  * at quiescence the replicas differ: primary a=2, B0 a=2, B1 a=1 (permanently diverged).
Exit status 1 when the defect shows, 0 otherwise.  Standalone: only the library is imported.
"""
import os
import sys

if os.environ.get("VERIF_REPO"):
    sys.path.insert(0, os.environ["VERIF_REPO"])

from happysimulator.components.datastore.kv_store import KVStore
from happysimulator.components.network.link import NetworkLink
from happysimulator.components.network.network import Network
from happysimulator.components.replication.primary_backup import BackupNode, PrimaryNode, ReplicationMode
from happysimulator.core.entity import Entity
from happysimulator.core.event import Event
from happysimulator.core.sim_future import SimFuture
from happysimulator.core.simulation import Simulation
from happysimulator.core.temporal import Duration, Instant
from happysimulator.distributions.latency_distribution import LatencyDistribution


class Scripted(LatencyDistribution):
    """Per-message delays taken from a list (then the last one repeats)."""

    def __init__(self, delays):
        super().__init__(delays[0])
        self.delays = list(delays)

    def get_latency(self, current_time):
        d = self.delays.pop(0) if len(self.delays) > 1 else self.delays[0]
        return Duration.from_seconds(d)


class Client(Entity):
    def __init__(self, name, stores, log):
        super().__init__(name)
        self.stores, self.log = stores, log

    def handle_event(self, event):
        md = event.context["metadata"]
        fut = SimFuture()
        yield 0.0, [Event(time=self.now, event_type="Write", target=md["node"],
                          context={"metadata": {"key": "a", "value": md["value"], "reply_future": fut}})]
        yield fut
        self.log.append((self.now.to_seconds(), md["value"], {n: s.get_sync("a") for n, s in self.stores.items()}))


def main():
    net = Network(name="net")
    stores = {n: KVStore(n + "_store", read_latency=0.0, write_latency=0.0) for n in ("P", "B0", "B1")}
    backups = []
    prim = PrimaryNode("P", store=stores["P"], backups=backups, network=net, mode=ReplicationMode.SYNC)
    b0 = BackupNode("B0", store=stores["B0"], network=net, primary=prim)
    b1 = BackupNode("B1", store=stores["B1"], network=net, primary=prim)
    backups.extend([b0, b1])
    net.add_link(prim, b0, NetworkLink(name="P>B0", latency=Scripted([1.0])))
    net.add_link(prim, b1, NetworkLink(name="P>B1", latency=Scripted([9.0, 1.0])))   # seq 2 overtakes seq 1
    net.add_link(b0, prim, NetworkLink(name="B0>P", latency=Scripted([1.0])))
    net.add_link(b1, prim, NetworkLink(name="B1>P", latency=Scripted([1.0])))
    log = []
    cl = Client("client", stores, log)
    sim = Simulation(entities=[prim, b0, b1, net, cl, *stores.values()])
    for t, v in ((0.0, 1), (1.0, 2)):
        sim.schedule(Event(time=Instant.from_seconds(t), event_type="Go", target=cl,
                           context={"metadata": {"node": prim, "value": v}}))
    sim.run()
    for t, v, snap in log:
        print(f"t={t:>4}: write a={v} acknowledged; replicas hold {snap}")
    final = {n: s.get_sync("a") for n, s in stores.items()}
    print("final:", final)
    bad = len(set(final.values())) > 1
    print("DEFECT: replicas diverged after all messages were delivered" if bad else "ok: replicas converged")
    return 1 if bad else 0


if __name__ == "__main__":
    sys.exit(main())

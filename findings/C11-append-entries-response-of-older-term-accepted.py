"""C11 defect 4 (five nodes): a leader accepts a success answer that belongs to a request it sent
in an EARLIER term, counts the sender as a replica of its current log and commits without a quorum.

A leads term 1 with [x1,x2]; B stores both, its answer (term 1, success, match_index 2) is delayed.
C wins term 2 (D, E), writes y and replicates it to A (A drops x1,x2 and holds [y]).
A wins term 3 (C, D, E), accepts w: log [y, w].  B's old answer arrives: `_handle_append_entries_response`
only checks `term > current_term`, so match_index[B] = 2.  One real copy on D then "completes the quorum":
w is committed while only A and D (2 of 5) hold it.  C (log [y]) then wins term 4 with the votes of B and E.
Exit status 1 when the defect shows.  (Shows on /repo as is and also with finding patches 1-3 applied.)"""
import importlib.util
import os
import sys

spec = importlib.util.spec_from_file_location("c11common", os.path.join(os.path.dirname(__file__), "C11-repro_common.py"))
m = importlib.util.module_from_spec(spec)
spec.loader.exec_module(m)

c = m.Cluster(("A", "B", "C", "D", "E"))
STALE = ("AppendEntriesResponse", "B", "A")
c.fire("A"); c.deliver("RequestVote", "A", "B"); c.deliver("RequestVote", "A", "C")
c.deliver("VoteResponse", "B", "A"); c.deliver("VoteResponse", "C", "A"); c.lose()               # A leads term 1
c.node["A"].submit("x1"); c.node["A"].submit("x2"); c.fire("A", "RaftHeartbeat")
c.deliver("AppendEntries", "A", "B"); c.lose(keep=[STALE])                                       # B's answer is delayed
c.fire("C"); c.deliver("RequestVote", "C", "D"); c.deliver("RequestVote", "C", "E")
c.deliver("VoteResponse", "D", "C"); c.deliver("VoteResponse", "E", "C"); c.lose(keep=[STALE])   # C leads term 2
c.node["C"].submit("y"); c.fire("C", "RaftHeartbeat"); c.deliver("AppendEntries", "C", "A"); c.lose(keep=[STALE])
c.fire("A"); c.deliver("RequestVote", "A", "C"); c.deliver("RequestVote", "A", "D"); c.deliver("RequestVote", "A", "E")
c.deliver("VoteResponse", "D", "A"); c.deliver("VoteResponse", "E", "A"); c.lose(keep=[STALE])   # A leads term 3
fw = c.node["A"].submit("w"); c.fire("A", "RaftHeartbeat"); c.lose(keep=[STALE, ("AppendEntries", "A", "D")])
c.deliver(*STALE)                                                                                # the old answer
c.deliver("AppendEntries", "A", "D"); c.deliver("AppendEntriesResponse", "D", "A")               # D lacks y: retry
c.deliver("AppendEntries", "A", "D"); c.deliver("AppendEntriesResponse", "D", "A")               # D stores [y,w]
a = c.node["A"]
holders = [n for n, nd in c.node.items() if nd.log.get(2) is not None and nd.log.get(2).command == "w"]
committed = a.log.commit_index >= 2
print(f"A commit_index={a.log.commit_index}; nodes holding w at index 2: {holders}; future of submit(w): {fw}")
c.fire("C"); c.deliver("RequestVote", "C", "B", term=4); c.deliver("RequestVote", "C", "E", term=4)
c.deliver("VoteResponse", "B", "C", term=4); c.deliver("VoteResponse", "E", "C", term=4)         # C leads term 4
cn = c.node["C"]
bad = committed and len(holders) < 3 and cn.is_leader and cn.current_term == 4 and cn.log.get(2) is None
print("DEFECT: w committed at index 2 in term 3 on 2 of 5 nodes; leader of term 4 has no index 2" if bad else "ok")
sys.exit(1 if bad else 0)

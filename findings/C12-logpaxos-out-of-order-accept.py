"""C12 finding: Multi-Paxos and Flexible Paxos acceptors append an Accept for slot s at the END of their
log when earlier slots are missing, so with ONE leader and a loss-free network that merely reorders two
messages, a follower reports slot 1 decided with the command of slot 2.

a is the only leader; c1 is queued before a starts, c2 is submitted to the leader afterwards (submit() +
replication of the new slot, as examples/distributed/flexible_paxos_quorums.py does).  The Accept for slot 2
overtakes the Accept for slot 1 on the way to c.  Exit 1 when a and c report different commands for slot 1.
Usage: ... [multi|flex]   (default: both)
"""
import sys
from happysimulator.components.network.network import Network
from happysimulator.core.clock import Clock
from happysimulator.core.event import Event
from happysimulator.core.temporal import Instant


class Wire:
    """Hand-driven network: keeps what the nodes send, delivers one chosen message at a time
    exactly as NetworkLink would (same type, target = destination, same metadata)."""

    def __init__(self):
        self.clock = Clock(Instant.Epoch)
        self.net = Network(name="net")
        self.net.set_clock(self.clock)
        self.inflight, self.timers, self.nodes = [], [], {}

    def add(self, *nodes):
        for n in nodes:
            n.set_clock(self.clock)
            self.nodes[n.name] = n

    def absorb(self, out):
        for ev in ([out] if isinstance(out, Event) else (out or [])):
            (self.inflight if ev.target is self.net else self.timers).append(ev)

    def deliver(self, etype, src, dst, **match):
        for ev in self.inflight:
            md = ev.context["metadata"]
            if (ev.event_type, md["source"], md["destination"]) == (etype, src, dst) and \
                    all(md.get(k) == v for k, v in match.items()):
                self.inflight.remove(ev)
                print(f"  deliver {etype} {src}->{dst} { {k: v for k, v in md.items() if k not in ("source", "destination")} }")
                fwd = Event(time=self.clock.now, event_type=etype, target=self.nodes[dst], daemon=True,
                            context={"metadata": md})
                self.absorb(self.nodes[dst].handle_event(fwd))
                return
        raise SystemExit(f"script error: no in-flight {etype} {src}->{dst} {match}")

    def fire(self, etype, node):
        for ev in self.timers:
            if ev.event_type == etype and ev.target.name == node and not ev.cancelled:
                self.timers.remove(ev)
                if ev.time > self.clock.now:
                    self.clock.update(ev.time)
                print(f"  timer   {etype}@{node} t={ev.time.to_seconds()}s")
                self.absorb(ev.target.handle_event(ev))
                return
        raise SystemExit(f"script error: no timer {etype}@{node}")


from happysimulator.components.consensus.flexible_paxos import FlexiblePaxosNode
from happysimulator.components.consensus.multi_paxos import MultiPaxosNode


def scenario(cls, pre):
    print(cls.__name__)
    w = Wire()
    a, b, c = (cls(n, w.net, peers=[None, None]) for n in "abc")  # placeholder peers: quorum check at construction
    for n in (a, b, c):
        n.set_peers([a, b, c])
    w.add(a, b, c)
    a.submit({"op": "set", "key": "k", "value": "c1"})
    w.absorb(a.start())
    w.deliver(pre + "Prepare", "a", "b")
    w.deliver(pre + "Promise", "b", "a")         # a is leader, slot 1 = c1 replicated
    w.deliver(pre + "Accept", "a", "b", slot=1)
    w.deliver(pre + "Accepted", "b", "a")        # slot 1 decided at a
    a.submit({"op": "set", "key": "k", "value": "c2"})
    w.absorb(a._replicate_slot(a.log.last_index))
    w.deliver(pre + "Accept", "a", "c", slot=2)  # overtakes the Accept for slot 1 (still in flight)
    ra = a.log.get(1).command["value"] if a.log.commit_index >= 1 else None
    rc = c.log.get(1).command["value"] if c.log.commit_index >= 1 else None
    print(f"  slot 1 reported decided: a={ra!r} c={rc!r}")
    return ra is not None and rc is not None and ra != rc


which = sys.argv[1:] or ["multi", "flex"]
bad = False
if "multi" in which:
    bad |= scenario(MultiPaxosNode, "MultiPaxos")
if "flex" in which:
    bad |= scenario(FlexiblePaxosNode, "FlexPaxos")
print("DEFECT: two nodes report different decided commands for slot 1" if bad else "ok")
sys.exit(1 if bad else 0)

"""DistributedRateLimiter stamps the forwarded request with the ARRIVAL time after the backing-store round trips:
with any non-zero store latency the forward event lies in the past, the engine discards it, the request is lost."""
import importlib.util, os
spec = importlib.util.spec_from_file_location("c", os.path.join(os.path.dirname(__file__), "C07-_repro_common.py"))
c = importlib.util.module_from_spec(spec); spec.loader.exec_module(c)

from happysimulator import Event, Instant, Simulation
from happysimulator.components.common import Sink
from happysimulator.components.datastore import KVStore
from happysimulator.components.rate_limiter import DistributedRateLimiter

h = c.watch()
sink = Sink("sink")
store = KVStore("store", read_latency=0.005, write_latency=0.005)
rl = DistributedRateLimiter("rl", downstream=sink, backing_store=store, global_limit=10, window_size=1.0)
sim = Simulation(entities=[sink, store, rl], end_time=Instant.from_seconds(5))
sim.schedule(Event(time=Instant.from_seconds(1.0), event_type="Request", target=rl))
sim.run()
print("requests forwarded (stats):", rl.stats.requests_forwarded, " received by downstream:", sink.events_received)
c.verdict(h, "allowed request never reaches downstream", extra_bad=sink.events_received != 1)

"""C06 defect 1: a generator process in flight when its entity crashes keeps advancing.

CrashNode("g", at=1.0, restart_at=3.0); the handler of "g" is a generator that
was started at 0.5 s and sleeps 1 s.  It resumes (and emits) at 1.5 s, inside
the crash window: ProcessContinuation.invoke() never looks at ``_crashed``.
Exits 1 when the defect shows.
"""
import sys

from happysimulator.core.entity import Entity
from happysimulator.core.event import Event
from happysimulator.core.simulation import Simulation
from happysimulator.core.temporal import Instant
from happysimulator.faults import CrashNode, FaultSchedule

log = []


class Gen(Entity):
    def handle_event(self, event):
        log.append(("handler", self.now.to_seconds()))
        yield 1.0
        log.append(("resumed", self.now.to_seconds()))
        return None


g = Gen("g")
fs = FaultSchedule()
fs.add(CrashNode("g", at=1.0, restart_at=3.0))
sim = Simulation(entities=[g], fault_schedule=fs, end_time=Instant.from_seconds(6.0))
sim.schedule(Event(time=Instant.from_seconds(0.5), event_type="work", target=g))
sim.run()
print(log)
bad = [e for e in log if 1.0 < e[1] < 3.0]
if bad:
    print("DEFECT: entity 'g' executed while crashed in [1, 3):", bad)
    sys.exit(1)
print("ok: nothing executed inside the crash window")

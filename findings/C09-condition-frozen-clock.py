"""C09 / Condition: wait() spins at zero delay until notified, so a notifier that runs LATER in
simulated time never runs.  (With only this loop repaired the re-acquisition inside wait() still
needs the Mutex repair: C09-mutex-frozen-clock.patch.)

Standalone reproduction (no verification harness).  Exit status 1 = defect shows.
Run:  /venv/bin/python /verif/findings/C09-condition-frozen-clock.py      (VERIF_REPO=<dir> selects another source tree)
"""
import os
import sys

if os.environ.get("VERIF_REPO"):
    sys.path.insert(0, os.environ["VERIF_REPO"])

from happysimulator.core.entity import Entity
from happysimulator.core.event import Event
from happysimulator.core.simulation import Simulation
from happysimulator.core.temporal import Instant
from happysimulator.components.sync import Condition, Mutex


def run(sim, limit=5000):
    """Run with a horizon: stop after `limit` deliveries (a livelock must not hang this script)."""
    seen = {"n": 0, "last": None}

    def hook(ev):
        seen["n"] += 1
        seen["last"] = ev.time.to_seconds()
        if seen["n"] >= limit:
            sim.control.pause()

    sim.control.on_event(hook)
    sim.run()
    return seen


LOG = []
STATE = {"items": 0}


class Consumer(Entity):
    def __init__(self, name, m, cv):
        super().__init__(name)
        self.m, self.cv = m, cv

    def handle_event(self, event):
        yield from self.m.acquire(self.name)
        while STATE["items"] == 0:
            LOG.append((self.now.to_seconds(), self.name, "waits"))
            yield from self.cv.wait()
        STATE["items"] -= 1
        LOG.append((self.now.to_seconds(), self.name, "consumed"))
        return self.m.release()


class Producer(Entity):
    def __init__(self, name, m, cv):
        super().__init__(name)
        self.m, self.cv = m, cv

    def handle_event(self, event):
        yield from self.m.acquire(self.name)
        STATE["items"] += 1
        self.cv.notify(1)
        LOG.append((self.now.to_seconds(), self.name, "produced+notified"))
        yield 0.5
        return self.m.release()


m = Mutex("m")
cv = Condition("cv", m)
c, p = Consumer("c", m, cv), Producer("p", m, cv)
sim = Simulation(entities=[cv, m, c, p])
sim.schedule(Event(time=Instant.Epoch, event_type="go", target=c))
sim.schedule(Event(time=Instant.from_seconds(1.0), event_type="go", target=p))
seen = run(sim)
print("log:", LOG)
print("deliveries:", seen["n"], "last event time:", seen["last"], "s")
if not any(e[2] == "consumed" for e in LOG):
    print("DEFECT: the consumer was never served; the producer (due at 1.0 s) never ran, clock stuck at",
          seen["last"], "s")
    sys.exit(1)
sys.exit(0)

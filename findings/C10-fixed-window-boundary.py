"""C10: FixedWindowPolicy reports a zero wait while denying (non-dyadic window sizes).

_get_window_start floor-divides float seconds (0.3 // 0.1 == 2.0), so t=0.3 s is
counted in the window starting at 0.2 s, whereas time_until_available computes the
next window start in integer nanoseconds (0.2 s + 0.1 s == 0.3 s == now) and
returns Duration.ZERO.  The protocol docstring says: ZERO => try_acquire MUST
succeed.  Inside RateLimitedEntity the poll is re-scheduled at the same instant
forever (frozen clock).  Exit status 1 when the defect shows.
"""
import sys

from happysimulator.components.rate_limiter import FixedWindowPolicy, RateLimitedEntity
from happysimulator.core.entity import Entity
from happysimulator.core.event import Event
from happysimulator.core.simulation import Simulation
from happysimulator.core.temporal import Instant

bad = 0
p = FixedWindowPolicy(requests_per_window=1, window_size=0.1)
t = Instant(300_000_000)
first = p.try_acquire(t)
wait = p.time_until_available(t)
second = p.try_acquire(t)
print(f"try_acquire(0.3s)={first}  time_until_available(0.3s)={wait.nanoseconds}ns  try_acquire(0.3s)={second}")
if wait.nanoseconds == 0 and not second:
    print("  -> zero wait reported, immediate acquire denied")
    bad = 1


class Sink(Entity):
    def handle_event(self, event):
        return None


sink = Sink("sink")
lim = RateLimitedEntity("lim", sink, FixedWindowPolicy(1, 0.1), queue_capacity=10)
sim = Simulation(entities=[lim, sink], end_time=Instant.from_seconds(5.0))
sim.schedule([Event(time=t, event_type="req", target=lim) for _ in range(2)])
n = {"events": 0}


def hook(ev):
    n["events"] += 1
    if n["events"] >= 2000:
        sim.control.pause()


sim.control.on_event(hook)
sim.run()
print(f"RateLimitedEntity: {n['events']} events delivered, clock at {lim.now.to_seconds()}s, "
      f"queue_depth={lim.queue_depth}")
if n["events"] >= 2000:
    print("  -> poll re-fires at a frozen clock; the queued request is never forwarded")
    bad = 1
sys.exit(bad)

"""C17 finding: the CRAQ dirty set is per KEY, not per version.

Chain head -> tail with CRAQ.  Write a=1 at t=0 (Propagate 1 s, WriteAck/CommitNotify 3 s back),
write a=2 at t=3 (Propagate 3 s, reaches the tail at t=6).  At t=4 the ack + commit notification of
the FIRST write reach the head, which removes "a" from its dirty set although the second write is
still in flight.  A read at the head at t=5 is therefore served locally and returns a=2, a value
the tail has not applied (not committed) yet; the tail still returns a=1 at that moment.
Exit status 1 when the defect shows.
"""
import os
import sys

if os.environ.get("VERIF_REPO"):
    sys.path.insert(0, os.environ["VERIF_REPO"])

from happysimulator.components.datastore.kv_store import KVStore
from happysimulator.components.network.link import NetworkLink
from happysimulator.components.network.network import Network
from happysimulator.components.replication.chain_replication import build_chain
from happysimulator.core.event import Event
from happysimulator.core.sim_future import SimFuture
from happysimulator.core.simulation import Simulation
from happysimulator.core.temporal import Duration, Instant
from happysimulator.distributions.latency_distribution import LatencyDistribution


class Scripted(LatencyDistribution):
    """Per-message delays taken from a list (the last one repeats)."""

    def __init__(self, delays):
        super().__init__(delays[0])
        self.delays = list(delays)

    def get_latency(self, current_time):
        d = self.delays.pop(0) if len(self.delays) > 1 else self.delays[0]
        return Duration.from_seconds(d)


def at(t):
    return Instant.from_seconds(float(t))


def write(head, t, value, fut=None):
    return Event(time=at(t), event_type="Write", target=head,
                 context={"metadata": {"key": "a", "value": value, "reply_future": fut or SimFuture()}})


def read(node, t, fut):
    return Event(time=at(t), event_type="Read", target=node,
                 context={"metadata": {"key": "a", "reply_future": fut}})


def main():
    net = Network(name="net")
    head, tail = build_chain(["head", "tail"], net, lambda n: KVStore(n, read_latency=0.0, write_latency=0.0),
                             craq_enabled=True)
    net.add_link(head, tail, NetworkLink(name="h>t", latency=Scripted([1.0, 3.0])))
    net.add_link(tail, head, NetworkLink(name="t>h", latency=Scripted([3.0, 3.0, 1.0])))
    r_head, r_tail = SimFuture(), SimFuture()
    sim = Simulation(entities=[head, tail, net, head.store, tail.store])
    sim.schedule([write(head, 0, 1), write(head, 3, 2), read(head, 5, r_head), read(tail, 5, r_tail)])
    sim.run()
    local = head.stats.reads_served == 1   # served from the head's own store instead of being forwarded
    print("t=5 read at head ->", r_head.value, "(served locally)" if local else "(forwarded to the tail)",
          "   t=5 read at tail ->", r_tail.value)
    bad = local and r_head.value["value"] == 2 and r_tail.value["value"] == 1
    print("DEFECT: head served uncommitted a=2 while the tail still had a=1" if bad else "ok")
    return 1 if bad else 0


if __name__ == "__main__":
    sys.exit(main())

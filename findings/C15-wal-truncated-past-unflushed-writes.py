#!/venv/bin/python
"""C15 reproduction (standalone, no harness): LSMTree truncates the write-ahead log past
entries whose data is still only in memory, so a write whose log sync HAD completed is gone
after crash() + recover_from_crash().

`LSMTree._flush_memtable` ends with `self._wal.truncate(self._wal._next_sequence - 1)`,
evaluated AFTER the flush latency.  That drops every log entry appended so far, including
 (A) writes that arrived DURING the flush latency (they went to the new memtable), and
 (B) writes whose log append/sync was still in flight when the flush began (they are applied
     to the new memtable when the sync completes).
Both live only in volatile memory; their log entries are the only durable copy.

Run:  /venv/bin/python C15-wal-truncated-past-unflushed-writes.py     (exit 1 = defect shows)
      VERIF_REPO=/tmp/C15-scratch /venv/bin/python ...                (against a scratch tree)
"""
import os
import sys

if os.environ.get("VERIF_REPO"):
    sys.path.insert(0, os.environ["VERIF_REPO"])

from happysimulator import Entity, Event, Instant, Simulation
from happysimulator.components.storage import LSMTree, SyncEveryWrite, WriteAheadLog
from happysimulator.core.control.breakpoints import TimeBreakpoint


class Nop(Entity):
    def handle_event(self, event):
        return None


class Client(Entity):
    def __init__(self, name, lsm, key, value, log):
        super().__init__(name)
        self.lsm, self.key, self.value, self.log = lsm, key, value, log

    def handle_event(self, event):
        self.log.append(f"t={self.now.to_seconds() * 1e3:.3f}ms {self.name}: put({self.key!r}) begins")
        yield from self.lsm.put(self.key, self.value)
        self.log.append(f"t={self.now.to_seconds() * 1e3:.3f}ms {self.name}: put({self.key!r}) returned")


def scenario(title, second_writer_start_s, crash_s):
    wal = WriteAheadLog("wal", sync_policy=SyncEveryWrite())       # write 0.1 ms, sync 1 ms
    lsm = LSMTree("db", memtable_size=1, wal=wal)                   # every put fills the memtable; flush 2 ms
    log = []
    c1 = Client("c1", lsm, "a", "A1", log)
    c2 = Client("c2", lsm, "b", "B1", log)
    nop = Nop("crash-marker")
    sim = Simulation(entities=[lsm, wal, c1, c2, nop], end_time=Instant.from_seconds(1.0))
    # a marker event at the crash instant: the time breakpoint pauses right after it
    sim.schedule(Event(time=Instant.from_seconds(crash_s), event_type="marker", target=nop))
    sim.schedule(Event(time=Instant.from_seconds(0.0), event_type="go", target=c1))
    sim.schedule(Event(time=Instant.from_seconds(second_writer_start_s), event_type="go", target=c2))
    sim.control.add_breakpoint(TimeBreakpoint(time=Instant.from_seconds(crash_s)))
    sim.run()                                                       # paused at the crash instant
    print(f"--- {title}")
    for line in log:
        print("   ", line)
    synced = wal.synced_up_to
    print(f"    crash at t={crash_s * 1e3:.3f}ms: wal.synced_up_to={synced} (c2's put is log sequence 2), "
          f"wal.size={wal.size}, before crash get_sync('b')={lsm.get_sync('b')!r}")
    lsm.crash()
    lsm.recover_from_crash()
    got = lsm.get_sync("b")
    print(f"    after crash()+recover_from_crash(): get_sync('a')={lsm.get_sync('a')!r} get_sync('b')={got!r}")
    bad = synced >= 2 and got != "B1"
    print("    => DEFECT: the synced write b=B1 is lost" if bad else "    => ok")
    return bad


# c1: log write [0,0.1] sync [0.1,1.1] memtable [1.1,1.11] flush [1.11,3.11] ms
bad_a = scenario("(A) second write arrives during the first writer's flush",
                 second_writer_start_s=0.0015, crash_s=0.0035)   # c2 synced at 2.6 ms; flush of c1 ends 3.11 ms
bad_b = scenario("(B) second write's log sync is in flight when the first writer's flush begins",
                 second_writer_start_s=0.0005, crash_s=0.0034)   # c2 synced at 1.6 ms, its own flush ends 3.61 ms
sys.exit(1 if (bad_a or bad_b) else 0)

"""C06 defect 2: the end of an inner pause revives an entity that is still crashed.

CrashNode("p", 1.0 -> 4.0) with a nested PauseNode("p", 2.0 -> 3.0): the resume at
3.0 clears the single ``_crashed`` boolean, so the event at 3.5 s (inside the
crash window) is handled.  Exits 1 when the defect shows.
"""
import sys

from happysimulator.core.entity import Entity
from happysimulator.core.event import Event
from happysimulator.core.simulation import Simulation
from happysimulator.core.temporal import Instant
from happysimulator.faults import CrashNode, FaultSchedule, PauseNode

seen = []


class P(Entity):
    def handle_event(self, event):
        seen.append(self.now.to_seconds())


p = P("p")
fs = FaultSchedule()
fs.add(CrashNode("p", at=1.0, restart_at=4.0))
fs.add(PauseNode("p", start=2.0, end=3.0))
sim = Simulation(entities=[p], fault_schedule=fs, end_time=Instant.from_seconds(6.0))
sim.schedule([Event(time=Instant.from_seconds(t), event_type="ping", target=p) for t in (0.5, 1.5, 2.5, 3.5, 4.5)])
sim.run()
print("handled at", seen)
bad = [t for t in seen if 1.0 < t < 4.0]
if bad:
    print("DEFECT: handled inside the crash window [1, 4):", bad)
    sys.exit(1)
print("ok")

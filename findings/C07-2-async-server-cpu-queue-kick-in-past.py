"""AsyncServer with a generator I/O handler: the '_process_cpu_queue' kick is created when the CPU phase ends but
only returned after the I/O phase, i.e. stamped in the past -> discarded -> requests queued for the CPU are stuck."""
import importlib.util, os
spec = importlib.util.spec_from_file_location("c", os.path.join(os.path.dirname(__file__), "C07-_repro_common.py"))
c = importlib.util.module_from_spec(spec); spec.loader.exec_module(c)

from happysimulator import ConstantLatency, Event, Instant, Simulation
from happysimulator.components.server import AsyncServer

h = c.watch()
done = []


def io(event):
    yield 0.5
    done.append(event.context["metadata"]["i"])
    return None


srv = AsyncServer("async", max_connections=10, cpu_work_distribution=ConstantLatency(0.5), io_handler=io)
sim = Simulation(entities=[srv], end_time=Instant.from_seconds(20))
for i in range(2):
    sim.schedule(Event(time=Instant.from_seconds(1.0), event_type="Request", target=srv,
                       context={"metadata": {"i": i}}))
sim.run()
print("requests whose I/O phase completed:", done, "(expected [0, 1])")
c.verdict(h, "second request is never processed", extra_bad=done != [0, 1])

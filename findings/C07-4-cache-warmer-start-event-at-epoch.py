"""CacheWarmer.start_warming() stamps its event with Instant.Epoch ("will be scheduled at current time"): started
from inside a running simulation (deploy hook, operator action) the event is in the past and warming never happens."""
import importlib.util, os
spec = importlib.util.spec_from_file_location("c", os.path.join(os.path.dirname(__file__), "C07-_repro_common.py"))
c = importlib.util.module_from_spec(spec); spec.loader.exec_module(c)

from happysimulator import Event, Instant, Simulation
from happysimulator.components.datastore import CachedStore, CacheWarmer, KVStore, LRUEviction

h = c.watch()
kv = KVStore("kv", read_latency=0.01, write_latency=0.01)
kv.put_sync("a", 1)
cache = CachedStore("cache", backing_store=kv, cache_capacity=4, eviction_policy=LRUEviction())
warmer = CacheWarmer("warmer", cache=cache, keys_to_warm=["a"], warmup_rate=10.0)
sim = Simulation(entities=[kv, cache, warmer], end_time=Instant.from_seconds(10))
sim.schedule(Event.once(time=Instant.from_seconds(1.0), event_type="Deploy", fn=lambda e: [warmer.start_warming()]))
sim.run()
print("warmer complete:", warmer.is_complete, " cached keys:", cache.get_cached_keys())
c.verdict(h, "warming started at t=1 s never runs", extra_bad=not warmer.is_complete)

"""C14: two overlapping compactions resurrect a deleted key (LSMTree, any strategy, max_levels=2).

'a'=1 sits in L0.  Client 1 puts 'b' (flush -> compaction #1 merges {a:1,b} for L1 and waits
for its write latency).  Client 2 deletes 'a' (flush of the tombstone -> compaction #2 selects
the same L0 tables + the tombstone, drops the tombstone because L1 is the deepest level, waits).
#1 installs {a:1,b} in L1, then #2 installs {b} next to it: the tombstone is gone, 'a'=1 is back
for good although delete('a') completed.  Exit 1 when the defect shows.
"""
import os, sys
if os.environ.get("VERIF_REPO"):
    sys.path.insert(0, os.environ["VERIF_REPO"])
from happysimulator.core.entity import Entity
from happysimulator.core.event import Event
from happysimulator.core.simulation import Simulation
from happysimulator.core.temporal import Instant


class Client(Entity):
    """Runs a list of steps (callables returning library generators) and logs (time, label, result)."""

    def __init__(self, name, steps, log):
        super().__init__(name)
        self.steps, self.log = steps, log

    def handle_event(self, event):
        return self._run()

    def _run(self):
        for label, mk in self.steps:
            t0 = self.now.nanoseconds
            r = yield from mk()
            self.log.append((self.name, label, t0, self.now.nanoseconds, r))


def go(sim, client, at_ns):
    sim.schedule(Event(time=Instant(at_ns), event_type="go", target=client))

from happysimulator.components.storage.lsm_tree import LSMTree, SizeTieredCompaction
from happysimulator.components.storage.wal import WriteAheadLog

log = []
wal = WriteAheadLog("wal", write_latency=10e-6, sync_latency=20e-6)
lsm = LSMTree("lsm", memtable_size=1, compaction_strategy=SizeTieredCompaction(2), max_levels=2, wal=wal,
              sstable_read_latency=10e-6, sstable_write_latency=20e-6)
c1 = Client("c1", [("put b", lambda: lsm.put("b", 2))], log)
c2 = Client("c2", [("del a", lambda: lsm.delete("a")), ("get a", lambda: lsm.get("a"))], log)
sim = Simulation(entities=[lsm, wal, c1, c2])
lsm.put_sync("a", 1)  # flushed to L0 at once (memtable_size=1)
go(sim, c1, 0)
go(sim, c2, 15_000)
sim.run()
for e in log:
    print(e)
final = lsm.get_sync("a")
print("levels:", lsm.level_summary, "get_sync('a') after everything completed:", final)
got = {lab: res for (_c, lab, _a, _b, res) in log}
bad = final is not None or got["get a"] is not None
print("DEFECT: deleted key 'a' resurrected" if bad else "ok")
sys.exit(1 if bad else 0)

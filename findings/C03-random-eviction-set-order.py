"""C03 finding: RandomEviction(seed=...) keeps its keys in a set of strings and evicts
rng.choice(list(set)); the list order follows PYTHONHASHSEED, so the seeded policy evicts different
keys in different interpreters.  Exits 1 when the eviction sequences differ."""
import os
import subprocess
import sys

CHILD = r'''
import os, sys
if os.environ.get("VERIF_REPO"): sys.path.insert(0, os.environ["VERIF_REPO"])
from happysimulator.components.datastore.eviction_policies import RandomEviction
p = RandomEviction(seed=42)
for i in range(12):
    p.on_insert(f"key-{i:03d}")
print([p.evict() for _ in range(12)])
'''


def run(hashseed):
    env = dict(os.environ, PYTHONHASHSEED=str(hashseed))
    return subprocess.run([sys.executable, "-c", CHILD], env=env, capture_output=True, text=True, check=True).stdout


a, b = run(1), run(2)
print("PYTHONHASHSEED=1:", a.strip())
print("PYTHONHASHSEED=2:", b.strip())
if a != b:
    print("DEFECT: same seed, same inserts, different eviction order")
    sys.exit(1)
print("ok: eviction order identical")

"""C08 / BatchProcessor with batch_size=1 and a timeout holds every item for the whole timeout.

The "first item -> schedule the timeout and return" branch runs before the "batch is full" check, so a
batch that is already full (batch_size 1) waits for the timeout.  Exit 1 when it shows.
"""
import sys

from happysimulator.components.industrial.batch_processor import BatchProcessor
from happysimulator.core.entity import Entity
from happysimulator.core.event import Event
from happysimulator.core.simulation import Simulation
from happysimulator.core.temporal import Instant


class Sink(Entity):
    def __init__(self):
        super().__init__("sink")
        self.log = []

    def handle_event(self, event):
        self.log.append(self.now.to_seconds())


sink = Sink()
bp = BatchProcessor("b", sink, batch_size=1, process_time=0.0, timeout_s=5.0)
sim = Simulation(entities=[sink, bp])
sim.schedule(Event(time=Instant.from_seconds(0.0), event_type="Item", target=bp))
sim.run()
print("batch_size=1 process_time=0 timeout=5: item offered at t=0 came out at", sink.log)
sys.exit(1 if sink.log != [0.0] else 0)

"""C08 / ShiftedServer, RenegingQueuedResource (and InspectionStation) ignore the ``policy`` argument.

``super().__init__(name, policy=policy or FIFOQueue())``: QueuePolicy defines __len__, so every
policy is falsy while empty - i.e. always at construction - and is replaced by an unbounded FIFO.
A LIFO / priority / bounded policy passed by the user is silently dropped.  Exit 1 when it shows.
"""
import sys

from happysimulator.components.industrial.shift_schedule import Shift, ShiftedServer, ShiftSchedule
from happysimulator.components.queue_policy import LIFOQueue

mine = LIFOQueue(capacity=2)
srv = ShiftedServer("s", ShiftSchedule([Shift(0.0, 10.0, 1)], default_capacity=1), service_time=1.0, policy=mine)
used = srv.queue.policy
print("passed:", type(mine).__name__, "capacity", mine.capacity, "-> queue uses:", type(used).__name__,
      "capacity", used.capacity, "same object:", used is mine)
sys.exit(0 if used is mine else 1)

"""C09 / Barrier: a party waiting for the others spins at zero delay, so a party that arrives
LATER in simulated time never arrives: the clock is frozen at the first arrival.

Standalone reproduction (no verification harness).  Exit status 1 = defect shows.
Run:  /venv/bin/python /verif/findings/C09-barrier-frozen-clock.py      (VERIF_REPO=<dir> selects another source tree)
"""
import os
import sys

if os.environ.get("VERIF_REPO"):
    sys.path.insert(0, os.environ["VERIF_REPO"])

from happysimulator.core.entity import Entity
from happysimulator.core.event import Event
from happysimulator.core.simulation import Simulation
from happysimulator.core.temporal import Instant
from happysimulator.components.sync import Barrier


def run(sim, limit=5000):
    """Run with a horizon: stop after `limit` deliveries (a livelock must not hang this script)."""
    seen = {"n": 0, "last": None}

    def hook(ev):
        seen["n"] += 1
        seen["last"] = ev.time.to_seconds()
        if seen["n"] >= limit:
            sim.control.pause()

    sim.control.on_event(hook)
    sim.run()
    return seen


LOG = []


class Party(Entity):
    def __init__(self, name, bar):
        super().__init__(name)
        self.bar = bar

    def handle_event(self, event):
        LOG.append((self.now.to_seconds(), self.name, "arrives"))
        yield from self.bar.wait()
        LOG.append((self.now.to_seconds(), self.name, "passes"))


bar = Barrier("b", parties=2)
p1, p2 = Party("p1", bar), Party("p2", bar)
sim = Simulation(entities=[bar, p1, p2])
sim.schedule(Event(time=Instant.Epoch, event_type="go", target=p1))
sim.schedule(Event(time=Instant.from_seconds(1.0), event_type="go", target=p2))
seen = run(sim)
print("log:", LOG)
print("deliveries:", seen["n"], "last event time:", seen["last"], "s")
if sum(1 for e in LOG if e[2] == "passes") < 2:
    print("DEFECT: nobody passed the barrier; p2 (due at 1.0 s) never arrived, clock stuck at", seen["last"], "s")
    sys.exit(1)
sys.exit(0)

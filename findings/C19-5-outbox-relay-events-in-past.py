"""OutboxRelay with a non-zero relay latency: each relay event is stamped before the `yield relay_latency`
that follows it and returned only when the whole batch is done, so it lies in the past and is dropped; the
downstream entity never receives any entry although stats.entries_relayed counts them.  Exits 1 when the defect
shows."""
import sys

from happysimulator.components.microservice.outbox_relay import OutboxRelay
from happysimulator.core.entity import Entity
from happysimulator.core.event import Event
from happysimulator.core.simulation import Simulation
from happysimulator.core.temporal import Instant


class Down(Entity):
    def __init__(self):
        super().__init__("down")
        self.got = []

    def handle_event(self, event):
        self.got.append((self.now.to_seconds(), event.context["metadata"]["entry_id"]))


class Writer(Entity):
    def __init__(self, ob):
        super().__init__("writer")
        self.ob = ob

    def handle_event(self, event):
        self.ob.write({"order": 1})
        self.ob.write({"order": 2})
        return [self.ob.prime_poll()]


down = Down()
ob = OutboxRelay("outbox", downstream=down, poll_interval=0.5, relay_latency=0.25)  # default 0.001: same
w = Writer(ob)
sim = Simulation(entities=[down, ob, w], end_time=Instant.from_seconds(5))
sim.schedule(Event(time=Instant.from_seconds(1), event_type="go", target=w))
sim.run()
print("downstream received:", down.got, " stats.entries_relayed =", ob.stats.entries_relayed)
if ob.stats.entries_relayed == 2 and len(down.got) < 2:
    print("DEFECT: two entries counted as relayed, the downstream entity did not receive them")
    sys.exit(1)
print("ok")

"""C06 defect 3: a crashed QueuedResource keeps serving its backlog.

Three requests reach the server at 0.5 s (service 0.4 s each, one at a time).
CrashNode("srv", 1.0 -> 3.0).  The item in service at 1.0 completes at 1.3 and
the queued third item is started at 1.3 s: the internal worker adapter / driver
are different entities and never see the crash flag.  Exits 1 when the defect shows.
"""
import sys

from happysimulator.components.queued_resource import QueuedResource
from happysimulator.core.event import Event
from happysimulator.core.simulation import Simulation
from happysimulator.core.temporal import Instant
from happysimulator.faults import CrashNode, FaultSchedule

log = []


class Srv(QueuedResource):
    busy = 0

    def has_capacity(self):
        return self.busy < 1

    def handle_queued_event(self, event):
        log.append(("start", self.now.to_seconds()))
        self.busy += 1
        yield 0.4
        self.busy -= 1
        log.append(("done", self.now.to_seconds()))


srv = Srv("srv")
fs = FaultSchedule()
fs.add(CrashNode("srv", at=1.0, restart_at=3.0))
sim = Simulation(entities=[srv], fault_schedule=fs, end_time=Instant.from_seconds(6.0))
sim.schedule([Event(time=Instant.from_seconds(0.5), event_type=f"req{i}", target=srv) for i in range(3)])
sim.run()
print(log)
bad = [e for e in log if 1.0 < e[1] < 3.0]
if bad:
    print("DEFECT: the server executed while crashed in [1, 3):", bad)
    sys.exit(1)
print("ok")

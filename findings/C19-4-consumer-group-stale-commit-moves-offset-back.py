"""ConsumerGroup: a stale commit (lower offset arriving after a higher one, e.g. a retried or reordered commit)
overwrites the committed offset, which therefore moves backwards.  Exits 1 when the defect shows."""
import sys

from happysimulator.components.streaming import ConsumerGroup, EventLog
from happysimulator.core.entity import Entity
from happysimulator.core.event import Event
from happysimulator.core.simulation import Simulation
from happysimulator.core.temporal import Instant

log = EventLog("log", num_partitions=1)
group = ConsumerGroup("g", log, rebalance_delay=0.25)
seen = []


class Member(Entity):
    def handle_event(self, event):
        yield from group.join("A", self)
        yield from group.commit("A", {0: 5})
        yield 1.0
        seen.append(log.high_watermark(0) - group.consumer_lag("A")[0])
        yield from group.commit("A", {0: 2})  # stale commit
        yield 1.0
        seen.append(log.high_watermark(0) - group.consumer_lag("A")[0])


m = Member("member")
sim = Simulation(entities=[log, group, m], end_time=Instant.from_seconds(10))
sim.schedule(Event(time=Instant.from_seconds(1), event_type="go", target=m))
sim.run()
print("committed offset of A for partition 0 after commit(5), then after commit(2):", seen)
if len(seen) == 2 and seen[1] < seen[0]:
    print("DEFECT: the committed offset moved backwards")
    sys.exit(1)
print("ok")

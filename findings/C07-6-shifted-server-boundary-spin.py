"""ShiftedServer with a shift boundary at 1.001 s: Instant.from_seconds(1.001) is 1000999999 ns; at that instant
now.to_seconds() < 1.001, so the 'next' boundary is 1.001 again -> the _ShiftChange event re-schedules itself at the
same instant forever (frozen clock).  Guarded here by stopping after 5000 deliveries."""
import importlib.util, os, sys
spec = importlib.util.spec_from_file_location("c", os.path.join(os.path.dirname(__file__), "C07-_repro_common.py"))
c = importlib.util.module_from_spec(spec); spec.loader.exec_module(c)

from happysimulator import Event, Instant, Simulation
from happysimulator.components.common import Sink
from happysimulator.components.industrial import Shift, ShiftedServer, ShiftSchedule

sink = Sink("sink")
srv = ShiftedServer("srv", schedule=ShiftSchedule([Shift(0.0, 1.001, 1), Shift(1.001, 5.0, 2)]), service_time=0.1,
                    downstream=sink)
sim = Simulation(entities=[sink, srv], end_time=Instant.from_seconds(10))
sim.schedule(Event(time=Instant.from_seconds(0.5), event_type="Job", target=srv))
n = {"k": 0, "t": None, "cap_at_2s": None}
sim.schedule(Event.once(time=Instant.from_seconds(2.0), event_type="Probe",
                        fn=lambda e: n.__setitem__("cap_at_2s", srv.current_capacity)))


def hook(ev):
    n["k"] += 1
    n["t"] = ev.time.nanoseconds
    if n["k"] >= 5000:
        sim.control.pause()


sim.control.on_event(hook)
sim.run()
print("deliveries:", n["k"], " last clock:", n["t"], "ns", " capacity at 2 s:", n["cap_at_2s"], "(expected 2)")
if n["k"] >= 5000:
    print("DEFECT: 5000 deliveries, clock frozen at", n["t"], "ns")
    sys.exit(1)
print("ok: run ended")
sys.exit(0 if n["cap_at_2s"] == 2 else 1)

"""Shared by the C07 reproduction scripts: run a Simulation and collect the engine's own
'Time travel detected' warnings (no verification harness involved)."""
import logging
import os
import sys

_repo = os.environ.get("VERIF_REPO")
if _repo:
    sys.path.insert(0, _repo)


class Catch(logging.Handler):
    def __init__(self):
        super().__init__(logging.WARNING)
        self.msgs = []

    def emit(self, record):
        m = record.getMessage()
        if "Time travel" in m:
            self.msgs.append(m)


def watch():
    lg = logging.getLogger("happysimulator.core.simulation")
    lg.setLevel(logging.WARNING)
    h = Catch()
    lg.addHandler(h)
    return h


def verdict(h, what, extra_bad=False):
    for m in h.msgs[:3]:
        print("engine warning:", m)
    if h.msgs or extra_bad:
        print(f"DEFECT: {what}")
        sys.exit(1)
    print("ok: no event was emitted into the past")
    sys.exit(0)

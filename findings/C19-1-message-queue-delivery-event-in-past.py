"""MessageQueue with a non-zero delivery latency never delivers: the delivery event is stamped with the
time captured BEFORE `yield self._delivery_latency`, so it lies in the past when the simulation gets it
and is dropped ("Time travel detected"); the message stays counted in flight.  Exits 1 when the defect shows.
Run: /venv/bin/python C19-1-message-queue-delivery-event-in-past.py"""
import sys

from happysimulator.components.messaging import MessageQueue
from happysimulator.core.entity import Entity
from happysimulator.core.event import Event
from happysimulator.core.simulation import Simulation
from happysimulator.core.temporal import Instant


class Consumer(Entity):
    def __init__(self):
        super().__init__("consumer")
        self.got = []

    def handle_event(self, event):
        self.got.append((self.now.to_seconds(), event.event_type))


class Publisher(Entity):
    def __init__(self, queue, consumer):
        super().__init__("publisher")
        self.queue, self.consumer = queue, consumer

    def handle_event(self, event):
        yield from self.queue.publish(Event(time=self.now, event_type="order", target=self.consumer))
        return [Event(time=self.now, event_type="poll", target=self.queue)]


consumer = Consumer()
queue = MessageQueue("orders", delivery_latency=0.25)  # the default 0.001 behaves the same
queue.subscribe(consumer)
pub = Publisher(queue, consumer)
sim = Simulation(entities=[consumer, queue, pub])
sim.schedule(Event(time=Instant.from_seconds(1), event_type="go", target=pub))
sim.run()
print("consumer received:", consumer.got)
print("queue: delivered =", queue.stats.messages_delivered, " in flight =", queue.in_flight_count)
if queue.stats.messages_delivered == 1 and not consumer.got:
    print("DEFECT: the queue counts one delivery in flight but the consumer entity never received it")
    sys.exit(1)
print("ok")

"""C08 / DeadlineQueue.peek() does not name the item the next pop() returns once the heap root has expired.

peek() walks the heap LIST and returns the first live entry; pop() purges expired entries and returns the
earliest live deadline.  The list is only partially ordered, so after an expired root they differ.
Queue.dispatch_guard (installed by every Server) decides on peek() and then pops.  Exit 1 when it shows.
"""
import sys

from happysimulator.components.queue_policies import DeadlineQueue
from happysimulator.core.temporal import Instant


class Clock:
    t = Instant.from_seconds(0)

    def __call__(self):
        return self.t


clock = Clock()
q = DeadlineQueue(get_deadline=lambda item: Instant.from_seconds(item[1]), clock_func=clock)
for item in (("E", 1), ("X", 50), ("Y", 30)):
    q.push(item)
clock.t = Instant.from_seconds(2)  # E has expired
peeked = q.peek()
popped = q.pop()
print("peek() ->", peeked, " next pop() ->", popped)
sys.exit(0 if peeked == popped else 1)

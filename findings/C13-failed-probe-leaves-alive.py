#!/venv/bin/python
"""C13 finding (same root cause as C13-ack-timeout-never-suspects): failed probes and expired
suspicion timeouts leave the member ALIVE; detection depends on phi alone and can take longer
than N + ceil(suspicion/interval) + 2 probe rounds.

Standalone reproduction (library API only).  Four nodes, constant 10 ms links, probe interval
1 s, suspicion timeout 2 s, phi threshold 8.  m0 is crashed for good by CrashNode at
t = 4.000001 s.  For a fixed list of random seeds (they only decide the probe orders) the script
records, through get_member_state after every event, when each live member reports m0 ALIVE for
the last time.  A member that pinged m0 without answer, ran the indirect-probe step and let the
suspicion timeout expire - several times - still reports it ALIVE, because none of those steps
changes the state; only the phi check in the probe tick does.

Expected (property C13, bound derived from the protocol's own parameters: one probe pass + ack
timeout + suspicion timeout <= N + ceil(S/I) + 2 = 8 rounds): not ALIVE later than 8 rounds after
the stop.  Exit status 1 when some seed shows a later report.
"""
import os
import random
import sys

if os.environ.get("VERIF_REPO"):
    sys.path.insert(0, os.environ["VERIF_REPO"])

from happysimulator.components.consensus.membership import MembershipProtocol, MemberState
from happysimulator.components.network.link import NetworkLink
from happysimulator.components.network.network import Network
from happysimulator.core.simulation import Simulation
from happysimulator.distributions.constant import ConstantLatency
from happysimulator.faults.node_faults import CrashNode
from happysimulator.faults.schedule import FaultSchedule

N, INTERVAL, SUSPICION, PHI = 4, 1.0, 2.0, 8.0
STOP = 4.000001
BOUND = N + int(-(-SUSPICION // INTERVAL)) + 2


def run(seed):
    random.seed(seed)
    net = Network(name="net")
    nodes = [MembershipProtocol(name=f"m{i}", network=net, probe_interval=INTERVAL,
                                suspicion_timeout=SUSPICION, phi_threshold=PHI) for i in range(N)]
    for a in nodes:
        for b in nodes:
            if a is not b:
                a.add_member(b)
                net.add_link(a, b, NetworkLink(name=f"{a.name}->{b.name}", latency=ConstantLatency(0.010)))
    faults = FaultSchedule()
    faults.add(CrashNode("m0", at=STOP))
    sim = Simulation(duration=STOP + BOUND + 6, entities=[net, *nodes], fault_schedule=faults)
    for n in nodes:
        for e in n.start():
            sim.schedule(e)
    last_alive = {n.name: None for n in nodes[1:]}
    counts = {n.name: {"probes_unanswered": 0, "suspicion_timeouts": 0} for n in nodes[1:]}

    def hook(ev):
        t = ev.time.to_seconds()
        name = getattr(ev.target, "name", None)
        if t > STOP and name in counts:
            md = ev.context.get("metadata", {})
            if ev.event_type == "MembershipIndirectPing" and md.get("probe_target") == "m0":
                counts[name]["probes_unanswered"] += 1
            if ev.event_type == "MembershipSuspicionTimeout" and md.get("suspect") == "m0":
                counts[name]["suspicion_timeouts"] += 1
        for n in nodes[1:]:
            if n.get_member_state("m0") == MemberState.ALIVE:
                last_alive[n.name] = t

    sim.control.on_event(hook)
    sim.run()
    return last_alive, counts


bad = False
for seed in range(40):
    last_alive, counts = run(seed)
    for name, t in last_alive.items():
        if t is not None and t > STOP + BOUND * INTERVAL:
            print(f"seed {seed}: {name} still reports m0 ALIVE at t={t:.2f}s = {(t - STOP) / INTERVAL:.1f} rounds "
                  f"after the stop (bound {BOUND}); meanwhile {counts[name]}")
            bad = True
print("DEFECT: stopped member reported ALIVE beyond the bound" if bad else "ok: always detected within the bound")
sys.exit(1 if bad else 0)

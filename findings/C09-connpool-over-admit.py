"""C09 / ConnectionPool: a connection is counted in total_connections only AFTER its set-up
latency, so every acquire() that arrives during the set-up also passes `total < max` and the pool
opens (and hands out) more than max_connections.

Standalone reproduction (no verification harness).  Exit status 1 = defect shows.
Run:  /venv/bin/python /verif/findings/C09-connpool-over-admit.py      (VERIF_REPO=<dir> selects another source tree)
"""
import os
import sys

if os.environ.get("VERIF_REPO"):
    sys.path.insert(0, os.environ["VERIF_REPO"])

from happysimulator.core.entity import Entity
from happysimulator.core.event import Event
from happysimulator.core.simulation import Simulation
from happysimulator.core.temporal import Instant
from happysimulator.components.client.connection_pool import ConnectionPool
from happysimulator.distributions.constant import ConstantLatency

LOG = []
HELD = set()
PEAK = {"held": 0, "total": 0}


class Sink(Entity):
    def handle_event(self, event):
        return None


class Client(Entity):
    def __init__(self, name, pool):
        super().__init__(name)
        self.pool = pool

    def handle_event(self, event):
        conn = yield from self.pool.acquire()
        HELD.add(self.name)
        PEAK["held"] = max(PEAK["held"], len(HELD))
        PEAK["total"] = max(PEAK["total"], self.pool.total_connections)
        LOG.append((self.now.to_seconds(), self.name, "got connection", conn.id, "holders now", sorted(HELD)))
        yield 1.0
        HELD.discard(self.name)
        return self.pool.release(conn)


db = Sink("db")
pool = ConnectionPool("pool", target=db, max_connections=1, connection_latency=ConstantLatency(2.0))
a, b = Client("a", pool), Client("b", pool)
sim = Simulation(entities=[pool, db, a, b])
sim.schedule(Event(time=Instant.Epoch, event_type="go", target=a))
sim.schedule(Event(time=Instant.from_seconds(1.0), event_type="go", target=b))   # during a's set-up
sim.run()
for e in LOG:
    print(e)
print("max_connections=1  peak simultaneous holders:", PEAK["held"], " peak total_connections:", PEAK["total"])
if PEAK["held"] > 1 or PEAK["total"] > 1:
    print("DEFECT: more connections than max_connections")
    sys.exit(1)
sys.exit(0)

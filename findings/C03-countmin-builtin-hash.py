"""C03 finding: CountMinSketch hashes items with the builtin hash(); for str items that is
randomised per interpreter, so the same stream gives different estimates in different processes.
Exits 1 when the defect shows (estimates differ between PYTHONHASHSEED=1 and =2)."""
import os
import subprocess
import sys

CHILD = r'''
import os, sys
if os.environ.get("VERIF_REPO"): sys.path.insert(0, os.environ["VERIF_REPO"])
from happysimulator import CountMinSketch
cms = CountMinSketch(width=16, depth=3, seed=7)
for i in range(400):
    cms.add(f"customer-{(i * i) % 37:03d}")
print([cms.estimate(f"customer-{k:03d}") for k in range(37)])
'''


def run(hashseed):
    env = dict(os.environ, PYTHONHASHSEED=str(hashseed))
    return subprocess.run([sys.executable, "-c", CHILD], env=env, capture_output=True, text=True, check=True).stdout


a, b = run(1), run(2)
print("PYTHONHASHSEED=1:", a.strip())
print("PYTHONHASHSEED=2:", b.strip())
if a != b:
    print("DEFECT: same sketch seed, same stream, different estimates")
    sys.exit(1)
print("ok: estimates identical")

"""C11 defect 2: an entry is committed that only the leader holds; a later leader lacks it.

A (leader of term 1) holds an unreplicated entry x.  B wins term 2 (vote of C) and sends its
first, empty AppendEntries.  A accepts it and answers success with
match_index = A's OWN last index (1) although B sent it nothing.  B meanwhile accepted
command y at index 1, counts A as holding index 1, and commits y with no second copy anywhere.
A then wins term 3 (its log is as up to date as C's) and leads with x at the committed index.
Exit status 1 when the defect shows."""
import importlib.util
import os
import sys

spec = importlib.util.spec_from_file_location("c11common", os.path.join(os.path.dirname(__file__), "C11-repro_common.py"))
m = importlib.util.module_from_spec(spec)
spec.loader.exec_module(m)

c = m.Cluster()
c.fire("A"); c.deliver("RequestVote", "A", "B"); c.deliver("VoteResponse", "B", "A")   # A leads term 1
c.deliver("AppendEntries", "A", "B"); c.deliver("AppendEntries", "A", "C")             # heartbeats
fx = c.node["A"].submit("x"); c.show("submit x to A")                                  # A: [x], nobody else
c.fire("B"); c.deliver("RequestVote", "B", "C"); c.deliver("VoteResponse", "C", "B")   # B leads term 2
c.deliver("AppendEntries", "B", "A")                                                   # empty AE; A says match_index=1
fy = c.node["B"].submit("y"); c.show("submit y to B")                                  # B: [y]
c.deliver("AppendEntriesResponse", "A", "B")                                           # B commits y "on a majority"
committed_y = c.node["B"].log.commit_index >= 1 and c.sm["B"].applied == ["y"]
print("B committed/applied y alone:", committed_y, "future:", fy)
c.fire("A"); c.deliver("RequestVote", "A", "C", term=3); c.deliver("VoteResponse", "C", "A", term=3)   # A leads term 3
a = c.node["A"]
bad = committed_y and a.is_leader and a.current_term == 3 and a.log.get(1).command != "y"
print("DEFECT: y was committed at index 1 in term 2 but the leader of term 3 holds", a.log.get(1)) if bad else print("ok")
sys.exit(1 if bad else 0)

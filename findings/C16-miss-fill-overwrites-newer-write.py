"""C16 reproduction (no harness): CachedStore.get() that missed caches what it fetched even though
the key was written / deleted while the fetch was in flight; the stale value then stays cached.
Exits 1 when the defect shows."""
import sys

from happysimulator import Entity, Event, Instant, Simulation
from happysimulator.components.datastore import CachedStore, KVStore, LRUEviction


class Client(Entity):
    def __init__(self, name, fn):
        super().__init__(name)
        self.fn, self.result = fn, None

    def handle_event(self, event):
        self.result = yield from self.fn()


def run(write_kind):
    backing = KVStore("db", read_latency=4.0, write_latency=2.0, delete_latency=3.0)
    backing.put_sync("a", "old")
    cache = CachedStore("c", backing, cache_capacity=2, eviction_policy=LRUEviction(), cache_read_latency=1.0)
    reader = Client("reader", lambda: cache.get("a"))  # t=0: miss, backing read lands t=4
    writer = Client("writer", (lambda: cache.put("a", "new")) if write_kind == "put" else (lambda: cache.delete("a")))
    later = Client("later", lambda: cache.get("a"))  # t=20: long after the write completed
    sim = Simulation(entities=[backing, cache, reader, writer, later])
    sim.schedule(Event(time=Instant.from_seconds(0.0), event_type="go", target=reader))
    sim.schedule(Event(time=Instant.from_seconds(2.5 if write_kind == "put" else 1.5), event_type="go", target=writer))
    sim.schedule(Event(time=Instant.from_seconds(20.0), event_type="go", target=later))
    sim.run()
    want = "new" if write_kind == "put" else None
    print(f"get(a) at t=0 overlapping {write_kind}(a): read at t=20 returned {later.result!r}, "
          f"backing holds {backing.get_sync('a')!r}, expected {want!r}")
    return later.result != want


bad = [run("put"), run("delete")]
sys.exit(1 if any(bad) else 0)

"""C14: BTree.get returns None for a stored key when a concurrent put splits the node it holds.

order=3: the root leaf holds a,b.  get('b') fetches the root reference, then yields the page-read
latency; meanwhile an update put('a') finds the root full and splits it ('b' moves to a new right
sibling).  The resumed get looks into the old node and misses 'b', whose put completed long before.
Exit 1 when the defect shows.
"""
import os, sys
if os.environ.get("VERIF_REPO"):
    sys.path.insert(0, os.environ["VERIF_REPO"])
from happysimulator.core.entity import Entity
from happysimulator.core.event import Event
from happysimulator.core.simulation import Simulation
from happysimulator.core.temporal import Instant


class Client(Entity):
    """Runs a list of steps (callables returning library generators) and logs (time, label, result)."""

    def __init__(self, name, steps, log):
        super().__init__(name)
        self.steps, self.log = steps, log

    def handle_event(self, event):
        return self._run()

    def _run(self):
        for label, mk in self.steps:
            t0 = self.now.nanoseconds
            r = yield from mk()
            self.log.append((self.name, label, t0, self.now.nanoseconds, r))


def go(sim, client, at_ns):
    sim.schedule(Event(time=Instant(at_ns), event_type="go", target=client))

from happysimulator.components.storage.btree import BTree

log = []
bt = BTree("bt", order=3, page_read_latency=10e-6, page_write_latency=20e-6)
bt.put_sync("a", 1)
bt.put_sync("b", 2)
w = Client("writer", [("put a", lambda: bt.put("a", 3))], log)
r = Client("reader", [("get b", lambda: bt.get("b"))], log)
sim = Simulation(entities=[bt, w, r])
go(sim, w, 0)       # traversal 0..10 us, then insert (split) at 10 us
go(sim, r, 5_000)   # root fetched at 5 us, looked at after the split at 15 us
sim.run()
for e in log:
    print(e)
got = {lab: res for (_c, lab, _a, _b, res) in log}
bad = got["get b"] != 2
print("DEFECT: get('b') =", got["get b"], "although b=2 was stored before the run" if bad else "ok")
sys.exit(1 if bad else 0)

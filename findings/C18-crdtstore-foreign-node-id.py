"""CRDTStore adopts a gossiped key together with the SENDER's node_id; its own later increments are
written into the sender's slot and lost on merge.  Two stores, three increments of 1, value 2.
Exits 1 when the defect shows."""
import os
import sys

if os.environ.get("VERIF_REPO"):
    sys.path.insert(0, os.environ["VERIF_REPO"])
from happysimulator import Event, Instant, Network, Simulation
from happysimulator.components.crdt import CRDTStore, GCounter
from happysimulator.components.network.link import NetworkLink
from happysimulator.distributions.constant import ConstantLatency

net = Network(name="net")
s0 = CRDTStore("s0", network=net, crdt_factory=lambda nid: GCounter(nid), gossip_interval=1.0)
s1 = CRDTStore("s1", network=net, crdt_factory=lambda nid: GCounter(nid), gossip_interval=1.0)
s0.add_peers([s1])
s1.add_peers([s0])
net.add_bidirectional_link(s0, s1, NetworkLink(name="l", latency=ConstantLatency(0.1)))
sim = Simulation(start_time=Instant.Epoch, end_time=Instant.from_seconds(4.9), entities=[s0, s1, net])


def write(t, store):
    return Event(time=Instant.from_seconds(t), event_type="Write", target=store,
                 context={"metadata": {"key": "k", "operation": "increment", "value": 1}})


sim.schedule([write(0.5, s0), write(1.5, s0), write(1.5, s1)])   # s1 learns "k" by gossip at t=1.0
sim.schedule([s0.get_gossip_event(), s1.get_gossip_event()])
sim.run()
v0, v1 = s0.crdts["k"], s1.crdts["k"]
print(f"s0: value={v0.value} node_id={v0.node_id};  s1: value={v1.value} node_id={v1.node_id};  increments issued: 3")
sys.exit(0 if (v0.value == 3 and v1.value == 3) else 1)

"""C09 / ConnectionPool warm-up: (a) a client that queued while the warm-up held the only slot is not
served by the connection the warm-up creates (it goes to the idle list; the client times out next to
it); (b) the warm-up tops up while total < min without counting client set-ups in flight, so the
pool ends up owning more than max_connections.

Standalone reproduction (no verification harness).  Exit status 1 = defect shows.
Run:  /venv/bin/python /verif/findings/C09-connpool-warmup.py   (VERIF_REPO=<dir> selects another tree)
"""
import os
import sys

if os.environ.get("VERIF_REPO"):
    sys.path.insert(0, os.environ["VERIF_REPO"])

from happysimulator.components.client.connection_pool import ConnectionPool
from happysimulator.core.entity import Entity
from happysimulator.core.event import Event
from happysimulator.core.simulation import Simulation
from happysimulator.core.temporal import Instant
from happysimulator.distributions.constant import ConstantLatency


class Sink(Entity):
    def handle_event(self, event):
        return None


class Client(Entity):
    def __init__(self, name, pool, log):
        super().__init__(name)
        self.pool, self.log = pool, log

    def handle_event(self, event):
        try:
            conn = yield from self.pool.acquire()
        except TimeoutError:
            self.log.append((self.now.to_seconds(), self.name, "TIMEOUT", "idle=%d" % self.pool.idle_connections))
            return None
        self.log.append((self.now.to_seconds(), self.name, "acquired", conn.id))
        yield 1.0
        return self.pool.release(conn)


def scenario(warm_first):
    log, db = [], Sink("db")
    pool = ConnectionPool("pool", target=db, min_connections=1, max_connections=1, connection_timeout=16.0,
                          connection_latency=ConstantLatency(2.0))
    c = Client("client", pool, log)
    sim = Simulation(entities=[pool, db, c], end_time=Instant.from_seconds(40.0))
    def arrive():
        return Event(time=Instant.Epoch, event_type="go", target=c)

    # same-instant events are delivered in creation order
    evs = [pool.warmup(), arrive()] if warm_first else [arrive(), pool.warmup()]
    for ev in evs:
        sim.schedule(ev)
    peak = {"total": 0}
    sim.control.on_event(lambda ev: peak.__setitem__("total", max(peak["total"], pool.total_connections)))
    sim.run()
    return log, peak["total"]


bad = 0
log, peak = scenario(warm_first=True)
print("(a) warm-up first, client at t=0:", log)
if any(e[2] == "TIMEOUT" for e in log) or not log or log[0][0] > 2.0:
    print("DEFECT (a): the client was not served by the warm-up connection created at t=2")
    bad = 1
log, peak = scenario(warm_first=False)
print("(b) client first, then warm-up: peak total_connections =", peak, "with max_connections=1")
if peak > 1:
    print("DEFECT (b): the pool owns more connections than max_connections")
    bad = 1
sys.exit(bad)

"""C12 finding: MultiPaxosNode handles its own heartbeat timer event like a heartbeat from a peer:
the leader clears is_leader and never sends another heartbeat, so followers never learn the commit index.

Real Simulation + Network (datacenter links, nothing lost).  Node 0 has one queued command and starts;
after 5 simulated seconds every node should have applied it and node 0 should still lead.
Exit 1 when a follower has not applied the command or the leader deposed itself.
"""
import random
import sys

from happysimulator.components.consensus.multi_paxos import MultiPaxosNode
from happysimulator.components.network.conditions import datacenter_network
from happysimulator.components.network.network import Network
from happysimulator.core.event import Event
from happysimulator.core.simulation import Simulation
from happysimulator.core.temporal import Instant

random.seed(1)
net = Network(name="net")
nodes = [MultiPaxosNode(f"n{i}", net, heartbeat_interval=1.0) for i in range(3)]
for n in nodes:
    n.set_peers(nodes)
for i, x in enumerate(nodes):
    for y in nodes[i + 1:]:
        net.add_bidirectional_link(x, y, datacenter_network(f"l-{x.name}-{y.name}"))
fut = nodes[0].submit({"op": "set", "key": "k", "value": 1})
sim = Simulation(start_time=Instant.Epoch, duration=5.0, entities=[net, *nodes])
sim.schedule(Event.once(time=Instant.from_seconds(0.01), event_type="Start", fn=lambda e: nodes[0].start()))
sim.run()
for n in nodes:
    print(n.name, "is_leader", n.is_leader, "commit_index", n.log.commit_index, "stats", n.stats)
bad = any(n.log.commit_index < 1 for n in nodes) or not nodes[0].is_leader
print("DEFECT: command submitted to the only leader on a fault-free network is not applied everywhere / "
      "leader deposed itself" if bad else "ok")
sys.exit(1 if bad else 0)

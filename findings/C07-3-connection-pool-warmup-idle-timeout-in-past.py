"""ConnectionPool warm-up creates min_connections one after another (each takes connection_latency) but returns all
idle-timeout events only at the end: with idle_timeout < (n-1) * connection_latency the first ones are in the past."""
import importlib.util, os
spec = importlib.util.spec_from_file_location("c", os.path.join(os.path.dirname(__file__), "C07-_repro_common.py"))
c = importlib.util.module_from_spec(spec); spec.loader.exec_module(c)

from happysimulator import ConstantLatency, Instant, Simulation
from happysimulator.components.client import ConnectionPool
from happysimulator.components.common import Sink

h = c.watch()
backend = Sink("backend")
pool = ConnectionPool("pool", target=backend, min_connections=2, max_connections=2, idle_timeout=1.0,
                      connection_latency=ConstantLatency(1.25))
sim = Simulation(entities=[backend, pool], end_time=Instant.from_seconds(10))
sim.schedule(pool.warmup())
sim.run()
c.verdict(h, "idle-timeout check of the first warmed connection is discarded")

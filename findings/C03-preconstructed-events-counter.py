"""C03 finding: events a model creates BEFORE it constructs its Simulation (as
examples/distributed/multi_leader_replication.py and examples/infrastructure/consumer_group.py do)
carry creation indices from the process-wide counter, which Simulation.__init__ then resets to 0.
Their tie-break order against events created later therefore depends on how many events earlier
simulations in the same interpreter created.  Exits 1 when two identical builds+runs in one process
deliver in different orders."""
import os
import sys

if os.environ.get("VERIF_REPO"):
    sys.path.insert(0, os.environ["VERIF_REPO"])
from happysimulator import Entity, Event, Instant, Simulation, Source  # noqa: E402


class Rec(Entity):
    def __init__(self, name, log):
        super().__init__(name)
        self.log = log

    def handle_event(self, event):
        self.log.append((self.now.nanoseconds, event.event_type))
        if event.event_type == "Tick":
            return [Event(time=self.now + 0.1, event_type="echo", target=self)]
        return None


def build_and_run():
    log = []
    rec = Rec("rec", log)
    # the example style: control / poll events first, Simulation afterwards
    pre = [Event(time=Instant.from_seconds(0.1 * k), event_type="Poll", target=rec) for k in range(1, 6)]
    src = Source.constant(rate=10.0, target=rec, event_type="Tick", stop_after=0.4)
    sim = Simulation(sources=[src], entities=[rec], duration=0.7)
    for e in pre:
        sim.schedule(e)
    sim.run()
    return log


first = build_and_run()
second = build_and_run()
for i, (a, b) in enumerate(zip(first, second)):
    print(f"{i:3d} {a!s:32} {b!s:32}{'  <<<' if a != b else ''}")
if first != second:
    print("DEFECT: same model, same process, second build+run delivers ties in a different order")
    sys.exit(1)
print("ok: identical delivery order")

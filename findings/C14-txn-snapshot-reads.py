"""C14: SNAPSHOT_ISOLATION transaction reads are not taken from one snapshot.

T1 reads x, T2 writes x and y and commits, T1 reads y and commits (read-only, no conflict).
T1 observed x from before T2 and y from after T2: StorageTransaction.read() goes to the live
store although the docstrings promise a snapshot.  Exit 1 when the defect shows.
"""
import os, sys
if os.environ.get("VERIF_REPO"):
    sys.path.insert(0, os.environ["VERIF_REPO"])
from happysimulator.core.entity import Entity
from happysimulator.core.event import Event
from happysimulator.core.simulation import Simulation
from happysimulator.core.temporal import Instant


class Client(Entity):
    """Runs a list of steps (callables returning library generators) and logs (time, label, result)."""

    def __init__(self, name, steps, log):
        super().__init__(name)
        self.steps, self.log = steps, log

    def handle_event(self, event):
        return self._run()

    def _run(self):
        for label, mk in self.steps:
            t0 = self.now.nanoseconds
            r = yield from mk()
            self.log.append((self.name, label, t0, self.now.nanoseconds, r))


def go(sim, client, at_ns):
    sim.schedule(Event(time=Instant(at_ns), event_type="go", target=client))

from happysimulator.components.datastore.kv_store import KVStore
from happysimulator.components.storage.transaction_manager import IsolationLevel, TransactionManager

log = []
store = KVStore("kv", read_latency=10e-6, write_latency=20e-6)
store.put_sync("x", "x0")
store.put_sync("y", "y0")
tm = TransactionManager("tm", store=store, isolation=IsolationLevel.SNAPSHOT_ISOLATION)
tx = {}


def begin(n):
    def mk():
        tx[n] = yield from tm.begin()
        return tx[n].tx_id
    return mk


steps = [("T1 begin", begin(1)), ("T1 read x", lambda: tx[1].read("x")),
         ("T2 begin", begin(2)), ("T2 write x", lambda: tx[2].write("x", "x2")),
         ("T2 write y", lambda: tx[2].write("y", "y2")), ("T2 commit", lambda: tx[2].commit()),
         ("T1 read y", lambda: tx[1].read("y")), ("T1 commit", lambda: tx[1].commit())]
c = Client("sched", steps, log)
sim = Simulation(entities=[store, tm, c])
go(sim, c, 0)
sim.run()
for e in log:
    print(e)
got = {lab: res for (_c, lab, _a, _b, res) in log}
reads = (got["T1 read x"], got["T1 read y"])
bad = got["T1 commit"] and reads not in (("x0", "y0"), ("x2", "y2"))
print("DEFECT: committed SI transaction T1 read", reads, "- no single snapshot has these values" if bad else "ok")
sys.exit(1 if bad else 0)

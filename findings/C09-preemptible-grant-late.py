"""C09 / PreemptibleResource: capacity freed by a preemption is not offered to queued waiters.
acquire(preempt=True) evicts lower-priority holders; whatever it frees beyond (or short of) the
requester's own need stays idle although a queued waiter fits, until the next release().

Standalone reproduction (no verification harness).  Exit status 1 = defect shows.
Run:  /venv/bin/python /verif/findings/C09-preemptible-grant-late.py      (VERIF_REPO=<dir> selects another source tree)
"""
import os
import sys

if os.environ.get("VERIF_REPO"):
    sys.path.insert(0, os.environ["VERIF_REPO"])

from happysimulator.core.entity import Entity
from happysimulator.core.event import Event
from happysimulator.core.simulation import Simulation
from happysimulator.core.temporal import Instant
from happysimulator.components.industrial.preemptible_resource import PreemptibleResource

LOG = []


class Worker(Entity):
    def __init__(self, name, res, amount, priority, preempt, hold):
        super().__init__(name)
        self.res, self.args, self.hold = res, (amount, priority, preempt), hold

    def handle_event(self, event):
        amount, priority, preempt = self.args
        LOG.append((self.now.to_seconds(), self.name, "requests", amount, "available", self.res.available))
        grant = yield self.res.acquire(amount, priority=priority, preempt=preempt,
                                       on_preempt=lambda: LOG.append((self.now.to_seconds(), self.name, "PREEMPTED")))
        LOG.append((self.now.to_seconds(), self.name, "granted", amount, "available", self.res.available))
        yield self.hold
        grant.release()


res = PreemptibleResource("machine", capacity=2)
big = Worker("big-low-prio", res, 2, 1.0, False, 5.0)        # holds everything, low priority
waiter = Worker("waiter", res, 1, 0.0, False, 1.0)           # queued (does not preempt)
vip = Worker("vip", res, 1, 0.0, True, 5.0)                  # evicts 'big' (frees 2), takes 1
sim = Simulation(entities=[res, big, waiter, vip])
for t, w in ((0.0, big), (1.0, waiter), (2.0, vip)):
    sim.schedule(Event(time=Instant.from_seconds(t), event_type="go", target=w))
sim.run()
for e in LOG:
    print(e)
t_free = [e[0] for e in LOG if e[2] == "PREEMPTED"][0]
t_w = [e[0] for e in LOG if e[1] == "waiter" and e[2] == "granted"][0]
print("one unit became free at", t_free, "s; the queued waiter (needs 1) was granted at", t_w, "s")
if t_w > t_free:
    print("DEFECT: the waiter was not granted as soon as capacity allowed")
    sys.exit(1)
sys.exit(0)

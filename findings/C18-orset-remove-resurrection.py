"""ORSet.remove keeps no tombstones: a removed element comes back by merge, and replicas with the
same updates end up unequal.  Exits 1 when the defect shows.  (VERIF_REPO=<dir> selects another tree.)"""
import os
import sys

if os.environ.get("VERIF_REPO"):
    sys.path.insert(0, os.environ["VERIF_REPO"])
from happysimulator.components.crdt.or_set import ORSet

bad = 0
a, b = ORSet("ra"), ORSet("rb")
a.add("x")            # the only add of x
b.merge(a)            # rb has seen it
a.remove("x")         # the remove observed that add
a.merge(b)            # merging the older state back
print("ra after add, rb<-ra, remove, ra<-rb:", set(a.value), "(specified: empty set)")
if "x" in a:
    bad = 1

a, b = ORSet("ra"), ORSet("rb")
a.add("x"); b.merge(a); a.remove("x"); a.add("x"); b.merge(a)
print("same updates at both replicas: ra == rb ->", a == b, "(specified: True)")
if not a == b:
    bad = 1
sys.exit(bad)

"""C08 / QueueDriver notify-poll handshake: over-poll and under-poll (standalone, no harness).

A QueuedResource written exactly as /repo/CLAUDE.md documents (``_in_flight`` / ``has_capacity``):

 A. over-poll   concurrency 1, request 0 at t=1 (service 1 s), requests 1 and 2 at t=2 = the instant
                request 0 completes.  The completion hook's poll and the notify's poll are both issued
                while has_capacity() is still true, both dequeue -> 2 items in service at limit 1.
                (``Server`` in the same situation fails its acquire() and throws the dequeued request
                away, counting it in stats.requests_rejected.)
 B. under-poll  concurrency 2, idle, two requests at t=0.  The queue notifies only on empty->non-empty,
                the driver polls once per notify -> the second request waits a whole service time
                although a slot is free.

Exit status 1 when either defect shows.
"""
import sys

from happysimulator.components.queue_policy import FIFOQueue
from happysimulator.components.queued_resource import QueuedResource
from happysimulator.components.server.server import Server
from happysimulator.core.entity import Entity
from happysimulator.core.event import Event
from happysimulator.core.simulation import Simulation
from happysimulator.core.temporal import Instant
from happysimulator.distributions.constant import ConstantLatency


class Sink(Entity):
    def __init__(self):
        super().__init__("sink")
        self.log = []

    def handle_event(self, event):
        self.log.append((self.now.to_seconds(), event.context["metadata"]["tag"]))


class MyServer(QueuedResource):
    def __init__(self, name, downstream, concurrency=1):
        super().__init__(name, policy=FIFOQueue())
        self.downstream, self.concurrency, self._in_flight = downstream, concurrency, 0
        self.max_in_flight = 0
        self.starts = []

    def has_capacity(self) -> bool:
        return self._in_flight < self.concurrency

    def handle_queued_event(self, event):
        self._in_flight += 1
        self.max_in_flight = max(self.max_in_flight, self._in_flight)
        self.starts.append((self.now.to_seconds(), event.context["metadata"]["tag"]))
        try:
            yield 1.0
        finally:
            self._in_flight -= 1
        return [Event(time=self.now, event_type="Done", target=self.downstream, context=event.context)]


def reqs(target, times):
    return [Event(time=Instant.from_seconds(t), event_type="Req", target=target, context={"metadata": {"tag": i}})
            for i, t in enumerate(times)]


bad = 0

sink = Sink()
r = MyServer("r", sink, concurrency=1)
sim = Simulation(entities=[sink, r])
sim.schedule(reqs(r, [1, 2, 2]))
sim.run()
print("A. concurrency=1 arrivals t=1,2,2 service 1s: starts", r.starts, "max in flight", r.max_in_flight)
if r.max_in_flight > 1:
    print("   DEFECT: 2 requests in service at concurrency 1 (over-poll on a completion instant)")
    bad = 1

sink = Sink()
s = Server("s", concurrency=1, service_time=ConstantLatency(1.0), downstream=sink)
sim = Simulation(entities=[sink, s])
sim.schedule(reqs(s, [1, 2, 2]))
sim.run()
print("A'. Server concurrency=1 same arrivals: completed", sink.log, "accepted", s.stats_accepted,
      "requests_rejected", s.stats.requests_rejected)
if s.stats.requests_rejected or len(sink.log) != 3:
    print("   DEFECT: an accepted, queued request was thrown away after being dequeued")
    bad = 1

sink = Sink()
r = MyServer("r", sink, concurrency=2)
sim = Simulation(entities=[sink, r])
sim.schedule(reqs(r, [0, 0]))
sim.run()
print("B. concurrency=2 arrivals t=0,0 service 1s: starts", r.starts)
if [t for t, _ in r.starts] != [0.0, 0.0]:
    print("   DEFECT: second request waited although a slot was free (under-poll)")
    bad = 1

sys.exit(bad)

"""C06 defect 7: ReduceCapacity does not bring the resource back to its configured state.

(a) capacity 4, a grant of 1 is held across ReduceCapacity(0.5) [1, 3): the restore
    credits the whole delta to ``available`` although the holder kept its grant:
    available == 4 with 1 still held, and the later release() raises ValueError.
(b) overlapping windows [1, 3) and [2, 4): the deactivation at 3.0 restores the
    capacity although the second window is still active.
Exits 1 when either shows.
"""
import sys

from happysimulator.components.resource import Resource
from happysimulator.core.entity import Entity
from happysimulator.core.event import Event
from happysimulator.core.simulation import Simulation
from happysimulator.core.temporal import Instant
from happysimulator.faults import FaultSchedule, ReduceCapacity

bad = False

# (a)
res = Resource("r", 4)
notes = []


class Holder(Entity):
    grant = None

    def handle_event(self, event):
        if event.event_type == "acq":
            return self._acq()
        if event.event_type == "look":
            notes.append((self.now.to_seconds(), res.capacity, res.available))
            return None
        try:
            self.grant.release()
            notes.append("released")
        except ValueError as exc:
            notes.append(f"release raised: {exc}")

    def _acq(self):
        self.grant = yield res.acquire(1)


h = Holder("h")
fs = FaultSchedule()
fs.add(ReduceCapacity("r", 0.5, 1.0, 3.0))
sim = Simulation(entities=[res, h], fault_schedule=fs, end_time=Instant.from_seconds(6.0))
sim.schedule([Event(time=Instant.from_seconds(0.5), event_type="acq", target=h),
              Event(time=Instant.from_seconds(3.5), event_type="look", target=h),
              Event(time=Instant.from_seconds(4.5), event_type="rel", target=h)])
sim.run()
print("(a)", notes, "final capacity/available:", res.capacity, res.available)
t, cap, avail = notes[0]
if avail + 1 != cap:
    print(f"DEFECT (a): after the window available={avail} with 1 still held, capacity={cap}")
    bad = True
if any(isinstance(n, str) and n.startswith("release raised") for n in notes):
    print("DEFECT (a): releasing the grant after the window raised")
    bad = True

# (b)
res2 = Resource("r2", 4)
caps = {}


class Look(Entity):
    def handle_event(self, event):
        caps[self.now.to_seconds()] = res2.capacity


lk = Look("lk")
fs = FaultSchedule()
fs.add(ReduceCapacity("r2", 0.5, 1.0, 3.0))
fs.add(ReduceCapacity("r2", 0.5, 2.0, 4.0))
sim = Simulation(entities=[res2, lk], fault_schedule=fs, end_time=Instant.from_seconds(6.0))
sim.schedule([Event(time=Instant.from_seconds(t), event_type="look", target=lk) for t in (0.5, 1.5, 2.5, 3.5, 4.5)])
sim.run()
print("(b) capacity:", caps, "final available:", res2.available)
if caps[3.5] == 4:
    print("DEFECT (b): capacity is back to 4 at 3.5 s although the window [2, 4) is active")
    bad = True
if res2.available != 4:
    print(f"DEFECT (b): after all windows available={res2.available}, configured 4")
    bad = True
sys.exit(1 if bad else 0)

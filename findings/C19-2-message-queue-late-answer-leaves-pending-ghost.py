"""MessageQueue: a consumer answers (ack / reject) a delivery AFTER the redelivery time-out moved the message
back to the pending queue.  acknowledge()/reject() forget to take the id out of the pending queue: the message
is then accounted twice (pending AND acknowledged / dead-lettered / in flight) and, for ack and reject(no
requeue), the ghost id stays at the head of the pending queue for ever, so poll() never delivers any later
message.  Exits 1 when the defect shows.  (delivery_latency=0 so that C19-1 does not mask it.)"""
import sys

from happysimulator.components.messaging import DeadLetterQueue, MessageQueue
from happysimulator.core.entity import Entity
from happysimulator.core.event import Event
from happysimulator.core.simulation import Simulation
from happysimulator.core.temporal import Instant


class Consumer(Entity):
    def __init__(self):
        super().__init__("consumer")
        self.got = []

    def handle_event(self, event):
        self.got.append((self.now.to_seconds(), event.context["payload"].event_type, event.context["message_id"]))


class Script(Entity):
    def __init__(self, queue, consumer):
        super().__init__("script")
        self.q, self.c = queue, consumer

    def handle_event(self, event):
        q = self.q
        yield from q.publish(Event(time=self.now, event_type="first", target=self.c))
        yield 1.0, [Event(time=self.now, event_type="poll", target=q)]  # delivered to the consumer
        mid = self.c.got[0][2]
        redelivery = q.schedule_redelivery(mid)  # visibility time-out: back to pending, redelivery in 30 s
        yield 1.0, [redelivery]
        q.acknowledge(mid)  # the slow consumer finally acknowledges
        print(f"after late ack: published={q.stats.messages_published} pending={q.pending_count} "
              f"in_flight={q.in_flight_count} acknowledged={q.stats.messages_acknowledged}")
        yield from q.publish(Event(time=self.now, event_type="second", target=self.c))
        yield 1.0, [Event(time=self.now, event_type="poll", target=q)]
        yield 1.0, [Event(time=self.now, event_type="poll", target=q)]
        return None


consumer = Consumer()
queue = MessageQueue("orders", delivery_latency=0.0, dead_letter_queue=DeadLetterQueue("dlq"))
queue.subscribe(consumer)
script = Script(queue, consumer)
sim = Simulation(entities=[consumer, queue, script], end_time=Instant.from_seconds(20))
sim.schedule(Event(time=Instant.from_seconds(1), event_type="go", target=script))
sim.run()
print("consumer received:", [(t, what) for t, what, _ in consumer.got])
st = queue.stats
total = queue.pending_count + queue.in_flight_count + st.messages_acknowledged + st.messages_dead_lettered
bad = False
if total != st.messages_published:
    print(f"DEFECT: published={st.messages_published} but pending+in flight+acknowledged+dead-lettered={total}")
    bad = True
if not any(what == "second" for _, what, _ in consumer.got):
    print("DEFECT: the second message is never delivered although it is pending, a consumer is subscribed and "
          "poll was issued twice (an acknowledged id blocks the head of the pending queue)")
    bad = True
sys.exit(1 if bad else 0)

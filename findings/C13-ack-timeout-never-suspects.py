#!/venv/bin/python
"""C13 finding: a member that stops before a peer ever heard from it is reported ALIVE forever.

Standalone reproduction (library API only, no verification harness).

Three MembershipProtocol nodes, constant 10 ms links, probe interval 1 s,
suspicion timeout 2 s.  m0 is crashed by the library's own CrashNode fault at
t = 1 us, i.e. before anybody exchanged a message with it, and never restarts.
m1 and m2 ping it, get no ack, run the indirect-probe step and schedule the
suspicion timeout - but nothing ever moves m0 to SUSPECT: the only code that
suspects a member is the phi check in the probe tick, and phi is 0.0 for a
detector that never saw a heartbeat.  When the suspicion timeout fires the
member is still ALIVE, so it is not declared DEAD either.

Expected (property C13): every live member stops reporting m0 ALIVE within a
bounded number of probe rounds.  Observed: after 60 probe rounds both still
report it ALIVE.  Exit status 1 when the defect shows.
"""
import os
import random
import sys

if os.environ.get("VERIF_REPO"):
    sys.path.insert(0, os.environ["VERIF_REPO"])

from happysimulator.components.consensus.membership import MembershipProtocol, MemberState
from happysimulator.components.network.link import NetworkLink
from happysimulator.components.network.network import Network
from happysimulator.core.simulation import Simulation
from happysimulator.distributions.constant import ConstantLatency
from happysimulator.faults.node_faults import CrashNode
from happysimulator.faults.schedule import FaultSchedule

random.seed(1)
net = Network(name="net")
nodes = [MembershipProtocol(name=f"m{i}", network=net, probe_interval=1.0, suspicion_timeout=2.0,
                            phi_threshold=8.0) for i in range(3)]
for a in nodes:
    for b in nodes:
        if a is not b:
            a.add_member(b)
            net.add_link(a, b, NetworkLink(name=f"{a.name}->{b.name}", latency=ConstantLatency(0.010)))

faults = FaultSchedule()
faults.add(CrashNode("m0", at=0.000001))
sim = Simulation(duration=60.0, entities=[net, *nodes], fault_schedule=faults)
for n in nodes:
    for e in n.start():
        sim.schedule(e)
sim.run()

bad = False
for n in nodes[1:]:
    st = n.get_member_state("m0")
    print(f"after 60 probe rounds {n.name} reports m0 {st.name}; stats={n.stats}")
    if st == MemberState.ALIVE:
        bad = True
print("DEFECT: stopped member still reported ALIVE" if bad else "ok: stopped member no longer reported ALIVE")
sys.exit(1 if bad else 0)

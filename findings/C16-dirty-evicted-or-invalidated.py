"""C16 reproduction (no harness): a write-back CachedStore drops an acknowledged write when its
dirty entry is evicted, or invalidated, before flush().  Exits 1 when the defect shows."""
import sys

from happysimulator.components.datastore import CachedStore, KVStore, LRUEviction


def drain(gen):
    try:
        while True:
            next(gen)
    except StopIteration as e:
        return e.value


def scenario(how):
    backing = KVStore("db")
    backing.put_sync("a", "old")
    cache = CachedStore("c", backing, cache_capacity=1, eviction_policy=LRUEviction(), write_through=False)
    drain(cache.put("a", "new"))  # acknowledged write-back write
    if how == "evict":
        drain(cache.put("b", "x"))  # capacity 1: evicts the dirty entry 'a'
    else:
        cache.invalidate("a")
    drain(cache.flush())
    got = drain(cache.get("a"))
    print(f"{how}: put(a,new) acknowledged; after {how} + flush: backing={backing.get_sync('a')!r} get(a)={got!r}")
    return backing.get_sync("a") != "new" or got != "new"


bad = [scenario("evict"), scenario("invalidate")]
sys.exit(1 if any(bad) else 0)

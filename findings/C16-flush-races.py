"""C16 reproduction (no harness): write-back CachedStore.flush() captures the value when it starts a
write; a put() during that write loses its dirty mark (never reaches the backing store), and a faster
delete() during that write is undone when the older value lands.  Exits 1 when the defect shows."""
import sys

from happysimulator import Entity, Event, Instant, Simulation
from happysimulator.components.datastore import CachedStore, KVStore, LRUEviction


class Client(Entity):
    def __init__(self, name, fn):
        super().__init__(name)
        self.fn, self.result = fn, None

    def handle_event(self, event):
        self.result = yield from self.fn()


def run(kind):
    backing = KVStore("db", read_latency=2.0, write_latency=4.0, delete_latency=1.0)
    cache = CachedStore("c", backing, cache_capacity=2, eviction_policy=LRUEviction(),
                        cache_read_latency=1.0, write_through=False)
    first = Client("first", lambda: cache.put("a", "v1"))  # t=0, dirty
    flusher = Client("flusher", lambda: cache.flush())  # t=10, write of v1 lands t=14
    other = Client("other", (lambda: cache.put("a", "v2")) if kind == "put" else (lambda: cache.delete("a")))  # t=12
    flush2 = Client("flush2", lambda: cache.flush())  # t=30 (quiescent)
    reader = Client("reader", lambda: cache.get("a"))  # t=40 after invalidate
    sim = Simulation(entities=[backing, cache, first, flusher, other, flush2, reader])
    for t, c in ((0.0, first), (10.0, flusher), (12.0, other), (30.0, flush2)):
        sim.schedule(Event(time=Instant.from_seconds(t), event_type="go", target=c))
    sim.run()
    want = "v2" if kind == "put" else None
    print(f"flush() at t=10 overlapping {kind}(a) at t=12: after a second flush at t=30 the backing store holds "
          f"{backing.get_sync('a')!r}, dirty={cache.get_dirty_keys()}, expected {want!r}")
    return backing.get_sync("a") != want


bad = [run("put"), run("delete")]
sys.exit(1 if any(bad) else 0)

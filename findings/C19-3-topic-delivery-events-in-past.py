"""Topic.publish with a non-zero delivery latency: the per-subscriber delivery events are stamped with the
publish time but handed to the simulation only after the latency waits, so they lie in the past and are
dropped; no subscriber ever receives anything although stats.messages_delivered counts them.  Exits 1 when the
defect shows."""
import sys

from happysimulator.components.messaging import Topic
from happysimulator.core.entity import Entity
from happysimulator.core.event import Event
from happysimulator.core.simulation import Simulation
from happysimulator.core.temporal import Instant


class Sub(Entity):
    def __init__(self, name):
        super().__init__(name)
        self.got = []

    def handle_event(self, event):
        self.got.append((self.now.to_seconds(), event.event_type))


a, b = Sub("a"), Sub("b")
topic = Topic("news", delivery_latency=0.25)  # the default 0.001 behaves the same
topic.subscribe(a)
topic.subscribe(b)
sim = Simulation(entities=[a, b, topic])
note = Event(time=Instant.Epoch, event_type="note", target=a)
sim.schedule(Event(time=Instant.from_seconds(1), event_type="publish", target=topic, context={"payload": note}))
sim.run()
print("a received:", a.got, " b received:", b.got, " stats.messages_delivered =", topic.stats.messages_delivered)
if topic.stats.messages_delivered == 2 and (not a.got or not b.got):
    print("DEFECT: the topic counts 2 deliveries but the subscribers active at publish time received nothing")
    sys.exit(1)
print("ok")

"""C14: LSMTree reads miss completed writes while a memtable flush is in flight.

put('a') completes at 10 us (memtable_size=2, not full).  put('b') fills the memtable and starts
a flush whose SSTable is installed after the write latency; Memtable.flush() empties the
"immutable" memtable immediately, so a get('a') / scan issued during that latency finds the
key nowhere.  Exit 1 when the defect shows.
"""
import os, sys
if os.environ.get("VERIF_REPO"):
    sys.path.insert(0, os.environ["VERIF_REPO"])
from happysimulator.core.entity import Entity
from happysimulator.core.event import Event
from happysimulator.core.simulation import Simulation
from happysimulator.core.temporal import Instant


class Client(Entity):
    """Runs a list of steps (callables returning library generators) and logs (time, label, result)."""

    def __init__(self, name, steps, log):
        super().__init__(name)
        self.steps, self.log = steps, log

    def handle_event(self, event):
        return self._run()

    def _run(self):
        for label, mk in self.steps:
            t0 = self.now.nanoseconds
            r = yield from mk()
            self.log.append((self.name, label, t0, self.now.nanoseconds, r))


def go(sim, client, at_ns):
    sim.schedule(Event(time=Instant(at_ns), event_type="go", target=client))

from happysimulator.components.storage.lsm_tree import LSMTree, SizeTieredCompaction

log = []
lsm = LSMTree("lsm", memtable_size=2, compaction_strategy=SizeTieredCompaction(4),
              sstable_read_latency=10e-6, sstable_write_latency=20e-6)
w = Client("writer", [("put a", lambda: lsm.put("a", 1)), ("put b", lambda: lsm.put("b", 2))], log)
r = Client("reader", [("get a", lambda: lsm.get("a")), ("scan", lambda: lsm.scan("a", "z"))], log)
sim = Simulation(entities=[lsm, w, r])
go(sim, w, 0)
go(sim, r, 25_000)  # put('a') completed at 10 us; the flush started by put('b') runs 20..40 us
sim.run()
for e in log:
    print(e)
got = {lab: res for (_c, lab, _a, _b, res) in log}
bad = got["get a"] != 1 or ("a", 1) not in got["scan"]
print("DEFECT: completed write of 'a' invisible during the flush" if bad else "ok")
sys.exit(1 if bad else 0)

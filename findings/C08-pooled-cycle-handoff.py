"""C08 / PooledCycleResource hands a dequeued item back to itself as a fresh event without keeping the unit.

pool_size 1, cycle 1 s.  Requests 0,1,2 at t=0 (0 in service, 1 and 2 queued); request 3 arrives at t=1
through one zero-delay forwarder, i.e. on the completion instant, created after the cycle's continuation but
before the hand-off event of request 1.  Request 3 takes the free unit, request 1 finds none and goes to the
BACK of the queue behind request 2 (with queue_capacity=1 it is rejected instead, although it had been
accepted).  Exit 1 when it shows.
"""
import sys

from happysimulator.components.industrial.pooled_cycle import PooledCycleResource
from happysimulator.core.entity import Entity
from happysimulator.core.event import Event
from happysimulator.core.simulation import Simulation
from happysimulator.core.temporal import Instant


class Sink(Entity):
    def __init__(self):
        super().__init__("sink")
        self.log = []

    def handle_event(self, event):
        self.log.append((self.now.to_seconds(), event.context["metadata"]["tag"]))


class Fwd(Entity):
    def __init__(self, target):
        super().__init__("fwd")
        self.target = target

    def handle_event(self, event):
        return [self.forward(event, self.target)]


def run(queue_capacity, arrivals):
    sink = Sink()
    pool = PooledCycleResource("pool", pool_size=1, cycle_time=1.0, downstream=sink, queue_capacity=queue_capacity)
    fwd = Fwd(pool)
    sim = Simulation(entities=[sink, pool, fwd])
    sim.schedule([Event(time=Instant.from_seconds(t), event_type="Req", target=(fwd if hop else pool),
                        context={"metadata": {"tag": i}}) for i, (t, hop) in enumerate(arrivals)])
    sim.run()
    return pool, sink.log


bad = 0
pool, log = run(0, [(0, 0), (0, 0), (0, 0), (1, 1)])
order = [tag for _, tag in log]
print("unbounded queue: completion order", log)
if order.index(2) < order.index(1):
    print("   DEFECT: request 2 was queued behind request 1 but served first")
    bad = 1
pool, log = run(1, [(0, 0), (0, 0), (1, 1), (1, 1)])
print("queue_capacity=1: completions", log, "rejected", pool.rejected)
if 1 not in [tag for _, tag in log]:
    print("   DEFECT: request 1 had been accepted and queued, then was rejected when its turn came")
    bad = 1
sys.exit(bad)

#!/venv/bin/python
"""C15 reproduction (standalone, no harness): two overlapping compactions resurrect a deleted key.

`LSMTree._compact` merges a SNAPSHOT of the selected SSTables (and of the overlapping tables of
the target level) before its write latency and installs the result after it.  When a second
compaction starts during that latency (another writer's flush completes and the trigger is still
true) it does not see the first one's output.  If the second merge contains a tombstone and the
target is the deepest level, the tombstone is dropped - and the first compaction's output, which
still holds the deleted value, is installed underneath: the key is back.  The resurrected value is
on disk (SSTable), so it also survives crash() + recover_from_crash(), although the delete's WAL
sync had completed: "no overwritten or deleted value is resurrected" fails.

Same root cause as the C14 finding "lsm-concurrent-compaction"; the repair is
findings/C14-2-lsm-concurrent-compaction.patch (compactions run one at a time).  With that patch applied
this script exits 0 and the C15 check no longer reports `LSMTree/resurrected/live-state-already-wrong` /
`LSMTree/resurrected/returned-before-second-compaction-completed`.

Run:  /venv/bin/python C15-concurrent-compactions-resurrect-deleted-key.py    (exit 1 = defect shows)
      VERIF_REPO=<scratch tree> /venv/bin/python ...
"""
import os
import sys

if os.environ.get("VERIF_REPO"):
    sys.path.insert(0, os.environ["VERIF_REPO"])

from happysimulator import Entity, Event, Instant, Simulation
from happysimulator.components.storage import LSMTree, SizeTieredCompaction, SyncEveryWrite, WriteAheadLog


class Client(Entity):
    def __init__(self, name, lsm, ops):
        super().__init__(name)
        self.lsm, self.ops = lsm, ops

    def handle_event(self, event):
        for kind, key, value in self.ops:
            print(f"    t={self.now.to_seconds() * 1e3:.3f}ms {self.name}: {kind}({key!r}) begins")
            if kind == "put":
                yield from self.lsm.put(key, value)
            else:
                yield from self.lsm.delete(key)
            print(f"    t={self.now.to_seconds() * 1e3:.3f}ms {self.name}: {kind}({key!r}) returned "
                  f"(flushes={self.lsm.stats.memtable_flushes} compactions={self.lsm.stats.compactions})")


wal = WriteAheadLog("wal", sync_policy=SyncEveryWrite())
lsm = LSMTree("db", memtable_size=1, wal=wal, max_levels=2,
              compaction_strategy=SizeTieredCompaction(min_sstables=2))
c1 = Client("c1", lsm, [("put", "b", "B1"), ("put", "a", "A1")])   # 2nd put: flush -> 2 tables in L0 -> compaction #1
c2 = Client("c2", lsm, [("delete", "b", None)])                    # its flush lands during compaction #1 -> compaction #2
sim = Simulation(entities=[lsm, wal, c1, c2], end_time=Instant.from_seconds(1.0))
sim.schedule(Event(time=Instant.from_seconds(0.0), event_type="go", target=c1))
sim.schedule(Event(time=Instant.from_seconds(0.00316), event_type="go", target=c2))
sim.run()
live = lsm.get_sync("b")
print(f"    all calls returned; wal.synced_up_to={wal.synced_up_to} (delete b is log sequence 3); "
      f"live get_sync('b')={live!r}")
lsm.crash()
lsm.recover_from_crash()
got = lsm.get_sync("b")
print(f"    after crash()+recover_from_crash(): get_sync('b')={got!r}")
bad = wal.synced_up_to >= 3 and got is not None
print("    => DEFECT: deleted value of 'b' is back" if bad else "    => ok")
sys.exit(1 if bad else 0)

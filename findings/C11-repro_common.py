"""Tiny stand-alone driver shared by the C11 reproduction scripts (no /verif harness).

Three real RaftNode objects, a real Network (used only for Network.send) and a real Clock.
`fire(node)` delivers the node's live election timer; `deliver(type, src, dst)` hands the
oldest in-flight message of that type to the destination exactly like NetworkLink would
(same event type, same metadata dict).  Set REPO=<dir> to run against another tree.
"""
import os
import sys

sys.path.insert(0, os.environ.get("REPO", "/repo"))

from happysimulator.components.consensus.raft import RaftNode  # noqa: E402
from happysimulator.components.network.network import Network  # noqa: E402
from happysimulator.core.clock import Clock  # noqa: E402
from happysimulator.core.event import Event  # noqa: E402
from happysimulator.core.temporal import Instant  # noqa: E402


class RecSM:
    def __init__(self):
        self.applied = []

    def apply(self, command):
        self.applied.append(command)
        return ("result-of", command)

    def snapshot(self):
        return list(self.applied)

    def restore(self, s):
        self.applied = list(s)


class Cluster:
    def __init__(self, names=("A", "B", "C")):
        self.clock = Clock(Instant(0))
        self.net = Network(name="net")
        self.net.set_clock(self.clock)
        self.sm = {n: RecSM() for n in names}
        self.node = {n: RaftNode(name=n, network=self.net, state_machine=self.sm[n]) for n in names}
        for nd in self.node.values():
            nd.set_peers(list(self.node.values()))
            nd.set_clock(self.clock)
        self.flight, self.timers = [], []
        for nd in self.node.values():
            self.absorb(nd.start())

    def absorb(self, events):
        for ev in events or []:
            (self.flight if ev.target is self.net else self.timers).append(ev)

    def fire(self, name, etype="RaftElectionTimeout"):
        ev = next(t for t in self.timers if t.target is self.node[name] and t.event_type == etype and not t.cancelled)
        self.timers.remove(ev)
        self.absorb(ev.invoke())
        self.show(f"{etype[4:]} fires at {name}")

    def deliver(self, etype, src, dst, **match):
        ev = next(m for m in self.flight if m.event_type == "Raft" + etype
                  and m.context["metadata"]["source"] == src and m.context["metadata"]["destination"] == dst
                  and all(m.context["metadata"].get(k) == v for k, v in match.items()))
        self.flight.remove(ev)
        fwd = Event(time=self.clock.now, event_type=ev.event_type, target=self.node[dst], daemon=True,
                    context=ev.context.copy())
        self.absorb(fwd.invoke())
        md = {k: v for k, v in ev.context["metadata"].items() if k not in ("source", "destination")}
        self.show(f"{etype} {src}->{dst} {md}")

    def lose(self, keep=()):
        """Lose every in-flight message except those whose (type, src, dst) is listed."""
        self.flight = [m for m in self.flight if (m.event_type[4:], m.context["metadata"]["source"],
                                                  m.context["metadata"]["destination"]) in keep]

    def show(self, what):
        print(f"{what}")
        for n, nd in self.node.items():
            log = [(nd.log.get(i).term, nd.log.get(i).command) for i in range(1, nd.log.last_index + 1)]
            print(f"     {n}: {nd.state.name:9s} term={nd.current_term} log={log} commit={nd.log.commit_index} "
                  f"applied={self.sm[n].applied}")

"""C16 reproduction (no harness): a SoftTTLCache read that joins an in-flight refresh returns the cached
entry without checking its age; when the refresh finds nothing (key deleted behind the cache) the read
serves an entry older than the hard TTL.  Exits 1 when the defect shows."""
import sys

from happysimulator import Entity, Event, Instant, Simulation
from happysimulator.components.datastore import KVStore, SoftTTLCache


class Client(Entity):
    def __init__(self, name, fn):
        super().__init__(name)
        self.fn, self.result, self.at = fn, None, None

    def handle_event(self, event):
        self.result = yield from self.fn()
        self.at = self.now.to_seconds()


class Deleter(Entity):
    def __init__(self, backing):
        super().__init__("deleter")
        self.backing = backing

    def handle_event(self, event):
        self.backing.delete_sync("a")


backing = KVStore("db", read_latency=3.0, write_latency=1.0)
cache = SoftTTLCache("c", backing, soft_ttl=2.0, hard_ttl=4.0, cache_read_latency=0.5)
w = Client("w", lambda: cache.put("a", "v"))  # t=0, stored t=1
r1 = Client("r1", lambda: cache.get("a"))  # t=3: age 2 -> stale hit, background refresh reads at t=6
d = Deleter(backing)  # t=5: key disappears from the backing store
r2 = Client("r2", lambda: cache.get("a"))  # t=6: age 5 >= hard_ttl, refresh in flight -> coalesced
sim = Simulation(entities=[backing, cache, w, r1, d, r2])
for t, c in ((0.0, w), (3.0, r1), (5.0, d), (6.0, r2)):
    sim.schedule(Event(time=Instant.from_seconds(t), event_type="go", target=c))
sim.run()
print(f"entry cached at t=1 (hard_ttl=4); read issued t=6 completed t={r2.at} returned {r2.result!r}; "
      f"backing store holds {backing.get_sync('a')!r}; coalesced_requests={cache.stats.coalesced_requests}")
sys.exit(1 if r2.result is not None else 0)

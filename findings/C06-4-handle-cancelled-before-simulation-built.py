"""C06 defect 4: handle.cancel() before the Simulation is constructed does not prevent the fault.

FaultSchedule.add() returns the handle; the fault's events are only generated
inside Simulation.__init__ (FaultSchedule.start), which ignores that the handle
is already cancelled.  Exits 1 when the defect shows.
"""
import sys

from happysimulator.core.entity import Entity
from happysimulator.core.event import Event
from happysimulator.core.simulation import Simulation
from happysimulator.core.temporal import Instant
from happysimulator.faults import CrashNode, FaultSchedule

seen = []


class P(Entity):
    def handle_event(self, event):
        seen.append(self.now.to_seconds())


p = P("p")
fs = FaultSchedule()
handle = fs.add(CrashNode("p", at=1.0, restart_at=3.0))
handle.cancel()  # before activation (even before the simulation exists)
sim = Simulation(entities=[p], fault_schedule=fs, end_time=Instant.from_seconds(5.0))
sim.schedule([Event(time=Instant.from_seconds(t), event_type="ping", target=p) for t in (0.5, 1.5, 2.5, 3.5)])
sim.run()
print("cancelled:", handle.cancelled, "handled at", seen)
if seen != [0.5, 1.5, 2.5, 3.5]:
    print("DEFECT: the cancelled CrashNode still took effect")
    sys.exit(1)
print("ok")

"""C11 defect 3: a submit future is resolved by somebody else's command.

A (leader of term 1) accepts x at index 1 (future pending, keyed by index 1) but is deposed
before replicating it.  B (term 2) commits y at index 1 and replicates it: A truncates x,
stores y, applies y and pops `_pending_futures[1]` — the future of submit(x) resolves with
(1, result of y) although x was never committed.
Exit status 1 when the defect shows."""
import importlib.util
import os
import sys

spec = importlib.util.spec_from_file_location("c11common", os.path.join(os.path.dirname(__file__), "C11-repro_common.py"))
m = importlib.util.module_from_spec(spec)
spec.loader.exec_module(m)

c = m.Cluster()
c.fire("A"); c.deliver("RequestVote", "A", "B"); c.deliver("VoteResponse", "B", "A")   # A leads term 1
c.deliver("AppendEntries", "A", "B"); c.deliver("AppendEntries", "A", "C")
fx = c.node["A"].submit("x"); c.show("submit x to A")
c.fire("B"); c.deliver("RequestVote", "B", "C"); c.deliver("VoteResponse", "C", "B")   # B leads term 2
c.deliver("AppendEntries", "B", "C"); c.deliver("AppendEntriesResponse", "C", "B")
fy = c.node["B"].submit("y"); c.show("submit y to B")
c.fire("B", "RaftHeartbeat")                                                           # B sends [y] to A and C
c.deliver("AppendEntries", "B", "C"); c.deliver("AppendEntriesResponse", "C", "B")     # y on B and C: committed
c.deliver("AppendEntries", "B", "A")            # first (empty) AE from the election: A follows B
c.deliver("AppendEntries", "B", "A")            # [y] prev=0: A truncates x, stores y
c.fire("B", "RaftHeartbeat")
while any(mm.event_type == "RaftAppendEntries" and mm.context["metadata"]["destination"] == "A" for mm in c.flight):
    c.deliver("AppendEntries", "B", "A")        # leader_commit=1 reaches A: A applies y
print("future of submit(x):", fx, "   future of submit(y):", fy)
bad = fx.is_resolved
print("DEFECT: submit(x) resolved with", fx.value, "but x was never committed") if bad else print("ok: submit(x) stays unresolved")
sys.exit(1 if bad else 0)

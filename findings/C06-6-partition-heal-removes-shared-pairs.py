"""C06 defect 6: healing one partition unblocks a pair that another active partition still blocks.

NetworkPartition [a]|[b] during [1, 3) and [a]|[b, c] during [2, 4): Partition.heal()
subtracts its pairs from the network-wide set, so at 3.0 the pair (a, b) is
unblocked although the second partition lasts until 4.0.  Exits 1 when the defect shows.
"""
import sys

from happysimulator.components.network.link import NetworkLink
from happysimulator.components.network.network import Network
from happysimulator.core.entity import Entity
from happysimulator.core.event import Event
from happysimulator.core.simulation import Simulation
from happysimulator.core.temporal import Instant
from happysimulator.distributions.constant import ConstantLatency
from happysimulator.faults import FaultSchedule, NetworkPartition

seen = {}


class Node(Entity):
    def handle_event(self, event):
        return None


class Sampler(Entity):
    def handle_event(self, event):
        seen[self.now.to_seconds()] = net.is_partitioned("a", "b")


a, b, c, smp = Node("a"), Node("b"), Node("c"), Sampler("smp")
net = Network(name="net")
net.add_bidirectional_link(a, b, NetworkLink(name="ab", latency=ConstantLatency(0.125)))
net.add_bidirectional_link(a, c, NetworkLink(name="ac", latency=ConstantLatency(0.125)))
fs = FaultSchedule()
fs.add(NetworkPartition(["a"], ["b"], 1.0, 3.0))
fs.add(NetworkPartition(["a"], ["b", "c"], 2.0, 4.0))
sim = Simulation(entities=[net, a, b, c, smp], fault_schedule=fs, end_time=Instant.from_seconds(6.0))
sim.schedule([Event(time=Instant.from_seconds(t), event_type="s", target=smp) for t in (0.5, 1.5, 2.5, 3.5, 4.5)])
sim.run()
print("is_partitioned(a, b):", seen)
if seen[3.5] is False:
    print("DEFECT: a-b is not partitioned at 3.5 s although the partition [a]|[b,c] is active until 4.0")
    sys.exit(1)
print("ok")

"""C12 finding: a Multi-Paxos / Flexible Paxos candidate that has meanwhile PROMISED another node's higher
ballot still becomes leader when the quorum for its own abandoned ballot completes (`_handle_promise` only
looks the ballot NUMBER up in `_phase1_responses`), and then issues Accepts stamped with the ballot it
promised.  Acceptors cannot tell them from the real leader's Accepts: both get a quorum for slot 1.

a starts (ballot (1,a)); b receives a's Prepare; c starts (ballot (1,c)); a promises (1,c) and steps down;
b's late Promise for ballot 1 reaches a -> a "becomes leader", assigns c1 to slot 1 under ballot (1,c),
b accepts, a decides c1.  c becomes leader with a's promise (empty log), assigns c2 to slot 1, a acknowledges,
c decides c2.  Exit 1 when a and c report different commands for slot 1.
"""
import sys
from happysimulator.components.network.network import Network
from happysimulator.core.clock import Clock
from happysimulator.core.event import Event
from happysimulator.core.temporal import Instant


class Wire:
    """Hand-driven network: keeps what the nodes send, delivers one chosen message at a time
    exactly as NetworkLink would (same type, target = destination, same metadata)."""

    def __init__(self):
        self.clock = Clock(Instant.Epoch)
        self.net = Network(name="net")
        self.net.set_clock(self.clock)
        self.inflight, self.timers, self.nodes = [], [], {}

    def add(self, *nodes):
        for n in nodes:
            n.set_clock(self.clock)
            self.nodes[n.name] = n

    def absorb(self, out):
        for ev in ([out] if isinstance(out, Event) else (out or [])):
            (self.inflight if ev.target is self.net else self.timers).append(ev)

    def deliver(self, etype, src, dst, **match):
        for ev in self.inflight:
            md = ev.context["metadata"]
            if (ev.event_type, md["source"], md["destination"]) == (etype, src, dst) and \
                    all(md.get(k) == v for k, v in match.items()):
                self.inflight.remove(ev)
                print(f"  deliver {etype} {src}->{dst} { {k: v for k, v in md.items() if k not in ("source", "destination")} }")
                fwd = Event(time=self.clock.now, event_type=etype, target=self.nodes[dst], daemon=True,
                            context={"metadata": md})
                self.absorb(self.nodes[dst].handle_event(fwd))
                return
        raise SystemExit(f"script error: no in-flight {etype} {src}->{dst} {match}")

    def fire(self, etype, node):
        for ev in self.timers:
            if ev.event_type == etype and ev.target.name == node and not ev.cancelled:
                self.timers.remove(ev)
                if ev.time > self.clock.now:
                    self.clock.update(ev.time)
                print(f"  timer   {etype}@{node} t={ev.time.to_seconds()}s")
                self.absorb(ev.target.handle_event(ev))
                return
        raise SystemExit(f"script error: no timer {etype}@{node}")



from happysimulator.components.consensus.flexible_paxos import FlexiblePaxosNode
from happysimulator.components.consensus.multi_paxos import MultiPaxosNode


def scenario(cls, pre):
    print(cls.__name__)
    w = Wire()
    a, b, c = (cls(n, w.net, peers=[None, None]) for n in "abc")  # placeholder peers: quorum check at construction
    for n in (a, b, c):
        n.set_peers([a, b, c])
    w.add(a, b, c)
    a.submit({"op": "set", "key": "k", "value": "c1"})
    c.submit({"op": "set", "key": "k", "value": "c2"})
    w.absorb(a.start())
    w.deliver(pre + "Prepare", "a", "b")         # b promises (1,a); the Promise stays in flight
    w.absorb(c.start())
    w.deliver(pre + "Prepare", "c", "a")         # a promises (1,c): a is no longer a candidate
    print("  a.is_leader after promising c:", a.is_leader)
    w.deliver(pre + "Promise", "b", "a")         # stale quorum for ballot number 1 -> a "becomes leader"
    print("  a.is_leader after the late promise for its abandoned ballot:", a.is_leader)
    w.deliver(pre + "Accept", "a", "b", slot=1)  # stamped with ballot (1,c)
    w.deliver(pre + "Accepted", "b", "a")        # a decides slot 1 = c1
    w.deliver(pre + "Promise", "a", "c")         # c becomes leader (promise was sent with an empty log)
    w.deliver(pre + "Accept", "c", "a", slot=1)
    w.deliver(pre + "Accepted", "a", "c")        # c decides slot 1 = c2
    ra = a.log.get(1).command["value"] if a.log.commit_index >= 1 else None
    rc = c.log.get(1).command["value"] if c.log.commit_index >= 1 else None
    print(f"  slot 1 reported decided: a={ra!r} c={rc!r}")
    return ra is not None and rc is not None and ra != rc


bad = scenario(MultiPaxosNode, "MultiPaxos") | scenario(FlexiblePaxosNode, "FlexPaxos")
print("DEFECT: slot 1 decided twice with different commands" if bad else "ok")
sys.exit(1 if bad else 0)

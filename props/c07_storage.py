"""C07 registry: storage engines (BTree, LSMTree + Memtable + WAL + compaction strategies, TransactionManager) and
datastores (KVStore, CachedStore x eviction policies, Database, MultiTierCache, ReplicatedStore, ShardedStore,
SoftTTLCache, CacheWarmer).  All are generator APIs executed inside the harness caller's handler."""
from __future__ import annotations

from props.c07_core import Drv, P, R

from happysimulator.components.datastore import (CachedStore, CacheWarmer, ClockEviction, ConsistencyLevel,
                                                 ConsistentHashSharding, Database, FIFOEviction, HashSharding,
                                                 KVStore, LFUEviction, LRUEviction, MultiTierCache, RandomEviction,
                                                 RangeSharding, ReplicatedStore, SampledLRUEviction, ShardedStore,
                                                 SLRUEviction, SoftTTLCache, TTLEviction, TwoQueueEviction)
from happysimulator.components.storage import (BTree, FIFOCompaction, IsolationLevel, LeveledCompaction, LSMTree,
                                               Memtable, SizeTieredCompaction, SyncEveryWrite, SyncOnBatch,
                                               SyncPeriodic, TransactionManager, WriteAheadLog)


class _KVOps(Drv):
    ops = ("get", "put", "delete")

    def store(self):
        raise NotImplementedError

    def request(self, i, op):
        s = self.store()
        if op == "get":
            yield from s.get("k")
        elif op == "put":
            yield from s.put("k", i)
            yield from s.put(f"k{i}", i)
        else:
            yield from s.delete("k")
        return None


class BTreeDrv(_KVOps):
    family = "storage"
    covers = ("BTree",)
    ops = ("get", "put", "scan")

    def build(self, cfg):
        self.t = BTree("btree", order=3, page_read_latency=cfg.L / 2, page_write_latency=cfg.L)
        for k in "abcdefg":
            self.t.put_sync(k, 0)
        return [self.t]

    def store(self):
        return self.t

    def request(self, i, op):
        if op == "scan":
            yield from self.t.scan("a", "z")
            yield from self.t.delete("k")
            return None
        return (yield from super().request(i, op))


class _LSMDrv(_KVOps):
    family = "storage"
    compaction = SizeTieredCompaction
    sync = SyncEveryWrite

    def build(self, cfg):
        self.wal = WriteAheadLog("wal", sync_policy=self.sync(), write_latency=cfg.L / 4, sync_latency=cfg.L / 4)
        self.lsm = LSMTree("lsm", memtable_size=2, compaction_strategy=self.compaction(), wal=self.wal,
                           sstable_read_latency=cfg.L / 4, sstable_write_latency=cfg.L / 4, max_levels=3)
        return [self.wal, self.lsm]

    def store(self):
        return self.lsm


class LSMTreeSizeTieredDrv(_LSMDrv):
    covers = ("LSMTree", "WriteAheadLog", "SizeTieredCompaction", "SyncEveryWrite")
    compaction = staticmethod(lambda: SizeTieredCompaction(min_sstables=2))


class LSMTreeLeveledDrv(_LSMDrv):
    covers = ("LSMTree", "LeveledCompaction", "SyncOnBatch")
    compaction = staticmethod(lambda: LeveledCompaction(level_0_max=1, size_ratio=2, base_size_keys=2))
    sync = staticmethod(lambda: SyncOnBatch(batch_size=2))


class LSMTreeFifoDrv(_LSMDrv):
    covers = ("LSMTree", "FIFOCompaction", "SyncPeriodic")
    compaction = staticmethod(lambda: FIFOCompaction(max_total_sstables=2))
    sync = staticmethod(lambda: SyncPeriodic(interval_s=P(0.5)))


class MemtableDrv(_KVOps):
    family = "storage"
    covers = ("Memtable",)
    ops = ("get", "put")

    def build(self, cfg):
        self.m = Memtable("memtable", size_threshold=2, write_latency=cfg.L, read_latency=cfg.L / 2)
        return [self.m]

    def request(self, i, op):
        if op == "get":
            yield from self.m.get("k")
        else:
            full = yield from self.m.put(f"k{i}", i)
            if full:
                self.m.flush()
        return None


class WriteAheadLogDrv(Drv):
    family = "storage"
    covers = ("WriteAheadLog", "SyncOnBatch")
    ops = ("append", "truncate")

    def build(self, cfg):
        self.wal = WriteAheadLog("wal", sync_policy=SyncOnBatch(batch_size=2), write_latency=cfg.L / 2,
                                 sync_latency=cfg.L)
        return [self.wal]

    def request(self, i, op):
        if op == "append":
            yield from self.wal.append("k", i)
        else:
            seq = yield from self.wal.append("t", i)
            self.wal.truncate(seq)
        return None


class _TxDrv(Drv):
    family = "storage"
    ops = ("transfer", "read_only")
    isolation = IsolationLevel.SNAPSHOT_ISOLATION

    def build(self, cfg):
        self.kv = KVStore("kv", read_latency=cfg.L / 2, write_latency=cfg.L / 2)
        self.kv.put_sync("a", 10)
        self.kv.put_sync("b", 10)
        self.tm = TransactionManager("tm", store=self.kv, isolation=self.isolation)
        self.outcomes = []
        return [self.kv, self.tm]

    def request(self, i, op):
        tx = yield from self.tm.begin()
        a = yield from tx.read("a")
        if op == "transfer":
            b = yield from tx.read("b")
            yield from tx.write("a", (a or 0) - 1)
            yield from tx.write("b", (b or 0) + 1)
        ok = yield from tx.commit()
        self.outcomes.append(ok)
        return None


class TransactionManagerSIDrv(_TxDrv):
    covers = ("TransactionManager",)


class TransactionManagerSerializableDrv(_TxDrv):
    covers = ("TransactionManager",)
    isolation = IsolationLevel.SERIALIZABLE


class TransactionManagerReadCommittedDrv(_TxDrv):
    covers = ("TransactionManager",)
    isolation = IsolationLevel.READ_COMMITTED


# ------------------------------------------------------------------------------------------------ datastore
class KVStoreDrv(_KVOps):
    family = "datastore"
    covers = ("KVStore",)

    def build(self, cfg):
        self.kv = KVStore("kv", read_latency=cfg.L / 2, write_latency=cfg.L, capacity=2)
        return [self.kv]

    def store(self):
        return self.kv


class _CachedDrv(_KVOps):
    family = "datastore"
    write_through = True
    ops = ("get", "put")

    def eviction(self):
        return LRUEviction()

    def build(self, cfg):
        self.kv = KVStore("kv", read_latency=cfg.L, write_latency=cfg.L)
        self.kv.put_sync("k", 0)
        pol = self.eviction()
        self.cs = CachedStore("cache", backing_store=self.kv, cache_capacity=1, eviction_policy=pol,
                              cache_read_latency=cfg.L / 4, write_through=self.write_through)
        return [self.kv, self.cs]

    def store(self):
        return self.cs


class CachedStoreLRUDrv(_CachedDrv):
    covers = ("CachedStore", "LRUEviction")
    ops = ("get", "put", "delete")


class CachedStoreWriteBackDrv(_CachedDrv):
    covers = ("CachedStore", "LFUEviction")
    write_through = False
    ops = ("get", "put", "flush")

    def eviction(self):
        return LFUEviction()

    def request(self, i, op):
        if op == "flush":
            yield from self.cs.flush()
            return None
        return (yield from super().request(i, op))


class CachedStoreTTLDrv(_CachedDrv):
    covers = ("CachedStore", "TTLEviction")

    def eviction(self):
        return TTLEviction(ttl=P(0.75), clock_func=lambda: self.cs.now.to_seconds())


class CachedStoreFIFODrv(_CachedDrv):
    covers = ("CachedStore", "FIFOEviction")

    def eviction(self):
        return FIFOEviction()


class CachedStoreRandomDrv(_CachedDrv):
    covers = ("CachedStore", "RandomEviction")

    def eviction(self):
        return RandomEviction(seed=1)


class CachedStoreSLRUDrv(_CachedDrv):
    covers = ("CachedStore", "SLRUEviction")

    def eviction(self):
        return SLRUEviction(protected_ratio=0.5)


class CachedStoreSampledLRUDrv(_CachedDrv):
    covers = ("CachedStore", "SampledLRUEviction")

    def eviction(self):
        return SampledLRUEviction(sample_size=2, seed=1)


class CachedStoreClockDrv(_CachedDrv):
    covers = ("CachedStore", "ClockEviction")

    def eviction(self):
        return ClockEviction()


class CachedStoreTwoQueueDrv(_CachedDrv):
    covers = ("CachedStore", "TwoQueueEviction")

    def eviction(self):
        return TwoQueueEviction(kin_ratio=0.5)


class DatabaseDrv(Drv):
    contention = True
    """max_connections 1: a second transaction waits for the connection while the first holds it for 3 latencies."""
    family = "datastore"
    covers = ("Database",)
    ops = ("transaction", "query", "rollback")

    def build(self, cfg):
        self.db = Database("db", max_connections=1, query_latency=cfg.L, connection_latency=cfg.L / 2,
                           commit_latency=cfg.L / 2, rollback_latency=cfg.L / 2)
        self.db.create_table("t")
        return [self.db]

    def request(self, i, op):
        if op == "query":
            yield from self.db.execute("SELECT * FROM t")
            return None
        tx = yield from self.db.begin_transaction()
        yield from tx.execute("UPDATE t SET x = 1")
        if op == "rollback":
            yield from tx.rollback()
        else:
            yield from tx.commit()
        return None


class MultiTierCacheDrv(_KVOps):
    family = "datastore"
    covers = ("MultiTierCache", "CachedStore")

    def build(self, cfg):
        self.kv = KVStore("kv", read_latency=cfg.L, write_latency=cfg.L)
        self.kv.put_sync("k", 0)
        self.l1 = CachedStore("l1", backing_store=self.kv, cache_capacity=1, eviction_policy=LRUEviction(),
                              cache_read_latency=cfg.L / 8)
        self.l2 = CachedStore("l2", backing_store=self.kv, cache_capacity=2, eviction_policy=LRUEviction(),
                              cache_read_latency=cfg.L / 4)
        self.mt = MultiTierCache("mt", tiers=[self.l1, self.l2], backing_store=self.kv)
        return [self.kv, self.l1, self.l2, self.mt]

    def store(self):
        return self.mt


class _ReplicatedDrv(_KVOps):
    family = "datastore"
    rc = wc = ConsistencyLevel.QUORUM

    def build(self, cfg):
        self.reps = [KVStore(f"r{j}", read_latency=cfg.L * (j + 1) / 2, write_latency=cfg.L * (j + 1) / 2)
                     for j in range(3)]
        self.rs = ReplicatedStore("rs", replicas=self.reps, read_consistency=self.rc, write_consistency=self.wc,
                                  read_timeout=P(1.0), write_timeout=P(2.0))
        return [*self.reps, self.rs]

    def store(self):
        return self.rs


class ReplicatedStoreQuorumDrv(_ReplicatedDrv):
    covers = ("ReplicatedStore",)


class ReplicatedStoreOneAllDrv(_ReplicatedDrv):
    covers = ("ReplicatedStore",)
    rc = ConsistencyLevel.ONE
    wc = ConsistencyLevel.ALL


class _ShardedDrv(_KVOps):
    family = "datastore"
    ops = ("get", "put", "scatter")

    def strategy(self):
        return HashSharding()

    def build(self, cfg):
        self.shards = [KVStore(f"s{j}", read_latency=cfg.L, write_latency=cfg.L) for j in range(2)]
        self.ss = ShardedStore("ss", shards=self.shards, sharding_strategy=self.strategy())
        return [*self.shards, self.ss]

    def store(self):
        return self.ss

    def request(self, i, op):
        if op == "scatter":
            yield from self.ss.scatter_gather(["k", "a", "z", f"k{i}"])
            return None
        return (yield from super().request(i, op))


class ShardedStoreHashDrv(_ShardedDrv):
    covers = ("ShardedStore", "HashSharding")


class ShardedStoreRangeDrv(_ShardedDrv):
    covers = ("ShardedStore", "RangeSharding")

    def strategy(self):
        return RangeSharding(boundaries=["m"])


class ShardedStoreConsistentDrv(_ShardedDrv):
    covers = ("ShardedStore", "ConsistentHashSharding")

    def strategy(self):
        return ConsistentHashSharding(virtual_nodes=4, seed=1)


class SoftTTLCacheDrv(Drv):
    """soft TTL 0.5 s / hard TTL 1.5 s over a store with read latency L: fresh hits, stale hits with background
    refresh (the cache's own '_sttl_refresh' event), coalesced hard misses; late reads land after each TTL."""
    family = "datastore"
    covers = ("SoftTTLCache",)
    ops = ("get", "put")

    def build(self, cfg):
        self.kv = KVStore("kv", read_latency=cfg.L, write_latency=cfg.L)
        self.kv.put_sync("k", 0)
        self.c = SoftTTLCache("sttl", backing_store=self.kv, soft_ttl=P(0.5), hard_ttl=P(1.5), cache_capacity=1,
                              cache_read_latency=cfg.L / 4)
        return [self.kv, self.c]

    def request(self, i, op):
        if op == "put":
            yield from self.c.put("k", i)
            return None
        yield from self.c.get("k")
        yield P(0.75)       # now stale (soft TTL passed) -> background refresh
        yield from self.c.get("k")
        yield from self.c.get("k")
        yield P(2.0)        # now beyond the hard TTL -> blocking fetch
        yield from self.c.get("k")
        return None


class CacheWarmerDrv(Drv):
    """Warming started from inside the run (an operator / deploy hook calls start_warming() and schedules the
    returned event) and before the run (init)."""
    family = "datastore"
    covers = ("CacheWarmer",)
    ops = ("read", "warm")
    pre_run = False

    def build(self, cfg):
        self.kv = KVStore("kv", read_latency=cfg.L, write_latency=cfg.L)
        for k in ("a", "b", "k"):
            self.kv.put_sync(k, 1)
        self.cs = CachedStore("cache", backing_store=self.kv, cache_capacity=2, eviction_policy=LRUEviction(),
                              cache_read_latency=cfg.L / 4)
        self.w = CacheWarmer("warmer", cache=self.cs, keys_to_warm=["a", "b", "missing"], warmup_rate=R(4.0),
                             warmup_latency=cfg.L / 4)
        return [self.kv, self.cs, self.w]

    def init(self):
        return [self.w.start_warming()] if self.pre_run else []

    def request(self, i, op):
        if op == "warm":
            return [self.w.start_warming()]
        return self._read()

    def _read(self):
        yield from self.cs.get("a")
        return None


class CacheWarmerPreRunDrv(CacheWarmerDrv):
    ops = ("read",)
    pre_run = True


DRIVERS = [BTreeDrv, LSMTreeSizeTieredDrv, LSMTreeLeveledDrv, LSMTreeFifoDrv, MemtableDrv, WriteAheadLogDrv,
           TransactionManagerSIDrv, TransactionManagerSerializableDrv, TransactionManagerReadCommittedDrv,
           KVStoreDrv, CachedStoreLRUDrv, CachedStoreWriteBackDrv, CachedStoreTTLDrv, CachedStoreFIFODrv,
           CachedStoreRandomDrv, CachedStoreSLRUDrv, CachedStoreSampledLRUDrv, CachedStoreClockDrv,
           CachedStoreTwoQueueDrv, DatabaseDrv, MultiTierCacheDrv, ReplicatedStoreQuorumDrv,
           ReplicatedStoreOneAllDrv, ShardedStoreHashDrv, ShardedStoreRangeDrv, ShardedStoreConsistentDrv,
           SoftTTLCacheDrv, CacheWarmerDrv, CacheWarmerPreRunDrv]

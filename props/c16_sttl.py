"""C16 soft-TTL driver: ALL timelines of n accesses (get / put / invalidate, one client process
each, so accesses overlap and refreshes coalesce) on a tick grid straddling soft and hard TTL, over a
backing store whose content changes every tick (so the age of whatever is served is observable)."""
from __future__ import annotations

import itertools
import time

from mc.evidence import digest

from props.c16_common import NEG, NS, Entity, Simulation, allowed_values, run_guarded, start_event, vstr

from happysimulator.components.datastore.kv_store import KVStore
from happysimulator.components.datastore.soft_ttl_cache import SoftTTLCache

HALF = NS // 2
CACHE_LAT = 0.25
TICK_OFF = NS // 4  # the backing store is rewritten at t = 0.25, 1.25, 2.25 ... (never on an access instant)
MAX_EVENTS = 3000


class Ticker(Entity):
    """The world behind the cache: rewrites every key at t = 0.25, 1.25, 2.25 ... with a value that
    names the instant it was written; optionally deletes key 'a' at the first such instant >= del_half / 2
    and stops writing it."""

    def __init__(self, backing, keys, steps, del_half, sample):
        super().__init__("ticker")
        self.backing, self.keys, self.steps, self.del_half, self.sample = backing, keys, steps, del_half, sample

    def handle_event(self, event):
        return self._run()

    def _run(self):
        deleted = False
        for i in range(self.steps):
            half = self.now.nanoseconds // HALF
            if self.del_half is not None and half >= self.del_half and not deleted:
                self.backing.delete_sync("a")
                deleted = True
            for k in self.keys:
                if k == "a" and deleted:
                    continue
                self.backing.put_sync(k, ("t", k, half))
            self.sample()
            yield 1.0
        return None


class Access(Entity):
    """One client process = one access, driven step by step so the path taken (fresh / stale /
    blocking / coalesced) can be read off the public stats at the instant the access is issued."""

    def __init__(self, name, cache, log, sample, check):
        super().__init__(name)
        self.cache, self.log, self.sample, self.check = cache, log, sample, check
        self.done = False

    def handle_event(self, event):
        return self._run(event.context["metadata"]["ops"][0])

    def _run(self, op):
        kind, key = op[0], op[1]
        rec = {"c": self.name, "op": op, "inv": self.now.nanoseconds, "resp": None, "res": None, "path": None}
        self.log.append(rec)
        if kind == "get":
            s0 = self.cache.stats
            g = self.cache.get(key)
            try:
                y = next(g)
                s1 = self.cache.stats
                if s1.coalesced_requests > s0.coalesced_requests:
                    rec["path"] = "coalesced"
                elif s1.fresh_hits > s0.fresh_hits:
                    rec["path"] = "fresh-hit"
                elif s1.stale_hits > s0.stale_hits:
                    rec["path"] = "stale-hit"
                else:
                    rec["path"] = "blocking-fetch"
                while True:
                    sent = yield y
                    y = g.send(sent)
            except StopIteration as e:
                rec["res"] = e.value
        elif kind == "put":
            yield from self.cache.put(key, op[2])
        elif kind == "inv":
            self.cache.invalidate(key)
        rec["resp"] = self.now.nanoseconds
        self.sample()
        self.check(rec)
        self.done = True
        return None


def execute(cfg, accesses):
    """accesses: tuple of (tick, kind, key).  One complete execution."""
    soft, hard, L, W, cap, del_half = cfg["soft"], cfg["hard"], cfg["L"], cfg["W"], cfg["cap"], cfg["del_half"]
    backing = KVStore("db", read_latency=float(L), write_latency=float(W))
    cache = SoftTTLCache("sttl", backing, soft_ttl=float(soft), hard_ttl=float(hard), cache_capacity=cap,
                         cache_read_latency=CACHE_LAT)
    keys = ("a", "b")
    hist = {k: [(NEG, ("t", k, -1))] for k in keys}
    for k in keys:
        backing.put_sync(k, ("t", k, -1))
    clock = {"e": None}

    def sample():
        now = clock["e"].now.nanoseconds
        for k in keys:
            v = backing.get_sync(k)
            if v != hist[k][-1][1]:
                hist[k].append((now, v))

    cap_viol = []

    def check(rec):
        if cap is not None:
            size, held = cache.cache_size, cache.get_cached_keys()
            if size > cap or len(held) > cap:
                cap_viol.append(f"after {rec['op']} at t={rec['resp'] / NS:g}: cache_size={size} held={held} "
                                f"> capacity={cap}")

    log = []
    horizon = cfg["grid"] + 2 * L + 4
    ticker = Ticker(backing, keys, horizon, del_half, sample)
    clock["e"] = ticker
    cls = []
    sim_entities = [ticker, cache, backing]
    for i, (t, kind, key) in enumerate(accesses):
        c = Access(f"c{i}", cache, log, sample, check)
        cls.append(c)
        sim_entities.append(c)
    sim = Simulation(entities=sim_entities)
    sim.schedule(start_event(ticker, TICK_OFF, [("tick",)]))
    for i, (t, kind, key) in enumerate(accesses):
        op = (kind, key, ("p", key, i)) if kind == "put" else (kind, key)
        sim.schedule(start_event(cls[i], t * NS, [op]))
    err = None
    try:
        g = run_guarded(sim, max_events=MAX_EVENTS)
        outcome = g["outcome"]
    except Exception as exc:  # noqa: BLE001
        err = f"{type(exc).__name__}: {exc}"
        outcome = "raised"
    finished = err is None and all(c.done for c in cls)
    return {"log": log, "hist": hist, "cap_viol": cap_viol, "finished": finished, "err": err,
            "outcome": outcome, "stats": cache.stats, "hard_ns": hard * NS}


def current_in_window(hist, value, lo, hi):
    """Was ``value`` the backing store's content at some instant of [lo, hi]?  (change instants count
    for both the old and the new content)"""
    for i, (t, v) in enumerate(hist):
        if v != value:
            continue
        end = hist[i + 1][0] if i + 1 < len(hist) else 10 ** 30
        if t <= hi and end >= lo:
            return True
    return False


def judge(ex):
    """Returns list of (clause, shape, description)."""
    out = []
    if ex["cap_viol"]:
        out.append(("capacity-exceeded", "size-over-capacity", ex["cap_viol"][0]))
    if not ex["finished"]:
        return out
    log, hard = ex["log"], ex["hard_ns"]
    for key in ("a", "b"):
        hist = ex["hist"][key]
        puts = [(r["inv"], r["resp"], r["op"][2]) for r in log if r["op"][0] == "put" and r["op"][1] == key]
        deleted = any(v is None for _t, v in hist)
        ttl_done = reg_done = False
        for r in log:
            if r["op"][0] != "get" or r["op"][1] != key:
                continue
            res = r["res"]
            # soft-TTL cache never serves an entry older than its hard TTL: whatever it serves was the
            # backing store's content at some instant no further back than hard_ttl before the read
            # The age is judged when the cache read that produced the response starts: at issue for a hit
            # (which takes cache_read_latency), and no earlier than cache_read_latency before completion for
            # the longer paths (a read that waited for a fetch / an in-flight refresh decides after the wait).
            judged = max(r["inv"], r["resp"] - int(CACHE_LAT * NS))
            if res is not None and not ttl_done and not current_in_window(hist, res, judged - hard, r["resp"]):
                ttl_done = True
                when = [t for t, v in hist if v == res]
                shape = r["path"] + ("/backing-key-deleted" if deleted else "")
                out.append(("hard-ttl-exceeded", shape,
                            f"get({key}) issued t={r['inv'] / NS:g} (path {r['path']}) completed t={r['resp'] / NS:g} "
                            f"served {res}, which the backing store last held at "
                            f"t<={(max(_end(hist, res)) / NS) if when else '?'} — more than hard_ttl={hard / NS:g} "
                            f"before t={judged / NS:g}, the latest instant at which the cache read behind this "
                            f"response can have started"))
            # read after a completed write through the cache returns that value or a later one
            done_puts = [p for p in puts if p[1] is not None and p[1] < r["inv"]]
            if done_puts and not reg_done:
                live = allowed_values(puts, r["inv"], r["resp"])
                tstar = min(p[0] for p in puts if p[2] in live)
                later = [v for t, v in hist if t >= tstar]
                if res not in live and res not in later:
                    reg_done = True
                    out.append(("stale-read", r["path"],
                                f"get({key}) issued t={r['inv'] / NS:g} (path {r['path']}) returned {res} after "
                                f"put(s) {[p[2] for p in done_puts]} had completed; neither such a value nor a later one"))
    return out


def _end(hist, value):
    ends = []
    for i, (t, v) in enumerate(hist):
        if v == value:
            ends.append(hist[i + 1][0] if i + 1 < len(hist) else t)
    return ends or [0]


def fingerprint(clause, shape):
    return f"SoftTTLCache/{clause}/{shape}"


def timelines(n, grid, alphabet):
    for times in itertools.combinations_with_replacement(range(grid + 1), n):
        for kinds in itertools.product(alphabet, repeat=n):
            yield tuple((t, k[0], k[1]) for t, k in zip(times, kinds))


def sttl_job(job):
    cfg, first_kind = job
    t0 = time.time()
    stats = {"cfg": cfg, "executions": 0, "transitions": 0, "nontrivial": 0, "outcomes": set(), "viol": {},
             "samples": [], "unfinished": 0, "paths": {},
             "reads_issued_exactly_at_store_completion_plus_hard_ttl": 0,
             "reads_issued_exactly_at_store_completion_plus_soft_ttl": 0}
    alphabet = [tuple(a) for a in cfg["alphabet"]]
    for acc in timelines(cfg["n"], cfg["grid"], alphabet):
        if (acc[0][1], acc[0][2]) != tuple(first_kind):
            continue
        ex = execute(cfg, acc)
        stats["executions"] += 1
        stats["transitions"] += len(ex["log"])
        if not ex["finished"]:
            stats["unfinished"] += 1
        st = ex["stats"]
        if st.coalesced_requests or st.stale_hits or st.evictions:
            stats["nontrivial"] += 1
        for r in ex["log"]:
            if r["path"]:
                stats["paths"][r["path"]] = stats["paths"].get(r["path"], 0) + 1
        # boundary coverage: reads issued exactly soft_ttl / hard_ttl after an entry was stored (completion
        # of a put, of a blocking fetch that found a value, or of the refresh a stale hit started)
        stored = {}
        for r in ex["log"]:
            k = r["op"][1]
            if r["resp"] is None:
                continue
            if r["op"][0] == "put" or (r["op"][0] == "get" and r["path"] == "blocking-fetch" and r["res"] is not None):
                stored.setdefault(k, set()).add(r["resp"])
            elif r["op"][0] == "get" and r["path"] == "stale-hit":
                stored.setdefault(k, set()).add(r["inv"] + cfg["L"] * NS)
        for r in ex["log"]:
            if r["op"][0] == "get":
                for s_ in stored.get(r["op"][1], ()):
                    if r["inv"] - s_ == cfg["hard"] * NS and r["inv"] > s_ - 1:
                        stats["reads_issued_exactly_at_store_completion_plus_hard_ttl"] += 1
                    if r["inv"] - s_ == cfg["soft"] * NS:
                        stats["reads_issued_exactly_at_store_completion_plus_soft_ttl"] += 1
        stats["outcomes"].add(digest([(r["op"], r["res"], r["resp"], r["path"]) for r in ex["log"]]))
        for clause, shape, desc in judge(ex):
            fp = fingerprint(clause, shape)
            if fp not in stats["viol"]:
                stats["viol"][fp] = (f"SoftTTLCache(soft={cfg['soft']},hard={cfg['hard']},read_latency={cfg['L']},"
                                     f"cap={cfg['cap']},backing delete of 'a' at t="
                                     f"{None if cfg['del_half'] is None else -(-cfg['del_half'] // 2) + 0.25}) accesses={acc}: {desc}",
                                     {"driver": "sttl", "cfg": cfg, "accesses": acc})
        if not stats["samples"] and stats["executions"] % 503 == 11:
            stats["samples"].append({"cfg": cfg, "accesses": acc,
                                     "results": [(r["op"][:2], r["path"], str(r["res"])) for r in ex["log"]]})
    stats["outcomes"] = len(stats["outcomes"])
    stats["wall"] = time.time() - t0
    return stats


def replay_sttl(rep):
    cfg = rep["cfg"]
    acc = tuple(tuple(a) for a in rep["accesses"])
    ex = execute(cfg, acc)
    print(f"driver=sttl cfg={cfg}")
    print(f"  accesses (tick, kind, key): {acc}")
    for r in ex["log"]:
        print(f"  {r['c']}: {r['op'][0]}({r['op'][1]}) issued t={r['inv'] / NS:<4g} path={r['path']} completed "
              f"t={'-' if r['resp'] is None else format(r['resp'] / NS, 'g')} -> {r['res']}")
    for k, h in ex["hist"].items():
        print(f"  backing history {k}: " + ", ".join(f"t={'-inf' if t == NEG else format(t / NS, 'g')}:{v}" for t, v in h[:14]))
    print(f"  stats: {ex['stats']}")
    found = []
    for clause, shape, desc in judge(ex):
        fp = fingerprint(clause, shape)
        print(f"    !! {fp}: {desc}")
        found.append(fp)
    return found

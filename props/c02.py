"""C02 — generator processes and futures resume at the right instant, value, and once.

Engine E3 (program enumeration on the real ``Simulation``).  A *program* is
1-2 abstract *process scripts* + a resolver schedule + pre-resolved futures +
the creation order of the pre-run events + the loop mode.  Every program inside
the stated bounds is executed on the real library; the harness-written
generators log what they observe (``self.now`` and the value received at every
resume, every ``resolve`` call in execution order, every delivery at the sink
and every completion-hook call).

Two oracles, both in integer nanoseconds:

* ``trace_oracle`` — the clauses of the statement evaluated on one log.  Ties
  inside one instant are taken from the *observed* execution order (the order in
  which the resolve calls were actually performed), so a change of the engine's
  same-instant ordering (C01's subject) cannot raise an alarm here.  Only this
  oracle produces violations.
* ``Ref`` — an independent reference interpreter of the documented semantics
  (delay d -> int(d*1e9) ns, (time, creation) order, first resolve wins, any_of =
  first input in resolution order, all_of = argument order).  Its complete log
  is compared with the real one; the reference log itself must pass
  ``trace_oracle`` (self-test of the checker); a difference that no clause of
  the statement explains is counted as ``order_divergence`` in the evidence and
  is *not* a violation.
"""
from __future__ import annotations

import hashlib
import heapq
import itertools
import signal
import time
from collections import defaultdict

from mc.evidence import Run
from mc.harness import Entity, Event, Instant, Simulation, pmap, rotate, run_guarded

from happysimulator.core.sim_future import SimFuture, all_of, any_of

PID = "C02"
NS = 1_000_000_000
NF = 3  # base futures f0..f2
END_NS = 10 ** 17  # explicit end_time for the fast loop: beyond every reachable instant
MAX_LOG = 600  # horizon: handler activations per execution
D0, DSUB, D1, DHALF, DBIG = 0.0, 1e-10, 1e-9, 0.5, 1e6


def dns(d) -> int:
    """Documented conversion of a yielded delay (seconds) to nanoseconds."""
    return int(d * NS)


def norm(v):
    """Received values are compared structurally (tuple/list both accepted) and by type for bool vs int
    (idempotent: norm(norm(v)) == norm(v))."""
    if isinstance(v, bool):
        return "<True>" if v else "<False>"
    if isinstance(v, (list, tuple)):
        return tuple(norm(x) for x in v)
    return v


# value codes of the resolve-value alphabet (falsy values; no code = a unique truthy token)
def value(default_tok, code=None):
    if code is None:
        return default_tok
    return {"z": 0, "F": False, "s": "", "l": [], "N": None}[code]


def hook_cfg(hooks):
    """-> (names registered before scheduling, names attached later, attach time, how, label)"""
    if hooks == "none":
        return (), (), None, None, "none"
    if isinstance(hooks, str):
        return ("count", "event"), (), None, None, hooks
    kind, t, how = hooks
    if kind == "late":
        return (), ("count", "event"), t, how, f"late-{how}"
    return ("count",), ("event",), t, how, f"mixed-{how}"


def thaw(x):
    return tuple(thaw(i) for i in x) if isinstance(x, (list, tuple)) else x


# ---------------------------------------------------------------------------
# script language
# ---------------------------------------------------------------------------
# step tuples:
#   ('delay', d)                 yield d
#   ('delayw', d, emit)          yield (d, <side effects>), emit in EMIT forms
#   ('delayo', d, edit)          yield (d, outbox): the process keeps ONE list object and yields it on every such
#                                step; before the yield the list is edited in place: 'keep' untouched (initially
#                                the shared empty list) | 'clear' | 'append' one new event at now | 'replace'
#                                (remove() the process's earlier events one by one, append one new event)
#   retform 'box'                the generator returns that same list object (own events removed, one return
#                                event appended);  hooks 'box': the event hook returns that list object likewise
#   ('await', expr, build)       yield <future>; expr = ('f', i) | ('any', e, e[, e]) | ('all', e, e[, e])
#                                build = 'late' (combinator built at the yield) | 'pre' (built before run())
#   ('sub', (steps...))          yield from <sub generator>
#   ('resolve', i)               futures[i].resolve(token)   (no yield)
# a process = (start_ns, style, hooks, steps, retform)
#   style  'entity' (Entity.handle_event returns the generator) | 'once' (Event.once -> CallbackEntity)
#   hooks  'none' | 'ctor' (Event(on_complete=[...])) | 'add' (add_completion_hook before scheduling)
#          ('late', t_ns, how)  no hook at start; at t_ns another entity attaches both hooks to the starting
#                               event (how = 'add': add_completion_hook | 'append': on_complete.append)
#          ('mixed', t_ns, how) count hook present at start, event hook attached at t_ns by another entity
#   retform 'none' | 'one' (bare Event at now) | 'two' ([now, now+1ns]) | 'empty' ([])
# emit forms: 'one' bare Event at now | 'two' [now, now] | 'later' [now+1ns] | 'none' (None)
#             ('res', i, dt) [resolver event for future i at now+dt]
# program = (procs, res, pre, order, mode)
#   res    ((t_ns, fut[, code]), ...) resolver actions, time non-decreasing; order = creation order on ties;
#          code selects a falsy value (z: 0, F: False, s: '', l: [], N: None), default a unique token
#   pre    futures resolved before run(): fut or (fut, code)
#   ('resolve', i[, code]) likewise
#   order  'P' process start events created first | 'R' resolver events created first
#   mode   'auto' (no end_time: instrumented loop) | 'end' (explicit end_time: fast loop) | 'ctl' (control attached)


def form_of(st):
    k = st[0]
    if k == "await":
        return "await-" + expr_kind(st[1])
    if k in ("delay", "delayw", "delayo") and isinstance(st[1], int):
        return k + "/int"  # delay given as a Python int (whole seconds) rather than a float
    return k


def expr_kind(e):
    if e[0] == "f":
        return "base"
    nested = any(x[0] != "f" for x in e[1:])
    return e[0] + ("-nested" if nested else "")


def expr_bases(e):
    if e[0] == "f":
        return [e[1]]
    out = []
    for x in e[1:]:
        out += expr_bases(x)
    return out


class Horizon(Exception):
    pass


class Hang(Exception):
    pass


def _alarm(_sig, _frm):
    raise Hang()


WATCHDOG_CPU_S = 30.0  # CPU seconds (ITIMER_VIRTUAL: immune to machine load / wall-clock jumps)
_watchdog_installed = False


def _watchdog(on):
    """Checker safety net for a livelock that never enters a harness handler.  Measured in CPU time of
    this process, five orders of magnitude above the cost of one execution (~150 us)."""
    global _watchdog_installed
    if not _watchdog_installed:
        signal.signal(signal.SIGVTALRM, _alarm)
        _watchdog_installed = True
    signal.setitimer(signal.ITIMER_VIRTUAL, WATCHDOG_CPU_S if on else 0.0)


# ---------------------------------------------------------------------------
# real execution
# ---------------------------------------------------------------------------
class ProcEntity(Entity):
    def __init__(self, name, ctx):
        super().__init__(name)
        self.ctx = ctx

    def handle_event(self, event):
        return self.ctx.start_proc(event.context["metadata"]["p"])


class Sink(Entity):
    def __init__(self, name, ctx):
        super().__init__(name)
        self.ctx = ctx

    def handle_event(self, event):
        self.ctx.emit(("deliver", event.context["metadata"]["eid"], self.now.nanoseconds))
        return None


class Resolver(Entity):
    def __init__(self, name, ctx):
        super().__init__(name)
        self.ctx = ctx

    def handle_event(self, event):
        md = event.context["metadata"]
        c = self.ctx
        now = self.now.nanoseconds
        c.emit(("deliver", md["eid"], now))
        c.emit(("resolve", md["who"], md["fut"], now, norm(md["tok"])))
        c.futs[md["fut"]].resolve(md["tok"])
        return None


class Hooker(Entity):
    """Another entity that attaches completion hooks to a process's starting event while it is in flight."""

    def __init__(self, name, ctx):
        super().__init__(name)
        self.ctx = ctx

    def handle_event(self, event):
        md = event.context["metadata"]
        c = self.ctx
        p = md["p"]
        now = self.now.nanoseconds
        c.emit(("deliver", md["eid"], now))
        _pre, late, _t, how, _lbl = hook_cfg(c.prog[0][p][2])
        hooks = dict(zip(("count", "event"), c.hooks_for(p)))
        ev = c.start_events[p]
        for name in late:
            c.emit(("attach", p, name, now))
            if how == "add":
                ev.add_completion_hook(hooks[name])
            else:
                ev.on_complete.append(hooks[name])
        return None


class RealCtx:
    def __init__(self, prog):
        self.prog = prog
        self.start_events = {}
        self.hooker = Hooker("H", self)
        self.box = defaultdict(list)  # p -> the one outbox list object of the process
        self.own = defaultdict(list)  # p -> [(eid, Event)] harness events currently in the outbox
        self.yielded = set()
        self.log = []
        self.futs = [SimFuture() for _ in range(NF)]
        self.prebuilt = {}
        self.sink = Sink("S", self)
        self.resolver = Resolver("R", self)
        self.pents = [ProcEntity(f"P{p}", self) for p in range(len(prog[0]))]

    # -- logging / horizon
    def emit(self, rec):
        self.log.append(rec)
        if len(self.log) > MAX_LOG:
            raise Horizon()

    def now(self):
        return self.sink.now.nanoseconds

    # -- futures
    def build(self, e):
        if e[0] == "f":
            return self.futs[e[1]]
        subs = [self.build(x) for x in e[1:]]
        return any_of(*subs) if e[0] == "any" else all_of(*subs)

    def prebuild(self, p, steps, path):
        for i, st in enumerate(steps):
            pth = path + (i,)
            if st[0] == "await" and st[2] == "pre":
                self.prebuilt[(p, pth)] = self.build(st[1])
            elif st[0] == "sub":
                self.prebuild(p, st[1], pth)

    # -- events made by the harness
    def mk(self, eid, t_ns, target, md=None):
        m = {"eid": eid}
        if md:
            m.update(md)
        self.emit(("create", eid, t_ns))
        return Event(time=Instant(t_ns), event_type="x", target=target, context={"metadata": m})

    def make_emit(self, p, pth, form, now):
        if form == "none":
            return None
        if form == "one":
            return self.mk(("se", p, pth, 0), now, self.sink)
        if form == "two":
            return [self.mk(("se", p, pth, 0), now, self.sink), self.mk(("se", p, pth, 1), now, self.sink)]
        if form == "later":
            return [self.mk(("se", p, pth, 0), now + 1, self.sink)]
        if form[0] == "res":
            return [self.mk(("se", p, pth, 0), now + form[2], self.resolver,
                            {"who": ("e", p, pth), "fut": form[1], "tok": ("e", p, pth)})]
        raise AssertionError(form)

    def make_return(self, p, form, now):
        if form == "none":
            return None
        if form == "empty":
            return []
        if form == "one":
            return self.mk(("ret", p, 0), now, self.sink)
        if form == "two":
            return [self.mk(("ret", p, 0), now, self.sink), self.mk(("ret", p, 1), now + 1, self.sink)]
        if form == "box":
            return self.reuse_box(p, self.mk(("ret", p, 0), now, self.sink))
        raise AssertionError(form)

    def reuse_box(self, p, ev):
        """The same list object the process yielded earlier, now holding only ``ev``."""
        box = self.box[p]
        for _eid, old in self.own[p]:
            box.remove(old)
        self.own[p].clear()
        box.append(ev)
        return box

    # -- hooks
    def hooks_for(self, p):
        def count_hook(t):
            self.emit(("hook", p, "count", self.now(), t.nanoseconds))
            return None

        def event_hook(t):
            self.emit(("hook", p, "event", self.now(), t.nanoseconds))
            ev = self.mk(("hk", p), t.nanoseconds, self.sink)
            return self.reuse_box(p, ev) if self.prog[0][p][2] == "box" else ev

        return [count_hook, event_hook]

    # -- processes
    def start_proc(self, p):
        (_st, _style, _hooks, steps, ret) = self.prog[0][p]
        return self.run_steps(p, steps, (), True, ret)

    def run_steps(self, p, steps, path, top, retform=None):
        if top:
            self.emit(("start", p, self.now()))
        for i, st in enumerate(steps):
            pth = path + (i,)
            k = st[0]
            if k == "delay":
                self.emit(("yield", p, pth, self.now(), st))
                v = yield st[1]
                self.emit(("resume", p, pth, self.now(), norm(v)))
            elif k == "delayw":
                now = self.now()
                evs = self.make_emit(p, pth, st[2], now)
                self.emit(("yield", p, pth, now, st))
                v = yield (st[1], evs)
                self.emit(("resume", p, pth, self.now(), norm(v)))
            elif k == "delayo":
                now = self.now()
                box, own, edit = self.box[p], self.own[p], st[2]
                if edit == "clear":
                    box.clear()
                    own.clear()
                elif edit == "replace":
                    for _eid, old in own:
                        box.remove(old)
                    own.clear()
                if edit in ("append", "replace"):
                    eid = ("se", p, pth, 0)
                    ev = self.mk(eid, now, self.sink)
                    box.append(ev)
                    own.append((eid, ev))
                for eid, _ev in own:
                    if eid in self.yielded:
                        self.emit(("reyield", eid, now))
                    self.yielded.add(eid)
                self.emit(("yield", p, pth, now, st))
                v = yield (st[1], box)
                self.emit(("resume", p, pth, self.now(), norm(v)))
            elif k == "await":
                fut = self.build(st[1]) if st[2] == "late" else self.prebuilt[(p, pth)]
                self.emit(("yield", p, pth, self.now(), st))
                v = yield fut
                self.emit(("resume", p, pth, self.now(), norm(v)))
            elif k == "sub":
                yield from self.run_steps(p, st[1], pth, False)
            elif k == "resolve":
                tok = value(("p", p, pth), st[2] if len(st) > 2 else None)
                self.emit(("resolve", ("p", p), st[1], self.now(), norm(tok)))
                self.futs[st[1]].resolve(tok)
            else:
                raise AssertionError(st)
        if not top:
            return ("subret", path)
        now = self.now()
        self.emit(("finish", p, now))
        return self.make_return(p, retform, now)


def run_real(prog, watchdog=True):
    """Execute one program on the real library; returns the log (list of tuples)."""
    procs, res, pre, order, mode = prog
    c = RealCtx(prog)
    ents = c.pents + [c.resolver, c.sink, c.hooker]
    kw = {}
    if mode == "end":
        kw["end_time"] = Instant(END_NS)
    sim = Simulation(entities=ents, **kw)
    for p, pr in enumerate(procs):
        c.prebuild(p, pr[3], ())
    for fe in pre:
        f, code = fe if isinstance(fe, tuple) else (fe, None)
        tok = value(("pre", f), code)
        c.log.append(("resolve", "pre", f, -1, norm(tok)))
        c.futs[f].resolve(tok)

    def mk_starts():
        out = []
        for p, (st_ns, style, hooks, _steps, _ret) in enumerate(procs):
            pre_names, _late, _t, _how, _lbl = hook_cfg(hooks)
            hk = c.hooks_for(p)[:len(pre_names)]
            if style == "once":
                ev = Event.once(Instant(st_ns), "start", (lambda e, p=p: c.start_proc(p)),
                                context={"metadata": {"p": p}})
                for h in hk:
                    ev.add_completion_hook(h)
            elif hooks == "ctor" or (hk and not isinstance(hooks, str)):
                ev = Event(time=Instant(st_ns), event_type="start", target=c.pents[p], on_complete=hk,
                           context={"metadata": {"p": p}})
            else:
                ev = Event(time=Instant(st_ns), event_type="start", target=c.pents[p],
                           context={"metadata": {"p": p}})
                for h in hk:
                    ev.add_completion_hook(h)
            c.start_events[p] = ev
            out.append(ev)
        return out

    def mk_res():
        return [c.mk(("ra", k), a[0], c.resolver,
                     {"who": ("r", k), "fut": a[1], "tok": value(("r", k), a[2] if len(a) > 2 else None)})
                for k, a in enumerate(res)]

    def mk_attach():
        out = []
        for p, pr in enumerate(procs):
            t_att = hook_cfg(pr[2])[2]
            if t_att is not None:
                out.append(c.mk(("ha", p), t_att, c.hooker, {"p": p}))
        return out

    if order == "P":
        evs = mk_starts() + mk_res()
    else:
        evs = mk_res()
        evs = evs + mk_starts()
    evs = evs + mk_attach()
    sim.schedule(evs)
    if watchdog:
        _watchdog(True)
    try:
        if mode == "ctl":
            r = run_guarded(sim, max_events=MAX_LOG, storm=MAX_LOG)
            if r["outcome"] != "done":
                c.log.append(("horizon", r["outcome"]))
        else:
            sim.run()
    except Horizon:
        c.log.append(("horizon", "handler-activations"))
    except Hang:
        c.log.append(("horizon", "cpu-watchdog"))
    except Exception as exc:  # noqa: BLE001  (an exception escaping run() is an observed outcome)
        c.log.append(("exception", type(exc).__name__, str(exc)[:200]))
    finally:
        if watchdog:
            _watchdog(False)
    return c.log


# ---------------------------------------------------------------------------
# reference interpreter (documented semantics, integer nanoseconds)
# ---------------------------------------------------------------------------
class RFut:
    __slots__ = ("resolved", "value", "rank", "waiter", "deps", "kind", "vals", "remaining")

    def __init__(self, kind="base", n=0):
        self.resolved = False
        self.value = None
        self.rank = None
        self.waiter = None
        self.deps = []  # (composite, index)
        self.kind = kind
        self.vals = [None] * n
        self.remaining = n


class Ref:
    def __init__(self, prog):
        self.prog = prog
        self.log = []
        self.q = []
        self.seq = 0
        self.now = -1
        self.rank = 0
        self.base = [RFut() for _ in range(NF)]
        self.prebuilt = {}
        self.ps = {}
        self.hooks = {}  # p -> hook names currently registered on the starting event
        self.finished = set()
        self.own = defaultdict(list)  # p -> [(eid, time)] events currently in the process's outbox
        self.eseq = {}  # eid -> creation index
        self.yielded = set()

    # -- queue: (time, creation index)
    def push(self, t, item):
        heapq.heappush(self.q, (t, self.seq, item))
        self.seq += 1

    # -- futures
    def settle(self, f, value, rank):
        f.resolved = True
        f.value = value
        f.rank = rank
        if f.waiter is not None:
            p, pth = f.waiter
            f.waiter = None
            self.push(self.now, ("cont", p, pth, value))
        for comp, idx in f.deps:
            self.notify(comp, idx, f)

    def notify(self, comp, idx, f):
        if comp.resolved:
            return
        if comp.kind == "any":
            self.settle(comp, (idx, f.value), f.rank)
        else:
            comp.vals[idx] = f.value
            comp.remaining -= 1
            if comp.remaining == 0:
                self.settle(comp, tuple(comp.vals), f.rank)

    def resolve_base(self, i, tok):
        f = self.base[i]
        if f.resolved:
            return  # resolving twice has no further effect
        self.rank += 1
        self.settle(f, tok, self.rank)

    def build(self, e):
        if e[0] == "f":
            return self.base[e[1]]
        subs = [self.build(x) for x in e[1:]]
        comp = RFut(e[0], len(subs))
        done = [(s.rank, i) for i, s in enumerate(subs) if s.resolved]
        if e[0] == "any" and done:
            rank, i = min(done)  # the first input to resolve
            self.settle(comp, (i, subs[i].value), rank)
        elif e[0] == "all" and len(done) == len(subs):
            self.settle(comp, tuple(s.value for s in subs), max(done)[0])
        else:
            for i, s in enumerate(subs):
                if s.resolved:
                    comp.vals[i] = s.value
                    comp.remaining -= 1
                else:
                    s.deps.append((comp, i))
        return comp

    def prebuild(self, p, steps, path):
        for i, st in enumerate(steps):
            pth = path + (i,)
            if st[0] == "await" and st[2] == "pre":
                self.prebuilt[(p, pth)] = self.build(st[1])
            elif st[0] == "sub":
                self.prebuild(p, st[1], pth)

    # -- events
    def mk(self, eid, t, item):
        self.log.append(("create", eid, t))
        self.push(t, item)

    def emit_side(self, p, pth, form):
        now = self.now
        if form == "none":
            return
        if form == "one":
            self.mk(("se", p, pth, 0), now, ("sink", ("se", p, pth, 0)))
        elif form == "two":
            self.mk(("se", p, pth, 0), now, ("sink", ("se", p, pth, 0)))
            self.mk(("se", p, pth, 1), now, ("sink", ("se", p, pth, 1)))
        elif form == "later":
            self.mk(("se", p, pth, 0), now + 1, ("sink", ("se", p, pth, 0)))
        elif form[0] == "res":
            self.mk(("se", p, pth, 0), now + form[2],
                    ("res", ("se", p, pth, 0), ("e", p, pth), form[1], ("e", p, pth)))
        else:
            raise AssertionError(form)

    # -- processes
    def advance(self, p):
        S = self.ps[p]
        while True:
            steps, i, path = S[-1]
            if i >= len(steps):
                if len(S) == 1:
                    self.finish(p)
                    return
                S.pop()
                S[-1][1] += 1
                continue
            st = steps[i]
            pth = path + (i,)
            k = st[0]
            if k == "delay":
                self.log.append(("yield", p, pth, self.now, st))
                self.push(self.now + dns(st[1]), ("cont", p, pth, None))
                return
            if k == "delayw":
                self.emit_side(p, pth, st[2])
                self.log.append(("yield", p, pth, self.now, st))
                self.push(self.now + dns(st[1]), ("cont", p, pth, None))
                return
            if k == "delayo":
                own, edit = self.own[p], st[2]
                if edit in ("clear", "replace"):
                    own.clear()
                if edit in ("append", "replace"):
                    eid = ("se", p, pth, 0)
                    self.log.append(("create", eid, self.now))
                    self.eseq[eid] = self.seq
                    self.seq += 1
                    own.append((eid, self.now))
                for eid, t in own:
                    # every event in the yielded list is scheduled at the moment of the yield; an event object
                    # yielded again keeps its creation index (and is skipped by the engine if already past)
                    if eid in self.yielded:
                        self.log.append(("reyield", eid, self.now))
                    self.yielded.add(eid)
                    heapq.heappush(self.q, (t, self.eseq[eid], ("sink", eid)))
                self.log.append(("yield", p, pth, self.now, st))
                self.push(self.now + dns(st[1]), ("cont", p, pth, None))
                return
            if k == "await":
                f = self.build(st[1]) if st[2] == "late" else self.prebuilt[(p, pth)]
                self.log.append(("yield", p, pth, self.now, st))
                if f.resolved:
                    self.push(self.now, ("cont", p, pth, f.value))  # at once
                else:
                    f.waiter = (p, pth)
                return
            if k == "sub":
                S.append([st[1], 0, pth])
                continue
            if k == "resolve":
                tok = norm(value(("p", p, pth), st[2] if len(st) > 2 else None))
                self.log.append(("resolve", ("p", p), st[1], self.now, tok))
                self.resolve_base(st[1], tok)
                S[-1][1] += 1
                continue
            raise AssertionError(st)

    def finish(self, p):
        now = self.now
        (_st, _style, _hooks, _steps, ret) = self.prog[0][p]
        self.log.append(("finish", p, now))
        self.finished.add(p)
        if ret in ("one", "box"):
            self.mk(("ret", p, 0), now, ("sink", ("ret", p, 0)))
        elif ret == "two":
            self.mk(("ret", p, 0), now, ("sink", ("ret", p, 0)))
            self.mk(("ret", p, 1), now + 1, ("sink", ("ret", p, 1)))
        for name in self.hooks[p]:  # every hook attached before the finish, once, at the finishing instant
            self.log.append(("hook", p, name, now, now))
            if name == "event":
                self.mk(("hk", p), now, ("sink", ("hk", p)))

    def run(self):
        procs, res, pre, order, _mode = self.prog
        for p, pr in enumerate(procs):
            self.prebuild(p, pr[3], ())
        for fe in pre:
            f, code = fe if isinstance(fe, tuple) else (fe, None)
            tok = norm(value(("pre", f), code))
            self.log.append(("resolve", "pre", f, -1, tok))
            self.resolve_base(f, tok)
        for p, pr in enumerate(procs):
            self.hooks[p] = list(hook_cfg(pr[2])[0])

        def starts():
            for p, pr in enumerate(procs):
                self.push(pr[0], ("start", p))

        def ress():
            for k, a in enumerate(res):
                tok = norm(value(("r", k), a[2] if len(a) > 2 else None))
                self.mk(("ra", k), a[0], ("res", ("ra", k), ("r", k), a[1], tok))

        if order == "P":
            starts()
            ress()
        else:
            ress()
            starts()
        for p, pr in enumerate(procs):
            t_att = hook_cfg(pr[2])[2]
            if t_att is not None:
                self.mk(("ha", p), t_att, ("attach", ("ha", p), p))
        while self.q:
            t, _seq, item = heapq.heappop(self.q)
            if t < self.now:
                continue  # an event already in the past when it was scheduled is not live (C01)
            self.now = t
            kind = item[0]
            if kind == "start":
                p = item[1]
                self.ps[p] = [[procs[p][3], 0, ()]]
                self.log.append(("start", p, t))
                self.advance(p)
            elif kind == "cont":
                _, p, pth, v = item
                self.log.append(("resume", p, pth, t, norm(v)))
                self.ps[p][-1][1] += 1
                self.advance(p)
            elif kind == "sink":
                self.log.append(("deliver", item[1], t))
            elif kind == "attach":
                _, eid, p = item
                self.log.append(("deliver", eid, t))
                for name in hook_cfg(procs[p][2])[1]:
                    self.log.append(("attach", p, name, t))
                    if p not in self.finished:
                        self.hooks[p].append(name)
            elif kind == "res":
                _, eid, who, f, tok = item
                self.log.append(("deliver", eid, t))
                self.log.append(("resolve", who, f, t, tok))
                self.resolve_base(f, tok)
            if len(self.log) > MAX_LOG:
                raise AssertionError("reference interpreter exceeded the horizon")
        return self.log


# ---------------------------------------------------------------------------
# trace oracle: the clauses of the statement on one log
# ---------------------------------------------------------------------------
def trace_oracle(prog, log):
    """Returns [(fingerprint, description)]; observed execution order decides same-instant ties."""
    out = []
    procs = prog[0]

    def add(fp, desc):
        if all(fp != o[0] for o in out):
            out.append((fp, desc))

    for e in log:
        if e[0] == "horizon":
            add(f"Simulation/terminates/{e[1]}", f"execution did not finish inside the horizon ({e[1]})")
            return out
        if e[0] == "exception":
            add(f"Simulation/exception/{e[1]}", f"run() raised {e[1]}: {e[2]}")

    # first resolution of every base future: (tick, time, value)
    bres = {}
    nres = defaultdict(int)
    for tick, e in enumerate(log):
        if e[0] == "resolve":
            nres[e[2]] += 1
            if e[2] not in bres:
                bres[e[2]] = (tick, e[3], e[4])

    def res(expr):
        if expr[0] == "f":
            return bres.get(expr[1])
        subs = [res(x) for x in expr[1:]]
        if expr[0] == "any":
            got = [(r[0], i) for i, r in enumerate(subs) if r is not None]
            if not got:
                return None
            _, i = min(got)
            return (subs[i][0], subs[i][1], (i, subs[i][2]))
        if any(r is None for r in subs):
            return None
        last = max(subs, key=lambda r: r[0])
        return (last[0], last[1], tuple(r[2] for r in subs))

    def locate(expr, exp, obs):
        """(component, clause) of the innermost node where the received value departs."""
        if expr[0] == "f":
            return ("SimFuture", "resume-value")
        if expr[0] == "any":
            if not (isinstance(obs, tuple) and len(obs) == 2):
                return ("any_of", "result-shape")
            if obs[0] != exp[0]:
                return ("any_of", "index")
            return locate(expr[1 + exp[0]], exp[1], obs[1])
        if not (isinstance(obs, tuple) and len(obs) == len(exp)):
            return ("all_of", "result-shape")
        for i, (a, b) in enumerate(zip(exp, obs)):
            if a != b:
                comp, clause = locate(expr[1 + i], a, b)
                if comp == "SimFuture":
                    return ("all_of", "order" if sorted(map(repr, exp)) == sorted(map(repr, obs)) else "value")
                return (comp, clause)
        return ("all_of", "value")

    byp = defaultdict(list)
    for tick, e in enumerate(log):
        if e[0] in ("start", "yield", "resume", "finish"):
            byp[e[1]].append((tick, e))

    for p in sorted(byp):
        pending = None
        last_future_value = object()
        for tick, e in byp[p] + [(len(log), ("end", p))]:
            if e[0] == "yield" or e[0] == "end" or e[0] == "finish":
                if pending is not None:
                    ytick, y = pending
                    st = y[4]
                    # the process was still suspended at the end of the run
                    if st[0] in ("delay", "delayw", "delayo"):
                        add(f"ProcessContinuation/never-resumed/{form_of(st)}",
                            f"process {p} yielded delay {st[1]!r}s at {y[3]}ns (step {y[2]}) and was never resumed")
                    else:
                        r = res(st[1])
                        if r is not None:
                            state = "already-resolved" if r[0] < ytick else "parked"
                            add(f"SimFuture/never-resumed/{form_of(st)}/{st[2]}-built/{state}",
                                f"process {p} yielded future {st[1]} at {y[3]}ns (step {y[2]}); it resolved at "
                                f"{r[1]}ns with {r[2]!r} but the process was never resumed")
                    pending = None
                if e[0] == "yield":
                    pending = (tick, e)
                continue
            if e[0] != "resume":
                continue
            if pending is None:
                add("ProcessContinuation/resumed-once/unmatched-resume",
                    f"process {p} logged a resume at {e[3]}ns without a pending yield")
                continue
            ytick, y = pending
            pending = None
            st = y[4]
            ty, tr, val = y[3], e[3], e[4]
            if st[0] in ("delay", "delayw", "delayo"):
                exp_t = ty + dns(st[1])
                if tr != exp_t:
                    add(f"ProcessContinuation/resume-time/{form_of(st)}",
                        f"process {p} yielded delay {st[1]!r}s at {ty}ns (step {y[2]}): resumed at {tr}ns, "
                        f"expected {exp_t}ns")
                elif val is not None and val == last_future_value:
                    add("SimFuture/resumed-once/future-value-delivered-again",
                        f"process {p} received {val!r} (the value of an earlier future) when resuming from the "
                        f"delay yielded at {ty}ns (step {y[2]}): the earlier await was resumed twice")
                continue
            # await
            expr, build = st[1], st[2]
            r = res(expr)
            kindtag = f"{form_of(st)}/{build}-built"
            nres_at_yield = sum(1 for b in set(expr_bases(expr)) if b in bres and bres[b][0] < ytick)
            many = "none-resolved" if nres_at_yield == 0 else ("one-resolved" if nres_at_yield == 1
                                                               else "several-resolved")
            if r is None or r[0] > tick:
                add(f"SimFuture/resumed-before-resolved/{kindtag}",
                    f"process {p} yielded future {expr} at {ty}ns (step {y[2]}) and was resumed at {tr}ns with "
                    f"{val!r} although the future had not resolved")
                continue
            rtick, rt, rv = r
            exp_t = max(ty, rt)
            state = "already-resolved" if rtick < ytick else "parked"
            if tr != exp_t:
                add(f"SimFuture/resume-time/{kindtag}/{state}",
                    f"process {p} yielded future {expr} at {ty}ns (step {y[2]}); it resolved at {rt}ns: resumed at "
                    f"{tr}ns, expected {exp_t}ns")
            if val != norm(rv):
                comp, clause = locate(expr, norm(rv), val)
                dbl = "/resolved-twice" if any(nres[b] > 1 for b in expr_bases(expr)) and comp == "SimFuture" else ""
                add(f"{comp}/{clause}/{kindtag}/{state if comp == 'SimFuture' else many}{dbl}",
                    f"process {p} yielded future {expr} ({build}-built) at {ty}ns (step {y[2]}): received {val!r}, "
                    f"expected {norm(rv)!r} (resolve calls in execution order: "
                    f"{[(x[2], x[3], x[4]) for x in log if x[0] == 'resolve']})")
            last_future_value = val

    # events handed to the library: delivered exactly once, at their instant
    created = {}
    for e in log:
        if e[0] == "create":
            created[e[1]] = e[2]
    deliv = defaultdict(list)
    for e in log:
        if e[0] == "deliver":
            deliv[e[1]].append(e[2])

    def ev_class(eid):
        if eid[0] == "se":
            p, pth = eid[1], eid[2]
            st = step_at(procs[p][3], pth)
            frm = st[2] if isinstance(st[2], str) else "res"
            if st[0] == "delayo":
                frm = "outbox-" + frm
            return "ProcessContinuation", "side-effect", frm
        if eid[0] == "ret":
            return "ProcessContinuation", "return-events", procs[eid[1]][4]
        if eid[0] == "hk":
            return "Event", "hook-event", hook_cfg(procs[eid[1]][2])[4]
        if eid[0] == "ha":
            return "Simulation", "pre-run-event", "hook-attacher"
        return "Simulation", "pre-run-event", "resolver"

    reyielded = {e[1] for e in log if e[0] == "reyield"}
    for eid, t in created.items():
        comp, what, shape = ev_class(eid)
        got = deliv.get(eid, [])
        if eid in reyielded and got:
            # the process yielded this very Event object on more than one step: how often it is then
            # delivered is not defined by the statement; only "at its instant" is checked
            got = sorted(set(got))
        if len(got) == 0:
            add(f"{comp}/{what}-lost/{shape}", f"event {eid} created for {t}ns was never delivered")
        elif len(got) > 1:
            add(f"{comp}/{what}-duplicated/{shape}", f"event {eid} created for {t}ns was delivered {len(got)} times: {got}")
        elif got[0] != t:
            add(f"{comp}/{what}-time/{shape}", f"event {eid} created for {t}ns was delivered at {got[0]}ns")

    # completion hooks: exactly once, at the finishing instant
    fin = {}
    for tick, e in enumerate(log):
        if e[0] == "finish":
            fin[e[1]] = (tick, e[2])
    hk = defaultdict(list)
    for tick, e in enumerate(log):
        if e[0] == "hook":
            hk[(e[1], e[2])].append((tick, e[3], e[4]))
    att = {}
    for tick, e in enumerate(log):
        if e[0] == "attach":
            att[(e[1], e[2])] = tick
    started = {}
    for tick, e in enumerate(log):
        if e[0] == "start":
            started[e[1]] = tick
    for p, pr in enumerate(procs):
        pre_names, late_names, _t, _how, label = hook_cfg(pr[2])
        if not pre_names and not late_names:
            continue
        parked = "parks" if any(s[0] == "await" for s in flat_steps(pr[3])) else (
            "delays" if flat_yields(pr[3]) else "immediate")
        for name in pre_names + late_names:
            if name in pre_names:
                atick, when = -1, ""
            else:
                atick = att.get((p, name))
                if atick is None:
                    continue  # the attaching event itself never ran (reported above as an undelivered event)
                when = "/attached-in-flight" if p in started and started[p] < atick else "/attached-before-start"
            shape = f"{label}/{pr[1]}/{parked}{when}"
            calls = hk.get((p, name), [])
            if p not in fin:
                if calls:
                    add(f"Event/hook-before-finish/{shape}",
                        f"completion hook '{name}' of process {p} ran at {calls[0][1]}ns although the process "
                        f"never finished")
                continue
            ftick, ft = fin[p]
            if atick > ftick:
                continue  # attached after the process had finished: the statement is silent
            if len(calls) != 1:
                add(f"Event/hook-count/{shape}",
                    f"completion hook '{name}' of process {p} ({'given before scheduling' if atick < 0 else 'attached to the starting event while the process was suspended'}) "
                    f"ran {len(calls)} times (process finished at {ft}ns)")
                continue
            tick, now, targ = calls[0]
            if tick < ftick:
                add(f"Event/hook-before-finish/{shape}",
                    f"completion hook '{name}' of process {p} ran at {now}ns before the process finished ({ft}ns)")
            elif now != ft or targ != ft:
                add(f"Event/hook-time/{shape}",
                    f"completion hook '{name}' of process {p} ran at clock {now}ns with time argument {targ}ns; "
                    f"the process finished at {ft}ns")
    return out


def step_at(steps, pth):
    st = steps[pth[0]]
    for i in pth[1:]:
        st = st[1][i]
    return st


def flat_steps(steps):
    for st in steps:
        if st[0] == "sub":
            yield from flat_steps(st[1])
        else:
            yield st


def flat_yields(steps):
    return [s for s in flat_steps(steps) if s[0] in ("delay", "delayw", "delayo", "await")]


def nontrivial(log):
    """Rule: the execution (a) awaited a future one of whose inputs was already resolved at the yield or
    resolved at the very instant of the yield, or (b) resolved an already-resolved future, or (c) yielded a
    non-zero delay that truncates to 0 ns, or (d) had a same-instant tie at a resume: between a process's
    yield and its resume another agent (another process, the resolver, a sink delivery) acted at the
    instant of the resume, or (e) attached a completion hook while the process was in flight, or
    (f) resolved a future with a falsy non-None value, or (g) yielded the same side-effect list object on
    two steps."""
    seen = set()
    bt = {}
    acts = []  # (tick, time, agent)
    ytick = {}
    inflight = set()
    boxed = set()
    for tick, e in enumerate(log):
        k = e[0]
        if k == "attach" and e[1] in inflight:
            return True
        if k == "finish":
            inflight.discard(e[1])
        if k == "start":
            inflight.add(e[1])
        if k == "resolve":
            if e[2] in seen or e[4] in (0, "<False>", "", ()):
                return True
            seen.add(e[2])
            bt[e[2]] = e[3]
            acts.append((tick, e[3], e[1] if e[1] == "pre" or e[1][0] != "p" else ("p", e[1][1])))
        elif k == "deliver":
            acts.append((tick, e[2], "sink"))
        elif k == "start":
            acts.append((tick, e[2], ("p", e[1])))
        elif k == "yield":
            st = e[4]
            if st[0] in ("delay", "delayw") and st[1] != 0 and dns(st[1]) == 0:
                return True
            if st[0] == "delayo":
                if e[1] in boxed:
                    return True  # (g) the same list object yielded again
                boxed.add(e[1])
            if st[0] == "await" and any(b in seen for b in expr_bases(st[1])):
                return True
            ytick[e[1]] = tick
        elif k == "resume":
            me = ("p", e[1])
            y = ytick.get(e[1], -1)
            for (tk, tm, ag) in acts:
                if tk > y and tm == e[3] and ag != me:
                    return True
            acts.append((tick, e[3], me))
    for e in log:
        if e[0] == "yield" and e[4][0] == "await":
            if any(bt.get(b) == e[3] for b in expr_bases(e[4][1])):
                return True
    return False


def check_program(prog):
    """-> (violations, real_log, ref_log, order_divergence)"""
    real = run_real(prog)
    ref = Ref(prog).run()
    selfv = trace_oracle(prog, ref)
    if selfv:
        raise AssertionError(f"checker bug: reference log fails the trace oracle: {selfv} prog={prog}")
    if real == ref:
        return [], real, ref, False
    v = trace_oracle(prog, real)
    return v, real, ref, not v


# ---------------------------------------------------------------------------
# enumeration
# ---------------------------------------------------------------------------
def seqs(alpha, maxlen, minlen=0):
    for n in range(minlen, maxlen + 1):
        yield from itertools.product(alpha, repeat=n)


def res_schedules(times, futs, maxn):
    """All resolver schedules with <= maxn actions, times non-decreasing (creation order on ties matters)."""
    opts = [(t, f) for t in times for f in futs]
    out = []
    for n in range(maxn + 1):
        for combo in itertools.product(opts, repeat=n):
            if all(combo[i][0] <= combo[i + 1][0] for i in range(n - 1)):
                out.append(combo)
    return out


def with_subs(leaf, sub_leaf, sub_maxlen):
    return list(leaf) + [("sub", s) for s in seqs(sub_leaf, sub_maxlen, 0)]


F0, F1, F2 = ("f", 0), ("f", 1), ("f", 2)


def combinator_exprs():
    out = [("any", F0, F1), ("all", F0, F1), ("any", F0, F1, F2), ("all", F0, F1, F2)]
    for o1 in ("any", "all"):
        for o2 in ("any", "all"):
            out.append((o1, (o2, F0, F1), F2))
            out.append((o1, F0, (o2, F1, F2)))
    return out


_FAM_CACHE = {}


def family(name, tier):
    """-> (A, B, bounds): A = list of procs tuples, B = list of (res, pre, order, mode).  Cached per process."""
    key = (name, tier)
    if key not in _FAM_CACHE:
        _FAM_CACHE.clear()  # one family at a time (keeps long-lived pool workers small)
        _FAM_CACHE[key] = _family(name, tier)
    return _FAM_CACHE[key]


def dig64(obj) -> int:
    return int.from_bytes(hashlib.blake2b(repr(obj).encode(), digest_size=8).digest(), "big")


def _family(name, tier):
    q = tier == "quick"
    if name in ("delays", "delays-ctl"):
        # delays-ctl (thorough only): the quick-sized program set under an attached control surface
        ctl_only = name == "delays-ctl"
        q = q or ctl_only
        # one process, no futures: every yield form with a delay, yield from, every return form, hooks
        emits = ["one", "two", "later", "none"]
        leaf = [("delay", d) for d in (D0, DSUB, D1, DHALF, DBIG)] + \
               [("delayw", d, em) for d in (D0, D1) for em in emits] + \
               [("delayw", DHALF, "one"), ("delayw", DSUB, "two")]
        # Python-int delays (whole seconds) in every yield form: bare, tuple with side effects, inside yield from
        leaf += [("delay", 0), ("delay", 1), ("delayw", 1, "one"), ("delayw", 0, "two")]
        if not q:
            leaf += [("delay", 2), ("delayw", DBIG, "later"), ("delayw", 2, "none")]
        sub_leaf = [("delay", D0), ("delay", D1), ("delayw", D0, "one")]
        alpha = with_subs(leaf, sub_leaf, 2) + [("sub", (("delay", 1),)), ("sub", (("delayw", 1, "one"),))]
        small = [("delay", D0), ("delay", DSUB), ("delay", D1), ("delay", DBIG), ("delayw", D0, "one"),
                 ("delayw", D1, "two"), ("sub", (("delay", D1),)), ("sub", (("delayw", D0, "later"),)),
                 ("sub", ()), ("delay", 1), ("sub", (("delayw", 1, "one"),))]
        rets = ["none", "one", "two", "empty"]
        A = []
        cfgs = [("entity", "none"), ("entity", "ctor"), ("entity", "add"), ("once", "add")]
        if q:
            for steps in seqs(alpha, 2):
                for ret in rets:
                    for style, hooks in cfgs:
                        A.append(((0, style, hooks, steps, ret),))
            for steps in seqs(small, 3, 3):
                for ret in ("two", "one"):
                    for style, hooks in (("entity", "ctor"), ("once", "add")):
                        A.append(((3, style, hooks, steps, ret),))
        else:
            for steps in seqs(alpha, 3):
                for ret in (rets if len(steps) < 3 else ("two", "none")):  # 3-step scripts: 2 return forms
                    for style, hooks in cfgs:
                        A.append(((0, style, hooks, steps, ret),))
            for steps in seqs(small, 4, 4):
                for ret in ("two",):
                    for style, hooks in (("entity", "ctor"),):
                        A.append(((3, style, hooks, steps, ret),))
        modes = ("ctl",) if ctl_only else (("auto", "end", "ctl") if q else ("auto", "end"))
        B = [((), (), "P", m) for m in modes]
        return A, B, {"processes": 1, "steps<=": 3 if q else 4, "alphabet": len(alpha), "return_forms": rets,
                      "hook/style configs": cfgs, "modes": list(modes)}

    if name.startswith("await"):
        # one process awaiting base futures + resolver entity; resolve instants before/at/after the awaits
        if name == "await":
            d_a, d_b = D0, D1
            times = (0, 1, 2) if q else (0, 1, 2, 3)
            maxlen, maxres = 3, 3
        elif name == "await-half":
            d_a, d_b = DSUB, DHALF
            times = (0, 499_999_999, 500_000_000, 500_000_001)
            maxlen, maxres = (2, 2) if q else (3, 2)
        elif name == "await-int":  # delays given as Python ints (0 and 1 whole second)
            d_a, d_b = 0, 1
            times = (0, NS - 1, NS, NS + 1)
            maxlen, maxres = (2, 2) if q else (3, 2)
        else:  # await-big
            d_a, d_b = D1, DBIG
            times = (1, 10 ** 15 - 1, 10 ** 15, 10 ** 15 + 1) + (() if q else (10 ** 15 + 2,))
            maxlen, maxres = (2, 2) if q else (3, 2)
        leaf = [("delay", d_a), ("delay", d_b), ("await", F0, "late"), ("await", F1, "late"),
                ("resolve", 0), ("resolve", 1), ("delayw", d_a, ("res", 0, 0)), ("delayw", d_b, ("res", 1, 1))]
        subs = [("sub", (("await", F0, "late"),)), ("sub", (("delay", d_b), ("await", F1, "late"))),
                ("sub", (("await", F1, "late"), ("delay", d_a)))]
        alpha = leaf + subs
        A = []
        scripts = [s for s in seqs(alpha, maxlen)]
        for steps in scripts:
            A.append(((0, "entity", "ctor", steps, "two"),))
        if name == "await":
            for steps in seqs(alpha, 2):
                A.append(((1, "once", "add", steps, "one"),))
        full = res_schedules(times, (0, 1), maxres)
        if q and name == "await":
            # quick: <= 2 resolver actions for every script; the 3-action schedules run in thorough
            full = res_schedules(times, (0, 1), 2)
        B = []
        for rs in full:
            for pre in ((), (0,)):
                if pre and len(rs) > 2:
                    continue  # pre-resolved futures are combined with <= 2 resolver actions
                for order in ("P", "R"):
                    if q and pre and order == "R":
                        continue  # quick: pre-resolved futures with the default creation order only
                    B.append((rs, pre, order, "auto"))
        B += [(rs, (), "P", "end") for rs in res_schedules(times[:3], (0, 1), 2)]
        return A, B, {"processes": 1, "steps<=": maxlen, "alphabet": len(alpha), "delays": [d_a, d_b],
                      "resolver_times_ns": list(times), "resolver_actions<=": maxres if not (q and name == "await") else 2,
                      "pre_resolved": [[], [0]], "orders": ["P", "R"]}

    if name == "combinators":
        exprs = combinator_exprs()
        pre_delays = [None, D0, D1, 2e-9] if not q else [None, D1, 2e-9]
        A = []
        for e in exprs:
            for build in ("late", "pre"):
                for pd in pre_delays:
                    steps = (() if pd is None else (("delay", pd),)) + (("await", e, build), ("delay", D1))
                    A.append(((0, "entity", "ctor", steps, "one"),))
        times = (0, 1, 2) if q else (0, 1, 2, 3)
        B = []
        for rs in res_schedules(times, (0, 1, 2), 3 if q else 4):
            for order in ("P", "R"):
                B.append((rs, (), order, "auto"))
        for rs in res_schedules((1, 2), (0, 1, 2), 2):
            for pre in ((0,), (2,), (1, 0)):
                B.append((rs, pre, "P", "end"))
        return A, B, {"processes": 1, "expressions": len(exprs), "builds": ["late", "pre"],
                      "pre_delays": pre_delays, "resolver_times_ns": list(times),
                      "resolver_actions<=": 3 if q else 4}

    if name == "combinators-seq":
        # two or three awaits in sequence over flat combinators (later ones see already-resolved inputs)
        exprs = [(F0, "late"), (F1, "late"), (("any", F0, F1), "late"), (("any", F0, F1), "pre"),
                 (("all", F0, F1), "late"), (("all", F0, F1), "pre"), (("any", F1, F0), "late")]
        alpha = [("await", e, b) for e, b in exprs] + [("delay", D1)]
        A = [((0, "entity", "add", steps, "none"),) for steps in seqs(alpha, 2 if q else 3, 1)]
        times = (0, 1, 2)
        B = []
        for rs in res_schedules(times, (0, 1), 3):
            for order in ("P", "R"):
                B.append((rs, (), order, "auto"))
        return A, B, {"processes": 1, "steps<=": 2 if q else 3, "alphabet": len(alpha),
                      "resolver_times_ns": list(times), "resolver_actions<=": 3}

    if name == "two-procs":
        # two processes; each awaits only "its" future (a future may be yielded by one generator only,
        # as documented) but may resolve any; f2 is shared through combinators
        def alpha(me, other):
            fm, fo = ("f", me), ("f", other)
            a = [("delay", D0), ("delay", D1), ("await", fm, "late"), ("await", ("any", fm, F2), "late"),
                 ("await", ("all", fm, F2), "late"), ("resolve", other), ("resolve", 2), ("resolve", me),
                 ("delayw", D0, ("res", other, 0))]
            if not q:
                a += [("await", ("any", F2, fm), "pre"), ("sub", (("await", fm, "late"),))]
            return a
        A = []
        pairs = [(list(seqs(alpha(0, 1), 2, 1)), list(seqs(alpha(1, 0), 2, 1)))]
        if not q:
            # longer second process over the 9-letter core alphabet
            pairs.append((list(seqs(alpha(0, 1)[:9], 2, 1)), list(seqs(alpha(1, 0)[:9], 3, 3))))
        for k, (s0, s1) in enumerate(pairs):
            for a in s0:
                for b in s1:
                    for st1 in ((0, 1) if k == 0 else (0,)):
                        A.append(((0, "entity", "ctor", a, "one"), (st1, "entity", "add", b, "none")))
        B = [((), (), "P", "auto")]
        for t in ((0, 1) if q else (0, 1, 2)):
            for f in (0, 1, 2):
                B.append((((t, f),), (), "R", "auto"))
        B.append((((1, 2), (1, 2)), (), "P", "end"))
        return A, B, {"processes": 2, "steps<=": [2, 2 if q else 3], "alphabet": len(alpha(0, 1)),
                      "start_ns": [[0], [0, 1]], "resolver_actions<=": 1,
                      "note": "thorough adds second-process scripts of exactly 3 steps over the 9-letter core "
                              "alphabet (start 0 only)"}
    if name == "hooks-late":
        # completion hooks attached to the starting event by another entity while the process is suspended
        # (on a delay / on a future), with and without other hooks present at start
        alpha = [("delay", D0), ("delay", D1), ("delay", DHALF), ("await", F0, "late"),
                 ("await", ("any", F0, F1), "late"), ("delayw", D0, "one"), ("sub", (("await", F0, "late"),)),
                 ("resolve", 0)]
        scripts = list(seqs(alpha, 2 if q else 3))
        cfgs = [(kind, t, how) for kind in ("late", "mixed") for t in (0, 1) for how in ("add", "append")]
        A = [((0, "entity", cfg, steps, "one"),) for cfg in cfgs for steps in scripts]
        A += [((0, "once", cfg, steps, "none"),) for cfg in (("late", 0, "add"), ("mixed", 1, "append"))
              for steps in scripts]
        if not q:
            A += [((0, "entity", (kind, 2, "add"), steps, "two"),) for kind in ("late", "mixed") for steps in scripts]
        B = [(rs, (), "P", "auto") for rs in res_schedules((0, 1, 2), (0, 1), 2)]
        B += [(rs, (), "R", "auto") for rs in res_schedules((0, 1, 2), (0, 1), 1)]
        B += [(rs, (), "P", m) for rs in ((), ((1, 0),)) for m in ("end", "ctl")]
        return A, B, {"processes": 1, "steps<=": 2 if q else 3, "alphabet": len(alpha),
                      "hook configs": ["late|mixed x attach t in {0,1}ns x add_completion_hook|on_complete.append",
                                       "styles entity, once"],
                      "resolver_times_ns": [0, 1, 2], "resolver_actions<=": 2}

    if name == "outbox":
        # side effects handed over through ONE reused list object (edited in place between yields), the same
        # list object as return value / hook result
        alpha = [("delayo", d, ed) for d in (D0, D1) for ed in ("keep", "clear", "append", "replace")] + \
                [("delay", D1), ("await", F0, "late"), ("delayo", 1, "append")]
        if not q:
            alpha += [("delayo", DHALF, "append"), ("delayw", D0, "two"), ("sub", (("delayo", D1, "replace"),))]
        A = []
        for steps in seqs(alpha, 3 if q else 4):
            for ret, hooks in (("box", "ctor"), ("one", "box"), ("box", "none")):
                if len(steps) == 4 and hooks != "ctor":
                    continue  # 4-step scripts (thorough): one return/hook configuration
                A.append(((0, "entity", hooks, steps, ret),))
        B = [((), (), "P", "auto"), ((), (), "P", "end"), ((), (), "P", "ctl"),
             (((0, 0),), (), "P", "auto"), (((1, 0),), (), "R", "end"), (((2, 0),), (), "P", "auto")]
        return A, B, {"processes": 1, "steps<=": 3 if q else 4, "alphabet": len(alpha),
                      "outbox edits": ["keep", "clear", "append", "replace"],
                      "return/hook configs": ["return outbox + ctor hooks", "hook returns outbox", "return outbox"],
                      "resolver_actions<=": 1}

    if name == "falsy-values":
        # futures resolved with falsy values (0, False, '', [], None) for direct awaits, yield from, and as
        # elements of any_of / all_of results
        codes = ("z", "F", "s", "l", "N", None)
        alpha = [("await", F0, "late"), ("await", F1, "late"), ("await", ("any", F0, F1), "late"),
                 ("await", ("all", F0, F1), "late"), ("sub", (("await", F0, "late"),)), ("delay", D1),
                 ("resolve", 0, "z"), ("resolve", 1, "l")]
        if not q:
            alpha += [("await", ("all", ("any", F0, F1), F2), "pre"), ("resolve", 2, "F")]
        A = [((0, "entity", "ctor", steps, "none"),) for steps in seqs(alpha, 2 if q else 3, 1)]
        B = []
        for rs in res_schedules((0, 1), (0, 1), 2):
            for vals in itertools.product(codes, repeat=len(rs)):
                B.append((tuple((t, f, c) if c else (t, f) for (t, f), c in zip(rs, vals)), (), "P", "auto"))
        for rs in res_schedules((0, 1), (0, 1), 1):
            for vals in itertools.product(codes, repeat=len(rs)):
                acts = tuple((t, f, c) if c else (t, f) for (t, f), c in zip(rs, vals))
                B.append((acts, (), "R", "end"))
                B.append((acts, ((0, "z"),), "P", "auto"))
                B.append((acts, ((1, "N"), (0, "l")), "P", "auto"))
        return A, B, {"processes": 1, "steps<=": 2 if q else 3, "alphabet": len(alpha),
                      "resolve_values": ["0", "False", "''", "[]", "None", "unique token"],
                      "resolver_times_ns": [0, 1], "resolver_actions<=": 2}
    raise KeyError(name)


FAMILIES = ["delays", "await", "await-half", "await-big", "await-int", "combinators", "combinators-seq", "two-procs",
            "hooks-late", "falsy-values", "outbox"]


def _work(job):
    name, tier, lo, hi, step = job
    A, B, _b = family(name, tier)
    st = {"exec": 0, "trans": 0, "nontriv": 0, "outcomes": set(), "viol": {}, "samples": [], "orderdiv": 0,
          "orderdiv_sample": None, "viol_count": defaultdict(int), "detcheck": 0}
    for ai in range(lo, hi, step):
        procs = A[ai]
        for bi, (rs, pre, order, mode) in enumerate(B):
            prog = (procs, rs, pre, order, mode)
            viol, real, ref, odiv = check_program(prog)
            st["exec"] += 1
            st["trans"] += sum(1 for e in real if e[0] in ("start", "resume", "deliver", "hook"))
            st["outcomes"].add(dig64(real))
            if nontrivial(real):
                st["nontriv"] += 1
            if odiv:
                st["orderdiv"] += 1
                if st["orderdiv_sample"] is None:
                    st["orderdiv_sample"] = {"program": prog, "real": real, "ref": ref}
            if (ai * 7 + bi) % 61 == 0:
                st["detcheck"] += 1
                if run_real(prog) != real:
                    viol = viol + [("Simulation/deterministic/same-program-different-log",
                                    "two executions of the same program produced different logs")]
            for fp, desc in viol:
                st["viol_count"][fp] += 1
                size = len(repr(prog))
                if fp not in st["viol"] or size < st["viol"][fp][2]:  # keep the smallest witness
                    st["viol"][fp] = (desc, {"driver": name, "program": prog, "real_log": real, "ref_log": ref},
                                      size)
            if len(st["samples"]) < 1 and (ai + bi) % 101 == 7:
                st["samples"].append({"program": prog, "real_log": real})
    st["viol_count"] = dict(st["viol_count"])
    return st


def run_family(run, name, tier, seed):
    t0 = time.time()
    A, B, bounds = family(name, tier)
    bounds = dict(bounds)
    bounds["process_configurations"] = len(A)
    bounds["environments(resolver schedule x pre-resolved x creation order x loop mode)"] = len(B)
    d = run.driver(name, bounds)
    nchunks = min(len(A), 128)
    jobs = [(name, tier, k, len(A), nchunks) for k in range(nchunks)]
    outcomes = set()
    orderdiv = 0
    od_sample = None
    detchecks = 0
    best = {}
    counts = defaultdict(int)
    for st in pmap(_work, rotate(jobs, seed)):
        d.executions += st["exec"]
        d.transitions += st["trans"]
        d.nontrivial += st["nontriv"]
        outcomes |= st["outcomes"]
        orderdiv += st["orderdiv"]
        detchecks += st["detcheck"]
        od_sample = od_sample or st["orderdiv_sample"]
        for fp, (desc, rep, size) in st["viol"].items():
            counts[fp] += st["viol_count"][fp]
            if fp not in best or size < best[fp][2]:
                best[fp] = (desc, rep, size)
        if len(d.samples) < 3:
            d.samples.extend(st["samples"])
    for fp in sorted(best):
        desc, rep, _size = best[fp]
        run.violation(fp, desc, rep)
        run.violation_counts[fp] += counts[fp] - 1
    d.extra["violating_executions_by_fingerprint"] = dict(counts)
    d.states = len(outcomes)
    d.outcomes = len(outcomes)
    d.extra["order_divergence_from_reference_without_clause_violation"] = orderdiv
    d.extra["determinism_rechecks"] = detchecks
    if od_sample:
        d.extra["order_divergence_sample"] = od_sample
        run.notes.append(f"{name}: {orderdiv} executions differ from the reference interpreter only in "
                         f"same-instant ordering (no clause of C02 violated; C01's subject)")
    d.wall_s = time.time() - t0


def main(tier, seed, only=None):
    run = Run(PID, tier, seed, "model_checking",
              rule=("every program = (1-2 process scripts over {delay, delay+side effects, await future/any_of/all_of, "
                    "yield from, resolve, return} x start style x hooks (given at construction / added before scheduling / "
                    "attached by another entity while the process is suspended) x resolve values (unique tokens, "
                    "0, False, '', [], None)) x (resolver schedule x pre-resolved futures x "
                    "creation order of pre-run events x loop mode) is executed on the real Simulation and on a "
                    "reference interpreter; distinct = distinct program; non-trivial = the run awaited a future with "
                    "an input already resolved at the yield or resolved at the instant of the yield, resolved a "
                    "future twice, yielded a non-zero delay truncating to 0 ns, or had a same-instant tie at a resume "
                    "(another process, the resolver or a sink delivery acted at the resume instant between the "
                    "yield and the resume), attached a completion hook while the process was in flight, or resolved "
                    "a future with a falsy non-None value, or yielded the same side-effect list object on two steps; "
                    "states = distinct observation logs"),
              assumptions=["harness generators observe resume instants/values via Entity.now and the value of the "
                           "yield expression (public contract)",
                           "same-instant order of resolve calls is taken as observed (C01 owns event ordering)",
                           "each base future is yielded by at most one process at a time and used at most once per "
                           "combinator expression (documented single-consumer rule)",
                           "delay d corresponds to int(d*1e9) ns (Instant/Duration documentation)"])
    for name in FAMILIES + (["delays-ctl"] if tier != "quick" else []):
        if only and name not in only:
            continue
        run_family(run, name, tier, seed)
    return run.finish()


# ---------------------------------------------------------------------------
# replay
# ---------------------------------------------------------------------------
def replay(data):
    rep = data["replay"]
    prog = thaw(rep["program"])
    print("program:")
    for p, pr in enumerate(prog[0]):
        print(f"  process {p}: start={pr[0]}ns style={pr[1]} hooks={pr[2]} return={pr[4]}")
        for i, st in enumerate(pr[3]):
            print(f"     step {i}: {st}")
    print(f"  resolver actions (t_ns, future): {prog[1]}  pre-resolved: {prog[2]}  creation order: {prog[3]}  "
          f"mode: {prog[4]}")
    real = run_real(prog)
    ref = Ref(prog).run()
    print("real execution (observation log):")
    for e in real:
        print("   ", e)
    if real != ref:
        print("reference interpreter log:")
        for e in ref:
            print("   ", e)
    v = trace_oracle(prog, real)
    for fp, desc in v:
        print(f"  !! {fp}: {desc}")
    want = data.get("fingerprint")
    if want is not None:
        return 1 if any(fp == want for fp, _ in v) else 0
    return 1 if v else 0

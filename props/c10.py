"""C10 — rate limiters never over-admit and report time-until-available truthfully.

Two bounded-exhaustive drivers on the REAL implementation:

(1) ``policy-*``: the five policies as pure objects.  ALL non-decreasing
    arrival-time sequences up to a length over a grid built from the policy's
    own constants (multiples of W/2 and 1/rate, each +-1 ns, bursts at one
    instant; for the adaptive policy the alphabet additionally contains
    ``record_success`` / ``record_failure`` at every grid time, in all orders)
    are applied by a DFS with ``copy.deepcopy`` snapshots.  After every step:
      * the admitted set is checked against the policy's interval bound for
        every pair of admitted requests (dyadic parameters, where the library's
        own float arithmetic is exact; tolerance 1e-6 tokens / 1 ns, so only a
        whole extra admitted request is reported);
      * the ``time_until_available`` contract is checked on copies: zero =>
        the immediate acquire succeeds; non-zero => no acquire succeeds at
        now, now+wait/2, now+wait-1ns; iterating "wait the returned duration"
        reaches an admitting instant within 4 waits.
    Non-dyadic parameter sets (rate 3, window 0.1 s ...) are explored mainly for
    the time_until_available clauses (self-consistency of the library's own
    answers).  Their interval bounds are checked only in forms that cannot be
    blurred by float rounding: token/leaky/sliding/adaptive with the same
    1e-6 token / 1 ns slack (float error is ~1e-15 relative), fixed windows
    only alignment-free (<= N at one instant, <= 2N within W - 1 ns).
    Modes: plain (try_acquire only), probed (the policy itself is asked
    time_until_available before every try_acquire, as RateLimitedEntity does),
    queries (bare time_until_available calls are ops of the alphabet).

(2) ``entity``: RateLimitedEntity (all five policies), Inductor,
    NullRateLimiter and DistributedRateLimiter (zero-latency KVStore) inside a
    real ``Simulation``: all multisets of <= n requests over (arrival time x
    hop count), the time grid containing the pending poll instant and its
    +-1 ns neighbours, hop count 0 (created before the poll event) / 1 / 2
    (created after the poll event, same instant), queue capacity {0,1,2}.
    Oracle: every request that arrived is forwarded xor dropped xor still
    queued exactly once; forwarded order = arrival order; the limiter's
    counters agree with what the harness saw; the drain never stalls (queue
    empty at a horizon far beyond the last possible admission, no frozen
    clock); forwarded times satisfy the wrapped policy's bound.
    ``entity-burst``: the same oracle on limiters whose policy frees several
    slots at one instant (fixed window N=2/3, sliding window N=2/3, token
    bucket capacity 2/3) under bursts of up to 8 same-instant / ns-adjacent
    requests, queue capacity 3 and 16: the drain has to continue until the
    queue is empty after the arrivals have stopped.
"""
from __future__ import annotations

import copy
import time

from mc.evidence import Run
from mc.harness import (Event, Fwd, Instant, Rec, Simulation, pmap, rotate,
                        run_guarded)

from happysimulator.components.rate_limiter import (  # noqa: E402
    AdaptivePolicy, DistributedRateLimiter, FixedWindowPolicy, Inductor,
    LeakyBucketPolicy, NullRateLimiter, RateAdjustmentReason, RateLimitedEntity,
    SlidingWindowPolicy, TokenBucketPolicy)

PID = "C10"
S = 1_000_000_000
TOL_TOKENS = 1e-6
TOL_NS = 1
MAX_WAITS = 4  # "within a few steps"
# mode 'queries' (bare time_until_available calls in the alphabet) runs this many ops shorter
QUERIES_SHORTER = {"quick": 2, "thorough": 3}

CLASSNAME = {"token": "TokenBucketPolicy", "leaky": "LeakyBucketPolicy",
             "sliding": "SlidingWindowPolicy", "fixed": "FixedWindowPolicy",
             "adaptive": "AdaptivePolicy"}


# ---------------------------------------------------------------------------
# policy specs (plain tuples, picklable / JSON-able)
# ---------------------------------------------------------------------------
#  ("token", capacity, rate, initial_tokens|None)
#  ("leaky", rate)
#  ("sliding", window_s, max_requests)
#  ("fixed", requests_per_window, window_s)
#  ("adaptive", initial, min, max, step|None, factor, window_s)
def make_policy(spec):
    k = spec[0]
    if k == "token":
        return TokenBucketPolicy(capacity=spec[1], refill_rate=spec[2], initial_tokens=spec[3])
    if k == "leaky":
        return LeakyBucketPolicy(leak_rate=spec[1])
    if k == "sliding":
        return SlidingWindowPolicy(window_size_seconds=spec[1], max_requests=spec[2])
    if k == "fixed":
        return FixedWindowPolicy(requests_per_window=spec[1], window_size=spec[2])
    if k == "adaptive":
        return AdaptivePolicy(initial_rate=spec[1], min_rate=spec[2], max_rate=spec[3],
                              increase_step=spec[4], decrease_factor=spec[5], window_size=spec[6])
    raise AssertionError(spec)


def spec_units_ns(spec):
    """The policy's own time constants (ns): 1/rate, W, W/2."""
    k = spec[0]
    if k == "token":
        return [round(S / spec[2])]
    if k == "leaky":
        return [round(S / spec[1])]
    if k == "sliding":
        return [round(spec[1] * S)]
    if k == "fixed":
        return [round(spec[2] * S)]
    if k == "adaptive":
        return [round(spec[6] * S)]  # W; the specs keep 1/rate on the W/2 lattice
    raise AssertionError(spec)


def make_grid(spec, halves, eps=(-1, 0, 1)):
    """Multiples k/2 (k in ``halves``) of each unit, each shifted by eps ns, >= 0."""
    pts = set()
    for u in spec_units_ns(spec):
        for k in halves:
            base = (u * k) // 2
            for e in eps:
                if base + e >= 0:
                    pts.add(base + e)
    return sorted(pts)


def _norm(v):
    if isinstance(v, Instant):
        return ("I", v.nanoseconds)
    if isinstance(v, (list, tuple)):
        return tuple(_norm(x) for x in v)
    if isinstance(v, (int, float, str, bool)) or v is None:
        return v
    ns = getattr(v, "nanoseconds", None)
    if ns is not None:
        return ("D", ns)
    return repr(v)


def canon(policy):
    """Canonical state for COUNTING distinct states only (private attributes; any refactor
    still yields some dict of attributes — the verdicts never depend on this)."""
    try:
        items = vars(policy).items()
    except TypeError:
        return repr(policy)
    return tuple(sorted((k, _norm(v)) for k, v in items
                        if k not in ("rate_history", "successes", "failures", "timeouts",
                                     "rate_increases", "rate_decreases")))


# ---------------------------------------------------------------------------
# one policy under test + ghost history for the oracle
# ---------------------------------------------------------------------------
class PolicyRunner:
    """Applies ops to a real policy; evaluates the oracle after every step."""

    def __init__(self, spec, dyadic, mode="plain"):
        self.spec = spec
        self.kind = spec[0]
        self.dyadic = dyadic
        self.mode = mode  # 'plain' | 'probed' (time_until_available called on the main object first)
        self.policy = make_policy(spec)
        self.admitted = []  # ns
        self.denied = 0
        self.ops = []  # (kind, t_ns)
        self.results = []  # per op: True/False/None
        self.calls = 0
        # adaptive ghost: rate samples (time_ns, rate) after every op; first = initial (left limit)
        self.rates = [(-1, spec[1])] if self.kind == "adaptive" else None
        self.decreased = False
        self.decreased_before_first_acquire = False

    def clone(self):
        c = PolicyRunner.__new__(PolicyRunner)
        c.spec, c.kind, c.dyadic, c.mode = self.spec, self.kind, self.dyadic, self.mode
        c.policy = copy.deepcopy(self.policy)
        c.admitted = list(self.admitted)
        c.denied = self.denied
        c.ops = list(self.ops)
        c.results = list(self.results)
        c.calls = 0
        c.rates = list(self.rates) if self.rates is not None else None
        c.decreased = self.decreased
        c.decreased_before_first_acquire = self.decreased_before_first_acquire
        return c

    # -- helpers ---------------------------------------------------------
    @property
    def cls(self):
        return CLASSNAME[self.kind]

    def pclass(self, t_ns):
        p = "dyadic" if self.dyadic else "non-dyadic"
        if self.kind == "fixed":
            w = round(self.spec[2] * S)
            p += "-window-boundary" if t_ns % w == 0 else "-window-interior"
        return p

    def _tua(self, pol, t_ns):
        self.calls += 1
        return pol.time_until_available(Instant(t_ns)).nanoseconds

    def _acq(self, pol, t_ns):
        self.calls += 1
        return bool(pol.try_acquire(Instant(t_ns)))

    # -- time_until_available contract on copies ---------------------------
    def check_tua(self, t_ns):
        """Returns (wait_ns reported at t_ns, [violations])."""
        out = []
        c = copy.deepcopy(self.policy)
        w = self._tua(c, t_ns)
        if w == 0:
            if not self._acq(c, t_ns):
                out.append((f"{self.cls}/tua-zero/{self.pclass(t_ns)}",
                            f"time_until_available({t_ns}ns) returned zero but the immediate "
                            f"try_acquire({t_ns}ns) was denied"))
        elif w > 0:
            for probe in sorted({t_ns, t_ns + w // 2, t_ns + w - 1}):
                c2 = copy.deepcopy(c)
                if self._acq(c2, probe):
                    out.append((f"{self.cls}/tua-early/{self.pclass(t_ns)}",
                                f"time_until_available({t_ns}ns) returned {w}ns but try_acquire "
                                f"succeeded at {probe}ns (= now+{probe - t_ns}ns, before the wait elapsed)"))
                    break
        # iterate "wait the returned duration"
        c = copy.deepcopy(self.policy)
        tt = t_ns
        waits = []
        reached = False
        for _ in range(MAX_WAITS + 1):
            wi = self._tua(c, tt)
            if wi == 0:
                reached = self._acq(c, tt)
                if not reached and w != 0:
                    out.append((f"{self.cls}/tua-zero/{self.pclass(tt)}",
                                f"after waiting {waits} from {t_ns}ns, time_until_available({tt}ns) "
                                f"returned zero but try_acquire({tt}ns) was denied"))
                    reached = True  # reported under its own clause
                elif not reached:
                    reached = True  # already reported above (w == 0 case)
                break
            if wi < 0:
                break
            waits.append(wi)
            tt += wi
        if not reached:
            out.append((f"{self.cls}/tua-stall/{self.pclass(t_ns)}",
                        f"from {t_ns}ns, waiting the returned durations {waits} did not reach an "
                        f"admitting instant within {MAX_WAITS} waits"))
        return w, out

    # -- one op -------------------------------------------------------------
    def step(self, kind, t_ns):
        """Apply one op; returns list of (fingerprint, description)."""
        out = []
        pol = self.policy
        if kind == "acq":
            w, out = self.check_tua(t_ns)
            if self.mode == "probed":
                self._tua(pol, t_ns)  # the caller asks first (as RateLimitedEntity does); answer checked above
            ok = self._acq(pol, t_ns)
            if w == 0 and not ok and not any("/tua-zero/" in fp for fp, _ in out):
                out.append((f"{self.cls}/tua-zero/{self.pclass(t_ns)}",
                            f"time_until_available({t_ns}ns) returned zero on a copy but "
                            f"try_acquire({t_ns}ns) was denied"))
            if w > 0 and ok and not any("/tua-early/" in fp for fp, _ in out):
                out.append((f"{self.cls}/tua-early/{self.pclass(t_ns)}",
                            f"time_until_available({t_ns}ns) returned {w}ns on a copy but "
                            f"try_acquire({t_ns}ns) succeeded"))
            self.ops.append((kind, t_ns))
            self.results.append(ok)
            if self.rates is not None:
                self.rates.append((t_ns, pol.current_rate))
            if ok:
                self.admitted.append(t_ns)
                out.extend(self.check_bound())
            else:
                self.denied += 1
        elif kind == "tua":
            # a bare query (monitoring, or a caller that decides not to acquire): contract checked on
            # copies, then asked on the policy itself — it must not change what is admitted later
            _w, out = self.check_tua(t_ns)
            self._tua(pol, t_ns)
            self.ops.append((kind, t_ns))
            self.results.append(None)
            if self.rates is not None:
                self.rates.append((t_ns, pol.current_rate))
        else:
            self.calls += 1
            before = pol.current_rate
            if kind == "succ":
                pol.record_success(Instant(t_ns))
            elif kind == "fail":
                pol.record_failure(Instant(t_ns))  # default reason
            else:  # "fail:<REASON>" — every member of the library's reason enum
                pol.record_failure(Instant(t_ns), reason=RateAdjustmentReason[kind.split(":", 1)[1]])
            after = pol.current_rate
            if after < before:
                self.decreased = True
                if not any(k == "acq" for k, _t in self.ops):
                    self.decreased_before_first_acquire = True
            self.ops.append((kind, t_ns))
            self.results.append(None)
            self.rates.append((t_ns, after))
        if self.rates is not None:
            r = pol.current_rate
            lo, hi = self.spec[2], self.spec[3]
            if r < lo - 1e-12:
                out.append((f"{self.cls}/rate-range/below-min", f"current_rate={r} < min_rate={lo}"))
            if r > hi + 1e-12:
                out.append((f"{self.cls}/rate-range/above-max", f"current_rate={r} > max_rate={hi}"))
        return out

    # -- interval bounds (new admission = last element), every pair (i, last) ----
    def check_bound(self):
        a = self.admitted
        j = len(a) - 1
        tj = a[j]
        k = self.kind
        sp = self.spec
        if k == "token":
            cap, rate = sp[1], sp[2]
            for i in range(j, -1, -1):
                cnt = j - i + 1
                lim = cap + rate * (tj - a[i]) / S
                if cnt > lim + TOL_TOKENS:
                    shape = "burst" if tj == a[i] else "interval"
                    return [(f"{self.cls}/bound/{shape}",
                             f"{cnt} requests admitted in [{a[i]}ns, {tj}ns]; bound capacity + rate x length "
                             f"= {cap} + {rate} x {(tj - a[i]) / S}s = {lim}")]
        elif k == "leaky":
            iv = S / sp[1]  # exact integer for dyadic rates; real-valued otherwise (1 ns + 1e-3 slack)
            for i in range(j - 1, -1, -1):
                need = (j - i) * iv
                if (tj - a[i]) + TOL_NS + 1e-3 < need:
                    return [(f"{self.cls}/bound/spacing",
                             f"admitted at {a[i]}ns and {tj}ns ({j - i} interval(s) apart in admission order): "
                             f"spacing {tj - a[i]}ns < {need}ns = {j - i} x 1/rate")]
        elif k == "sliding":
            w, n = int(sp[1] * S), sp[2]  # the window in whole ns, as Instant arithmetic truncates it
            for i in range(j - n, -1, -1):
                if tj - a[i] < w:
                    return [(f"{self.cls}/bound/window",
                             f"{j - i + 1} requests admitted in [{a[i]}ns, {tj}ns] (length {tj - a[i]}ns "
                             f"< window {w}ns); max_requests={n}")]
        elif k == "fixed":
            n, w = sp[1], int(sp[2] * S)
            if self.dyadic:
                same = [x for x in a if x // w == tj // w]
                if len(same) > n:
                    return [(f"{self.cls}/bound/aligned-window",
                             f"{len(same)} requests admitted in the aligned window "
                             f"[{(tj // w) * w}ns, {(tj // w + 1) * w}ns): {same}; requests_per_window={n}")]
            else:
                # non-dyadic W: which window a boundary instant belongs to is a float-rounding question;
                # only alignment-free consequences are checked: one instant lies in one window, and more
                # than 2N requests need three windows, i.e. a span of at least W - 1 ns
                same = [x for x in a if x == tj]
                if len(same) > n:
                    return [(f"{self.cls}/bound/same-instant",
                             f"{len(same)} requests admitted at the single instant {tj}ns; "
                             f"requests_per_window={n}")]
                w -= 1
            for i in range(j - 2 * n, -1, -1):
                if tj - a[i] < w:
                    return [(f"{self.cls}/bound/window-length",
                             f"{j - i + 1} requests admitted in [{a[i]}ns, {tj}ns] (shorter than one window "
                             f"{w}ns); 2 x requests_per_window={2 * n}")]
        elif k == "adaptive":
            wsz = sp[6]
            for i in range(j, -1, -1):
                ti = a[i]
                # rates in force over the closed time interval [ti, tj], including the rate
                # that held immediately before ti (left limit)
                rmax = None
                left = None
                for (t, r) in self.rates:
                    if t < ti:
                        left = r
                    elif t <= tj:
                        rmax = r if rmax is None or r > rmax else rmax
                if left is not None and (rmax is None or left > rmax):
                    rmax = left
                cnt = j - i + 1
                lim = rmax * wsz + rmax * (tj - ti) / S
                if cnt > lim + TOL_TOKENS:
                    shape = "burst" if tj == ti else "interval"
                    if self.decreased_before_first_acquire:
                        shape += "-stale-initial-tokens"  # rate lowered before the first acquire
                    elif self.decreased:
                        shape += "-after-rate-decrease"
                    return [(f"{self.cls}/bound/{shape}",
                             f"{cnt} requests admitted in [{ti}ns, {tj}ns]; largest rate in force over the "
                             f"interval = {rmax}/s, bucket bound = {rmax} x {wsz} + {rmax} x {(tj - ti) / S}s = {lim}")]
        return []


# ---------------------------------------------------------------------------
# DFS over all non-decreasing op sequences
# ---------------------------------------------------------------------------
def _policy_job(job):
    (spec, dyadic, grid, depth, mode, kinds, first) = job
    st = {"exec": 0, "calls": 0, "nontriv": 0, "states": set(), "outcomes": set(), "viol": {},
          "samples": [], "maxwaits": 0}

    def visit(parent, kind, gi, d):
        r = parent.clone()
        v = r.step(kind, grid[gi])
        st["exec"] += 1
        st["calls"] += r.calls
        st["states"].add(hash((canon(r.policy), grid[gi])))
        st["outcomes"].add(hash(tuple(r.results)))
        if r.denied and r.admitted:
            st["nontriv"] += 1
        for fp, desc in v:
            if fp not in st["viol"]:
                st["viol"][fp] = (desc, {"driver": "policy", "spec": list(spec), "dyadic": dyadic,
                                         "mode": mode, "ops": list(r.ops)})
        if not st["samples"] and d == depth and r.denied and len(r.admitted) > 1:
            st["samples"].append({"spec": list(spec), "mode": mode, "ops": list(r.ops),
                                  "results": list(r.results)})
        if d < depth:
            for g2 in range(gi, len(grid)):
                for k2 in kinds:
                    visit(r, k2, g2, d + 1)

    root = PolicyRunner(spec, dyadic, mode)
    visit(root, first[0], first[1], 1)
    st["states"] = list(st["states"])
    st["outcomes"] = list(st["outcomes"])
    return st


def run_policy_sequence(spec, dyadic, mode, ops, verbose=False):
    """From-scratch execution of one op sequence (replay / confirmation)."""
    r = PolicyRunner(tuple(spec), dyadic, mode)
    viol = []
    for (kind, t) in ops:
        v = r.step(kind, t)
        if verbose:
            res = r.results[-1]
            what = {"acq": "try_acquire", "succ": "record_success", "fail": "record_failure",
                    "tua": "time_until_available"}.get(kind) or f"record_failure({kind[5:]})"
            extra = f" current_rate={r.policy.current_rate}" if r.rates is not None else ""
            print(f"  t={t:>12}ns {what:<15} -> {res}{extra}   admitted so far: {r.admitted}")
            for fp, desc in v:
                print(f"     !! {fp}: {desc}")
        viol.extend(v)
    return r, viol


# (spec, halves for the grid, depth quick, depth thorough)
DYADIC_SPECS = [
    (("token", 1.0, 1.0, None), (0, 1, 2, 3, 4), 6, 8),
    (("token", 2.0, 2.0, None), (0, 1, 2, 3, 4), 6, 8),
    (("token", 2.0, 0.5, 0.0), (0, 1, 2, 3), 6, 8),
    (("token", 1.5, 4.0, None), (0, 1, 2, 3, 5), 6, 8),
    (("leaky", 1.0), (0, 1, 2, 3, 4), 6, 8),
    (("leaky", 4.0), (0, 1, 2, 4, 6), 6, 8),
    (("sliding", 1.0, 1), (0, 1, 2, 3, 4), 6, 8),
    (("sliding", 1.0, 2), (0, 1, 2, 3, 4), 6, 8),
    (("sliding", 0.5, 3), (0, 1, 2, 3, 4), 6, 8),
    (("fixed", 1, 1.0), (0, 1, 2, 3, 4), 6, 8),
    (("fixed", 2, 0.5), (0, 1, 2, 3, 4), 6, 8),
    (("fixed", 2, 2.0), (1, 2, 3, 4), 6, 8),
]
ADAPTIVE_SPECS = [
    (("adaptive", 2.0, 1.0, 4.0, 1.0, 0.5, 1.0), (0, 1, 2), 5, 6),
    (("adaptive", 2.0, 1.0, 4.0, 2.0, 0.5, 1.0), (0, 1, 3), 5, 5),
    (("adaptive", 4.0, 2.0, 4.0, 1.0, 0.25, 0.5), (0, 1, 2), 5, 5),
]
NONDYADIC_SPECS = [
    (("token", 1.0, 3.0, None), (0, 1, 2, 3), 5, 7),
    (("token", 2.0, 10.0, 0.0), (0, 1, 2, 3), 5, 7),
    (("leaky", 3.0), (0, 1, 2, 3), 5, 7),
    (("leaky", 10.0), (0, 1, 2, 6), 5, 7),
    (("sliding", 0.1, 1), (0, 1, 2, 6), 5, 7),
    (("sliding", 0.3, 2), (0, 1, 2, 3), 5, 7),
    (("fixed", 1, 0.1), (0, 2, 5, 6, 7), 5, 7),
    (("fixed", 2, 0.3), (0, 1, 2, 4), 5, 7),
    # constants whose nanosecond value has a float fractional part >= 0.5 (int(x*1e9) != round(x*1e9)):
    # truncating and rounding code paths disagree by 1 ns on these
    (("fixed", 1, 1.001), (0, 1, 2, 4), 5, 7),
    (("fixed", 2, 1.003), (0, 2, 3, 4), 5, 7),
    (("sliding", 1.001, 1), (0, 1, 2, 4), 5, 7),
    (("sliding", 1.007, 2), (0, 2, 3, 4), 5, 7),
    (("token", 1.0, 1.5, None), (0, 1, 2, 4), 5, 7),
    (("token", 2.0, 1.0 / 1.001, 0.0), (0, 2, 3, 4), 5, 7),
    (("leaky", 7.0), (0, 1, 2, 4), 5, 7),
    (("leaky", 1.0 / 1.001), (0, 2, 3, 4), 5, 7),
    (("adaptive", 3.0, 1.0, 10.0, None, 0.5, 1.0), (0, 1, 2), 4, 5),
    (("adaptive", 20.0, 10.0, 100.0, None, 0.7, 0.1), (0, 1, 2), 4, 5),
]


def run_policy_driver(run, name, table, dyadic, tier, seed, modes, eps=(-1, 0, 1)):
    t0 = time.time()
    jobs = []
    bounds = {"specs": [], "modes": modes,
              "mode_meaning": "plain: try_acquire only; probed: the policy itself is asked time_until_available "
                              "before every try_acquire; queries: bare time_until_available calls are ops of the "
                              f"alphabet (sequences {QUERIES_SHORTER[tier]} ops shorter)", "grid": "k/2 x (1/rate | W) for k in halves, each +eps ns",
              "eps_ns": list(eps),
              "interval_bounds": ("exact (aligned fixed windows)" if dyadic else
                                  "with 1e-6 token / 1 ns slack; fixed window: alignment-free clauses only"),
              "tolerance": f"{TOL_TOKENS} tokens / {TOL_NS} ns", "max_waits": MAX_WAITS}
    for (spec, halves, dq, dt) in table:
        depth = dq if tier == "quick" else dt
        grid = make_grid(spec, halves, eps)
        base_kinds = ("acq", "succ", "fail") if spec[0] == "adaptive" else ("acq",)
        bounds["specs"].append({"spec": list(spec), "grid_ns": grid, "max_len": depth, "ops": list(base_kinds)})
        for mode in modes:
            kinds, dm = base_kinds, depth
            g = grid
            if mode == "queries":
                kinds, dm = base_kinds + ("tua",), max(1, depth - QUERIES_SHORTER[tier])
            if mode == "reasons":
                # feedback alphabet = record_success + record_failure with the default reason and with
                # EVERY member of the reason enum; coarser grid (no +-1 ns), one op shorter
                kinds = ("acq", "succ", "fail") + tuple(f"fail:{r.name}" for r in RateAdjustmentReason)
                dm = max(1, depth - 1)
                g = make_grid(spec, halves, (0,))
                bounds.setdefault("reasons_mode", {"failure_reasons": ["<default>"] + [r.name for r in RateAdjustmentReason],
                                                   "grid_eps_ns": [0], "max_len": "max_len - 1"})
            for gi in range(len(g)):
                for k in kinds:
                    jobs.append((spec, dyadic, g, dm, mode, kinds, (k, gi)))
    d = run.driver(name, bounds)
    states, outcomes = set(), set()
    found = {}
    for st in pmap(_policy_job, rotate(jobs, seed)):
        d.executions += st["exec"]
        d.transitions += st["calls"]
        d.nontrivial += st["nontriv"]
        states.update(st["states"])
        outcomes.update(st["outcomes"])
        for fp, (desc, rep) in st["viol"].items():
            if fp not in found or len(rep["ops"]) < len(found[fp][1]["ops"]):
                found[fp] = (desc, rep)
        if len(d.samples) < 3:
            d.samples.extend(st["samples"])
    for fp, (desc, rep) in sorted(found.items()):
        # confirm from the replay data, without the explorer
        _r, v = run_policy_sequence(rep["spec"], rep["dyadic"], rep["mode"], rep["ops"])
        if fp not in [x[0] for x in v]:
            raise RuntimeError(f"violation {fp} did not reproduce from its replay data: {rep}")
        run.violation(fp, desc, rep)
    d.states = len(states)
    d.outcomes = len(outcomes)
    d.wall_s = time.time() - t0


# ---------------------------------------------------------------------------
# driver 2: limiter entities inside a real Simulation
# ---------------------------------------------------------------------------
#  ("rle", policy_spec) | ("inductor", tau) | ("null",) | ("dist", limit, window_s)
ENTITY_COMPONENT = {"rle": "RateLimitedEntity", "inductor": "Inductor", "null": "NullRateLimiter",
                    "dist": "DistributedRateLimiter"}


def build_limiter(ekind, cap, sink):
    k = ekind[0]
    if k == "rle":
        return RateLimitedEntity("lim", downstream=sink, policy=make_policy(tuple(ekind[1])),
                                 queue_capacity=cap), None
    if k == "inductor":
        return Inductor("lim", downstream=sink, time_constant=ekind[1], queue_capacity=cap), None
    if k == "null":
        return NullRateLimiter("lim", downstream=sink), None
    if k == "dist":
        from happysimulator.components.datastore import KVStore
        store = KVStore(name="store", read_latency=0.0, write_latency=0.0)
        return DistributedRateLimiter("lim", downstream=sink, backing_store=store,
                                      global_limit=ekind[1], window_size=ekind[2]), store
    raise AssertionError(ekind)


def run_entity(ekind, cap, arrivals, horizon_ns):
    """arrivals: list of (t_ns, hops) — created in list order, before the run."""
    sinklog = []
    sink = Rec("sink", sinklog)
    lim, store = build_limiter(ekind, cap, sink)
    h1 = Fwd("h1", lim)
    h2b = Fwd("h2b", lim)
    h2a = Fwd("h2a", h2b)
    ents = [lim, sink, h1, h2a, h2b] + ([store] if store is not None else [])
    sim = Simulation(entities=ents, end_time=Instant(horizon_ns))
    entry = {0: lim, 1: h1, 2: h2a}
    sim.schedule([Event(time=Instant(t), event_type="req", target=entry[h],
                        context={"metadata": {"tag": i}})
                  for i, (t, h) in enumerate(arrivals)])
    arrived = []  # (now_ns, tag)
    internal = []  # ns of limiter-internal events (polls)

    def on_event(ev):
        if ev.target is lim:
            if hasattr(ev, "process"):
                return  # generator continuation of a request already counted
            tag = ev.context.get("metadata", {}).get("tag") if ev.event_type == "req" else None
            if tag is not None:
                arrived.append((ev.time.nanoseconds, tag))
            else:
                internal.append(ev.time.nanoseconds)

    res = run_guarded(sim, max_events=4000, storm=150, on_event=on_event)
    obs = {"arrived": arrived, "sink": list(sinklog), "internal": internal, "outcome": res["outcome"],
           "storm_at": res["storm_at"], "events": res["events"]}
    stats = getattr(lim, "stats", None)
    k = ekind[0]
    if k in ("rle", "inductor"):
        obs["received"], obs["forwarded"] = stats.received, stats.forwarded
        obs["dropped"], obs["queued_total"] = stats.dropped, stats.queued
        obs["queue_depth"] = lim.queue_depth
        if k == "inductor":
            obs["estimated_rate"] = lim.estimated_rate
    elif k == "dist":
        obs["received"], obs["forwarded"] = stats.requests_received, stats.requests_forwarded
        obs["dropped"], obs["queued_total"], obs["queue_depth"] = stats.requests_dropped, 0, 0
    else:
        obs["received"] = obs["forwarded"] = None
        obs["dropped"], obs["queued_total"], obs["queue_depth"] = 0, 0, 0
    return obs


def entity_oracle(ekind, cap, arrivals, obs, dyadic=True):
    comp = ENTITY_COMPONENT[ekind[0]]
    out = []
    arr_tags = [tag for (_t, tag) in obs["arrived"]]
    fwd_tags = [tag for (_t, _ty, tag) in obs["sink"]]
    # the drain never stalls: no frozen clock, queue empty at the horizon
    if obs["outcome"] == "storm":
        shape = "frozen-clock"
        if ekind[0] == "rle":
            shape += "/" + CLASSNAME[ekind[1][0]] + ("" if dyadic else "-non-dyadic")
        if ekind[0] == "inductor" and obs.get("estimated_rate", 0.0) > 1e9:
            shape += "/sub-ns-interval"
        out.append((f"{comp}/stall/{shape}",
                    f"more than 150 deliveries at {obs['storm_at']}ns: the drain re-polls at a frozen clock"))
        return out
    if obs["outcome"] == "horizon":
        out.append((f"{comp}/stall/event-horizon", f"{obs['events']} events without finishing"))
        return out
    # exactly once
    seen = set()
    for tag in fwd_tags:
        if tag in seen:
            out.append((f"{comp}/dup/forwarded-twice", f"request #{tag} reached downstream twice: {fwd_tags}"))
            break
        seen.add(tag)
    if any(tag not in arr_tags for tag in fwd_tags):
        out.append((f"{comp}/dup/forwarded-unknown", f"downstream saw {fwd_tags}, arrived {arr_tags}"))
    n_arr, n_fwd = len(arr_tags), len(seen)
    accounted = n_fwd + obs["dropped"] + obs["queue_depth"]
    if accounted < n_arr:
        out.append((f"{comp}/lost/unaccounted",
                    f"{n_arr} requests arrived; {n_fwd} forwarded + {obs['dropped']} dropped + "
                    f"{obs['queue_depth']} still queued = {accounted}"))
    elif accounted > n_arr and not out:
        out.append((f"{comp}/dup/accounted-twice",
                    f"{n_arr} requests arrived; {n_fwd} forwarded + {obs['dropped']} dropped + "
                    f"{obs['queue_depth']} still queued = {accounted}"))
    # counters agree with what the harness saw
    if obs["received"] is not None:
        if obs["received"] != n_arr:
            out.append((f"{comp}/counters/received", f"stats received={obs['received']}, arrived {n_arr}"))
        if obs["forwarded"] != len(fwd_tags):
            out.append((f"{comp}/counters/forwarded",
                        f"stats forwarded={obs['forwarded']}, downstream saw {len(fwd_tags)}"))
    # forwarded in arrival order
    pos = {tag: i for i, tag in enumerate(arr_tags)}
    fpos = [pos[tag] for tag in fwd_tags if tag in pos]
    for a, b in zip(fpos, fpos[1:]):
        if b < a:
            ta, tb = arr_tags[a], arr_tags[b]
            t_over = dict((tag, t) for t, tag in obs["arrived"])[ta]
            t_fwd = dict((tag, t) for t, _ty, tag in obs["sink"])[ta]
            # the overtaker went straight through at its arrival instant / had itself been waiting
            shape = "arrival-overtakes-queued" if t_fwd == t_over else "queue-reordered"
            out.append((f"{comp}/order/{shape}",
                        f"request #{ta} (arrived {a + 1}th, at {t_over}ns) was forwarded before request #{tb} "
                        f"(arrived {b + 1}th); arrival order {arr_tags}, forwarded order {fwd_tags}"))
            break
    # drain: every queued request is forwarded by the horizon
    if obs["queue_depth"] > 0:
        out.append((f"{comp}/stall/queue-not-drained",
                    f"{obs['queue_depth']} request(s) still queued at the horizon; forwarded {obs['sink']}"))
    # forwarded times respect the wrapped policy's bound (dyadic policies only)
    if ekind[0] == "rle" and not out:
        chk = PolicyRunner(tuple(ekind[1]), dyadic)
        if chk.kind != "adaptive":
            for (t, _ty, _tag) in obs["sink"]:
                chk.admitted.append(t)
                v = chk.check_bound()
                if v:
                    fp, desc = v[0]
                    out.append((f"{comp}/bound/{fp.split('/', 1)[1].replace('bound/', '')}",
                                f"forwarded times {[s[0] for s in obs['sink']]}: {desc}"))
                    break
    return out


def _multisets(symbols, n, start=0):
    if n == 0:
        yield ()
        return
    for i in range(start, len(symbols)):
        for rest in _multisets(symbols, n - 1, i):
            yield (symbols[i],) + rest


def _entity_job(job):
    (ekind, cap, symbols, nmax, first, horizon, dyadic) = job
    st = {"exec": 0, "trans": 0, "nontriv": 0, "ties": 0, "outcomes": set(), "viol": {}, "samples": [],
          "dist_over": 0}
    for n in range(1, nmax + 1):
        for rest in _multisets(symbols, n - 1, first):
            arrivals = (symbols[first],) + rest
            obs = run_entity(ekind, cap, arrivals, horizon)
            st["exec"] += 1
            st["trans"] += obs["events"]
            st["outcomes"].add(hash((tuple(obs["sink"]), obs["dropped"], obs["queue_depth"], obs["outcome"])))
            limited = obs["queued_total"] > 0 or obs["dropped"] > 0
            if limited:
                st["nontriv"] += 1
            tie = bool(set(obs["internal"]) & {t for t, _ in obs["arrived"]})
            if tie:
                st["ties"] += 1
            if ekind[0] == "dist":
                w = round(ekind[2] * S)
                per = {}
                for (t, _ty, _tag) in obs["sink"]:
                    per[t // w] = per.get(t // w, 0) + 1
                if any(c > ekind[1] for c in per.values()):
                    st["dist_over"] += 1
            for fp, desc in entity_oracle(ekind, cap, arrivals, obs, dyadic):
                if fp not in st["viol"] or len(arrivals) < len(st["viol"][fp][1]["arrivals"]):
                    st["viol"][fp] = (desc, {"driver": "entity", "ekind": ekind, "cap": cap,
                                             "arrivals": list(arrivals), "horizon_ns": horizon,
                                             "dyadic": dyadic})
            if not st["samples"] and tie and limited and n == nmax:
                st["samples"].append({"ekind": ekind, "cap": cap, "arrivals": list(arrivals),
                                      "arrived": obs["arrived"], "forwarded": obs["sink"],
                                      "dropped": obs["dropped"], "queue_depth": obs["queue_depth"]})
    st["outcomes"] = list(st["outcomes"])
    return st


ENTITY_KINDS_DYADIC = [
    ("rle", ("token", 1.0, 1.0, None)),
    ("rle", ("token", 2.0, 2.0, 0.0)),
    ("rle", ("leaky", 1.0)),
    ("rle", ("sliding", 1.0, 1)),
    ("rle", ("fixed", 1, 1.0)),
    ("rle", ("adaptive", 1.0, 1.0, 1.0, 1.0, 0.5, 1.0)),
    ("inductor", 1.0),
    ("null",),
    ("dist", 1, 1.0),
    ("dist", 2, 1.0),
]
ENTITY_TIMES = [0, S // 2, S - 1, S, S + 1, 2 * S]
ENTITY_TIMES_THOROUGH = [0, S // 2, S - 1, S, S + 1, 3 * S // 2, 2 * S]
# limiters whose policy frees MORE THAN ONE slot at one instant (window rollover with N >= 2, several
# sliding-window entries expiring together, a bucket refilled to >= 2 tokens): the drain must continue at
# that instant / afterwards until the queue is empty.  Driven with bursts of up to 2N+2 requests.
ENTITY_KINDS_BURST = [
    ("rle", ("fixed", 2, 1.0)),
    ("rle", ("fixed", 3, 1.0)),
    ("rle", ("sliding", 1.0, 2)),
    ("rle", ("sliding", 1.0, 3)),
    ("rle", ("token", 2.0, 2.0, None)),
    ("rle", ("token", 3.0, 4.0, None)),
]
# (time, hops): same-instant burst (created before / after same-instant internal events), ns-adjacent,
# and the rollover / poll instant itself
BURST_SYMBOLS = [(0, 0), (0, 1), (1, 0), (S, 0)]
BURST_SYMBOLS_THOROUGH = [(0, 0), (0, 1), (1, 0), (S // 2, 0), (S - 1, 0), (S, 0)]
ENTITY_KINDS_NONDYADIC = [
    ("rle", ("fixed", 1, 1.001)),
    ("rle", ("sliding", 1.001, 1)),
    ("rle", ("token", 1.0, 1.5, None)),
    ("rle", ("leaky", 7.0)),
    ("rle", ("fixed", 1, 0.1)),
    ("rle", ("token", 1.0, 3.0, None)),
    ("rle", ("sliding", 0.3, 1)),
    ("rle", ("leaky", 10.0)),
]
ENTITY_TIMES_ND = [0, S // 10, 3 * S // 10, 3 * S // 10 + 1, S // 3, 6 * S // 10, 1_000_999_999, 1_001_000_000]


def run_entity_driver(run, name, kinds, times, hops, caps, nmax, seed, horizon, dyadic=True, symbols=None):
    t0 = time.time()
    if symbols is None:
        symbols = [(t, h) for t in times for h in hops]
    else:
        times, hops = sorted({t for t, _h in symbols}), sorted({h for _t, h in symbols})
    d = run.driver(name, {"limiters": kinds, "arrival_times_ns": times, "hop_counts": list(hops),
                          "queue_capacities": list(caps), "max_requests": nmax,
                          "horizon_ns": horizon,
                          "arrivals": "all multisets of (time, hops); requests created pre-run in list order"})
    jobs = []
    for ek in kinds:
        for cap in (caps if ek[0] in ("rle", "inductor") else (0,)):
            for first in range(len(symbols)):
                jobs.append((ek, cap, symbols, nmax, first, horizon, dyadic))
    outcomes = set()
    found = {}
    ties = 0
    dist_over = 0
    for st in pmap(_entity_job, rotate(jobs, seed)):
        d.executions += st["exec"]
        d.transitions += st["trans"]
        d.nontrivial += st["nontriv"]
        ties += st["ties"]
        dist_over += st["dist_over"]
        outcomes.update(st["outcomes"])
        for fp, (desc, rep) in st["viol"].items():
            if fp not in found or len(rep["arrivals"]) < len(found[fp][1]["arrivals"]):
                found[fp] = (desc, rep)
        if len(d.samples) < 3:
            d.samples.extend(st["samples"])
    for fp, (desc, rep) in sorted(found.items()):
        obs = run_entity(rep["ekind"], rep["cap"], rep["arrivals"], rep["horizon_ns"])
        v = entity_oracle(rep["ekind"], rep["cap"], rep["arrivals"], obs, rep["dyadic"])
        if fp not in [x[0] for x in v]:
            raise RuntimeError(f"violation {fp} did not reproduce from its replay data: {rep}")
        run.violation(fp, desc, rep)
    d.states = len(outcomes)
    d.outcomes = len(outcomes)
    d.extra["executions_with_arrival_at_a_poll_instant"] = ties
    d.extra["observation_distributed_windows_over_global_limit"] = dist_over
    d.wall_s = time.time() - t0


# ---------------------------------------------------------------------------
def main(tier, seed, only=None):
    run = Run(PID, tier, seed, "model_checking",
              rule=("policy drivers: every non-decreasing op sequence (try_acquire at a grid time; for the "
                    "adaptive policy also record_success/record_failure) up to the stated length is applied to "
                    "the real policy object, every prefix being one execution; non-trivial = the sequence had "
                    "at least one admitted AND one denied request (the limiter limited); states = distinct "
                    "(policy attribute state, time) pairs; outcomes = distinct admit/deny patterns.  entity "
                    "driver: every multiset of (arrival time, hop count) requests x limiter x queue capacity is "
                    "one real Simulation run; non-trivial = at least one request was queued or dropped; "
                    "states/outcomes = distinct (forward log, dropped, queue depth) observations"),
              assumptions=["policies are called with non-decreasing times (simulated time is monotone)",
                           "interval bounds are exact for dyadic parameters (float arithmetic exact) and alignment-free "
                           "/ slack-only for non-dyadic ones; "
                           "tolerance 1e-6 tokens / 1 ns; fixed windows are aligned to multiples of W from t=0",
                           "adaptive bound uses the largest rate in force over the closed interval (including "
                           "the rate that held immediately before its start)",
                           "arrival order at a limiter = order in which the engine delivers request events to "
                           "it (control.on_event hook); forwarded order = order seen by the downstream recorder",
                           "DistributedRateLimiter: the statement gives no interval bound for it; only "
                           "exactly-once/order/counters are checked (over-limit windows are counted as an "
                           "observation, not a violation)"])
    modes = ["plain", "probed"]
    plan = [
        ("policy-dyadic", lambda: run_policy_driver(run, "policy-dyadic", DYADIC_SPECS, True, tier, seed,
                                                    modes + ["queries"])),
        ("policy-adaptive", lambda: run_policy_driver(run, "policy-adaptive", ADAPTIVE_SPECS, True, tier, seed,
                                                      modes + ["reasons"], eps=(-1, 0, 1) if tier != "quick" else (0, 1))),
        ("policy-nondyadic", lambda: run_policy_driver(run, "policy-nondyadic", NONDYADIC_SPECS, False, tier,
                                                       seed, modes)),
        ("entity", lambda: run_entity_driver(run, "entity", ENTITY_KINDS_DYADIC,
                                             ENTITY_TIMES if tier == "quick" else ENTITY_TIMES_THOROUGH,
                                             (0, 1, 2), (0, 1, 2), 4 if tier == "quick" else 5, seed, 64 * S)),
        ("entity-burst", lambda: run_entity_driver(run, "entity-burst", ENTITY_KINDS_BURST, None, None, (3, 16),
                                                   8, seed, 64 * S,
                                                   symbols=BURST_SYMBOLS if tier == "quick"
                                                   else BURST_SYMBOLS_THOROUGH)),
        ("entity-nondyadic", lambda: run_entity_driver(run, "entity-nondyadic", ENTITY_KINDS_NONDYADIC,
                                                       ENTITY_TIMES_ND, (0, 1), (1, 2),
                                                       3 if tier == "quick" else 4, seed, 16 * S,
                                                       dyadic=False)),
    ]
    for name, fn in plan:
        if only and name not in only:
            continue
        fn()
    if only:
        run.notes.append(f"partial run: --only {sorted(only)}")
    return run.finish()


def replay(data):
    rep = data["replay"]

    def thaw(x):
        return tuple(thaw(i) for i in x) if isinstance(x, list) else x

    print(f"fingerprint: {data.get('fingerprint')}")
    if rep["driver"] == "policy":
        spec = thaw(rep["spec"])
        ops = [tuple(o) for o in rep["ops"]]
        print(f"policy {CLASSNAME[spec[0]]} spec={spec} mode={rep['mode']} dyadic={rep['dyadic']}")
        _r, v = run_policy_sequence(spec, rep["dyadic"], rep["mode"], ops, verbose=True)
        hit = [x for x in v if x[0] == data.get("fingerprint")] if data.get("fingerprint") else v
        return 1 if hit else 0
    ekind = thaw(rep["ekind"])
    arrivals = [tuple(a) for a in rep["arrivals"]]
    print(f"limiter {ekind} queue_capacity={rep['cap']} horizon={rep['horizon_ns']}ns")
    for i, (t, h) in enumerate(arrivals):
        print(f"  request #{i}: time={t}ns via {h} forwarding hop(s) (created pre-run, in this order)")
    obs = run_entity(ekind, rep["cap"], arrivals, rep["horizon_ns"])
    for (t, tag) in obs["arrived"]:
        print(f"  arrived   t={t:>12}ns  request #{tag}")
    print(f"  limiter-internal events (polls) at: {obs['internal'][:20]}")
    for (t, ty, tag) in obs["sink"]:
        print(f"  forwarded t={t:>12}ns  request #{tag} ({ty})")
    print(f"  dropped={obs['dropped']} still queued={obs['queue_depth']} run outcome={obs['outcome']}")
    v = entity_oracle(ekind, rep["cap"], arrivals, obs, rep.get("dyadic", True))
    for fp, desc in v:
        print(f"  !! {fp}: {desc}")
    hit = [x for x in v if x[0] == data.get("fingerprint")] if data.get("fingerprint") else v
    return 1 if hit else 0

"""C03 worker — runs catalogue models under ONE environment answer, in its own interpreter.

Usage:  python c03_worker.py '<json spec>'

spec = {
  "clock": "real" | "warp",        # warp: time.* shifted +10 years and running 1000x faster
  "prior": "none" | "busy",        # busy: three unrelated simulations + ~10k events first,
                                   #       and the catalogue is walked in reverse order
                                   # none: the catalogue in order in this process
  "fresh": null | {"seeds": [...], "par": 4},  # before anything else: every model in a forked child
                                   # of the still pristine interpreter (rows labelled prior="fresh")
  "seeds": [1, 2, 7],
  "models": null | [names],        # null = whole catalogue
  "reps": 1 | 2,                   # run every (model, seed) this many times back to back
  "dump": null | [model, seed, prior],  # print the full delivery log + stats of that run and stop
}
PYTHONHASHSEED is set by the parent in the process environment (it can only be
chosen at interpreter start).  One JSON line per executed (model, seed, rep) on stdout.
"""
from __future__ import annotations

import json
import os
import sys

SPEC = json.loads(sys.argv[1]) if len(sys.argv) > 1 else {}

# ---------------------------------------------------------------------------
# environment answer "wall clock": must be owned BEFORE the library is imported
# ---------------------------------------------------------------------------
import time as _time  # noqa: E402

COUPLING = {"wall_clock": 0, "uuid": 0, "module_random": 0, "numpy_random": 0, "builtin_hash": 0}
_COUNT_ON = [False]


def _install_clock(mode: str) -> None:
    shift = 10 * 365 * 86400.0 if mode == "warp" else 0.0
    speed = 1000.0 if mode == "warp" else 1.0
    real = {n: getattr(_time, n) for n in
            ("time", "monotonic", "perf_counter", "time_ns", "monotonic_ns", "perf_counter_ns")}
    base = {n: f() for n, f in real.items()}

    def mk(name, is_ns):
        f0, b0 = real[name], base[name]

        def clock():
            if _COUNT_ON[0]:
                COUPLING["wall_clock"] += 1
            v = b0 + (f0() - b0) * speed
            if is_ns:
                return int(v + shift * 1e9)
            return v + shift
        clock.__name__ = name
        return clock

    for n in real:
        setattr(_time, n, mk(n, n.endswith("_ns")))


_install_clock(SPEC.get("clock", "real"))

_repo = os.environ.get("VERIF_REPO")
if _repo:
    sys.path.insert(0, _repo)
_here = os.path.dirname(os.path.dirname(os.path.abspath(__file__)))
if _here not in sys.path:
    sys.path.insert(1 if _repo else 0, _here)

import builtins  # noqa: E402
import logging  # noqa: E402
import random  # noqa: E402
import uuid  # noqa: E402

logging.getLogger("happysimulator").setLevel(logging.CRITICAL)

# behaviour-preserving counters on the environment-coupled facilities (vacuity evidence only)
_real_uuid4 = uuid.uuid4


def _uuid4():
    if _COUNT_ON[0]:
        COUPLING["uuid"] += 1
    return _real_uuid4()


uuid.uuid4 = _uuid4

_real_hash = builtins.hash


def _hash(o):
    if _COUNT_ON[0] and isinstance(o, (str, bytes)):
        COUPLING["builtin_hash"] += 1
    return _real_hash(o)


builtins.hash = _hash


def _wrap_random_module():
    for fn in ("random", "uniform", "choice", "shuffle", "sample", "randint", "expovariate", "gauss",
               "choices", "randrange", "getrandbits", "normalvariate", "lognormvariate", "betavariate",
               "triangular", "paretovariate", "weibullvariate", "gammavariate"):
        real = getattr(random, fn)

        def w(*a, _real=real, **k):
            if _COUNT_ON[0]:
                COUPLING["module_random"] += 1
            return _real(*a, **k)
        w.__name__ = fn
        setattr(random, fn, w)


_wrap_random_module()

try:
    import numpy as np  # noqa: E402
    _np_random = np.random.random

    def _npr(*a, **k):
        if _COUNT_ON[0]:
            COUPLING["numpy_random"] += 1
        return _np_random(*a, **k)
    np.random.random = _npr
except Exception:  # pragma: no cover
    np = None



def _tree_fingerprint() -> str:
    """Digest of (path, size, mtime) of every source file of the library under test.  The parent
    only compares runs that saw the same tree: a commit landing in the repository while the
    matrix is running must not look like an environment dependence."""
    import hashlib
    import importlib.util
    root = None
    try:
        spec = importlib.util.find_spec("happysimulator")  # locates the package, does not import it
        if spec is not None and spec.submodule_search_locations:
            root = list(spec.submodule_search_locations)[0]
    except Exception:
        root = None
    if root is None:
        return "unknown"
    h = hashlib.blake2b(digest_size=8)
    for dirpath, dirnames, filenames in os.walk(root):
        dirnames[:] = sorted(d for d in dirnames if d != "__pycache__")
        for fn in sorted(filenames):
            if fn.endswith(".py"):
                st = os.stat(os.path.join(dirpath, fn))
                h.update(f"{os.path.relpath(os.path.join(dirpath, fn), root)}:{st.st_size}:{st.st_mtime_ns};".encode())
    return h.hexdigest()


TREE_BEFORE = _tree_fingerprint()
from props import c03_catalogue as cat  # noqa: E402
import happysimulator  # noqa: E402,F401  (everything the models need is imported by now)
TREE_AFTER = _tree_fingerprint()
TREE = TREE_BEFORE if TREE_BEFORE == TREE_AFTER else f"unstable:{TREE_BEFORE}:{TREE_AFTER}"


def prior_activity():
    """Environment answer "what ran earlier in this interpreter": three unrelated
    simulations (one left paused, one with generator processes, one random pipeline)
    and ~10k events created outside any simulation."""
    from happysimulator import (ConstantLatency, Entity, Event, ExponentialLatency, Instant, Server,
                                Simulation, Sink, Source)

    random.seed(987654321)
    if np is not None:
        np.random.seed(13579)
    # 1: random pipeline
    sink = Sink("p-sink")
    srv = Server("p-srv", concurrency=2, service_time=ExponentialLatency(0.02), downstream=sink)
    src = Source.poisson(rate=50.0, target=srv, stop_after=4.0, name="p-src")
    Simulation(sources=[src], entities=[srv, sink], end_time=Instant.from_seconds(6.0)).run()

    # 2: generator processes, left PAUSED in the middle (never resumed)
    class Gen(Entity):
        def handle_event(self, event):
            yield 0.25
            yield 0.25
            return [Event(time=self.now, event_type="again", target=self)] if self.now.to_seconds() < 30 else None

    g = Gen("p-gen")
    sim2 = Simulation(entities=[g])
    sim2.schedule(Event(time=Instant.from_seconds(0.5), event_type="go", target=g))
    sim2.control.on_event(lambda ev: sim2.control.pause() if ev.time.to_seconds() > 10 else None)
    sim2.run()

    # 3: constant-rate pipeline run through the fast loop
    sink3 = Sink("p-sink3")
    srv3 = Server("p-srv3", service_time=ConstantLatency(0.001), downstream=sink3)
    src3 = Source.constant(rate=200.0, target=srv3, stop_after=2.0, name="p-src3")
    Simulation(sources=[src3], entities=[srv3, sink3], end_time=Instant.from_seconds(3.0)).run()

    # ~10k events created with no simulation at all (advances the process-wide creation counter)
    for i in range(10_000):
        Event(time=Instant(i), event_type="noise", target=sink3)
    for _ in range(1000):
        random.random()
        uuid.uuid4()


# state of the global random / numpy generators that "earlier activity" leaves behind, per
# prior-activity answer (and per back-to-back run): owned by the harness so that the verdict is
# reproducible; only models whose components are all explicitly seeded are exposed to it
AMBIENT = {"fresh": 1, "exec-fresh": 2, "none": 3, "busy": 4}


def run_pass(names, seeds, reps, dump, prior_label):
    """Run every (seed, model) ``reps`` times back to back in THIS process."""
    out = sys.stdout
    for seed in seeds:
        for name in names:
            for rep in range(reps):
                for k in COUPLING:
                    COUPLING[k] = 0
                _COUNT_ON[0] = True
                try:
                    res = cat.run_model(name, seed, full=bool(dump and dump[:3] == [name, seed, prior_label]),
                                        ambient=AMBIENT.get(prior_label, 7) * 10 + rep)
                finally:
                    _COUNT_ON[0] = False
                res.update({"model": name, "seed": seed, "rep": rep, "prior": prior_label,
                            "coupling": dict(COUPLING), "tree": TREE})
                out.write(json.dumps(res) + "\n")
                out.flush()
            if dump and dump[:3] == [name, seed, prior_label]:
                return True  # confirmation / replay run: everything up to the dumped run has been executed
    return False


def fresh_pass(names, seeds, reps, dump, par=4):
    """Prior activity "nothing": each model runs in a forked child of this still pristine
    interpreter (library imported, nothing built or run yet) — the state a fresh process has.
    Up to ``par`` children at a time; each row is written with one write() (< PIPE_BUF)."""
    todo = [n for n in names if not dump or (dump[0] == n and dump[2] == "fresh")]
    live = {}
    while todo or live:
        while todo and len(live) < (1 if dump else par):
            name = todo.pop(0)
            sys.stdout.flush()
            pid = os.fork()
            if pid == 0:
                code = 0
                try:
                    run_pass([name], seeds, reps, dump, "fresh")
                    sys.stdout.flush()
                except BaseException:  # pragma: no cover
                    code = 3
                os._exit(code)
            live[pid] = name
        pid, _st = os.wait()
        live.pop(pid, None)


def main():
    seeds = SPEC.get("seeds", [1])
    names = SPEC.get("models") or list(cat.MODELS)
    reps = int(SPEC.get("reps", 1))
    dump = SPEC.get("dump")
    prior = SPEC.get("prior", "none")
    if prior == "busy":
        prior_activity()
        run_pass(list(reversed(names)), list(reversed(seeds)), reps, dump, "busy")
        return
    fresh = SPEC.get("fresh")
    if fresh and not (dump and dump[2] != "fresh"):  # dump of a later pass: skip this one
        fresh_pass(names, fresh.get("seeds") or seeds, reps, dump, par=int(fresh.get("par", 4)))
        if dump:
            return
    # prior activity of model k = the catalogue models before it (and every earlier seed pass)
    run_pass(names, seeds, reps, dump, SPEC.get("label", "none"))


if __name__ == "__main__":
    main()

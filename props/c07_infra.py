"""C07 registry: deployment (AutoScaler x policies, CanaryDeployer x evaluators, RollingDeployer) and infrastructure
(CPUScheduler x policies, DiskIO x profiles, DNSResolver, GarbageCollector x strategies, PageCache, TCPConnection x
congestion controls)."""
from __future__ import annotations

from props.c07_core import Drv, Entity, P, PI, R

from happysimulator.components.deployment import (AutoScaler, CanaryDeployer, CanaryStage, ErrorRateEvaluator,
                                                  LatencyEvaluator, QueueDepthScaling, RollingDeployer, StepScaling,
                                                  TargetUtilization)
from happysimulator.components.infrastructure import (AIMD, BBR, HDD, SSD, ConcurrentGC, CPUScheduler, Cubic, DiskIO,
                                                      DNSRecord, DNSResolver, FairShare, GarbageCollector,
                                                      GenerationalGC, NVMe, PageCache, PriorityPreemptive,
                                                      StopTheWorld, TCPConnection)
from happysimulator.components.load_balancer import LoadBalancer
from happysimulator.components.server import Server


# ------------------------------------------------------------------------------------------ deployment
class _DeployBase(Drv):
    family = "deployment"

    def fleet(self, cfg, n=2):
        self.servers = [Server(f"v1-{j}", concurrency=1, service_time=cfg.lat(), downstream=self.h.out)
                        for j in range(n)]
        self.lb = LoadBalancer("lb", backends=list(self.servers))
        self.made = []

        def factory(name):
            s = Server(name, concurrency=1, service_time=cfg.lat(0.5), downstream=self.h.out)
            self.made.append(s)
            return s
        self.factory = factory

    def traffic(self, i):
        return [self.h.ev(self.lb, "request", {"metadata": {"i": i}})]


class _AutoScalerDrv(_DeployBase):
    ops = ("request",)

    def policy(self):
        return TargetUtilization(target=0.5)

    def build(self, cfg):
        self.fleet(cfg, n=1)
        cooldown, interval = PI(1.0, 0.5)
        self.asc = AutoScaler("autoscaler", load_balancer=self.lb, server_factory=self.factory, policy=self.policy(),
                              min_instances=1, max_instances=3, evaluation_interval=interval,
                              scale_out_cooldown=cooldown, scale_in_cooldown=cooldown)
        return [*self.servers, self.lb, self.asc]

    def init(self):
        return [self.asc.start()]

    def request(self, i, op):
        return self.traffic(i) + self.traffic(i)


class AutoScalerTargetUtilDrv(_AutoScalerDrv):
    covers = ("AutoScaler", "TargetUtilization")


class AutoScalerStepDrv(_AutoScalerDrv):
    covers = ("AutoScaler", "StepScaling")

    def policy(self):
        return StepScaling(steps=[(0.5, 1), (0.9, 2), (0.0, -1)])


class AutoScalerQueueDepthDrv(_AutoScalerDrv):
    covers = ("AutoScaler", "QueueDepthScaling")

    def policy(self):
        return QueueDepthScaling(scale_out_threshold=1, scale_in_threshold=0)


class _CanaryDrv(_DeployBase):
    ops = ("request", "deploy")
    concurrent = False

    def evaluator(self):
        return ErrorRateEvaluator(max_error_rate=0.5, threshold_multiplier=2.0)

    def build(self, cfg):
        self.fleet(cfg, n=2)
        period, interval = PI(1.0, 0.5)
        self.cd = CanaryDeployer("canary", load_balancer=self.lb, server_factory=self.factory,
                                 stages=[CanaryStage(0.25, period), CanaryStage(1.0, period)],
                                 metric_evaluator=self.evaluator(), evaluation_interval=interval)
        return [*self.servers, self.lb, self.cd]

    def request(self, i, op):
        # one deployment at a time (a second deploy() while one is in progress is not a workload the deployer accepts;
        # the concurrent-deploy patterns live in CanaryDeployerConcurrentDeploysDrv)
        idle = (self.cd.state.status in ("idle", "completed", "rolled_back")
                and self.cd.stats.deployments_started == getattr(self, "issued", 0))
        if op == "deploy" and (self.concurrent or idle):
            self.issued = getattr(self, "issued", 0) + 1
            return [self.cd.deploy()]
        return self.traffic(i)


class CanaryDeployerErrorRateDrv(_CanaryDrv):
    covers = ("CanaryDeployer", "CanaryStage", "ErrorRateEvaluator")


class CanaryDeployerLatencyDrv(_CanaryDrv):
    """Latency evaluator with a threshold the canary cannot meet once it has served traffic -> rollback path."""
    covers = ("CanaryDeployer", "LatencyEvaluator")

    def evaluator(self):
        return LatencyEvaluator(max_latency=0.1, threshold_multiplier=0.25)


class CanaryDeployerConcurrentDeploysDrv(_CanaryDrv):
    """Minority of contended patterns: deploy() issued again while a deployment is in progress / at the same instant."""
    covers = ("CanaryDeployer",)
    ops = ("deploy",)
    concurrent = True
    cfgs = ("zero", "eq")


class _SickServer(Entity):
    """A replacement instance that never answers health probes (deployment must time out / roll back)."""

    def handle_event(self, event):
        return self._hang()

    def _hang(self):
        yield 100.0
        return None


class RollingDeployerDrv(_DeployBase):
    covers = ("RollingDeployer",)
    ops = ("request", "deploy")
    sick = False
    batch = 1
    max_failures = 1

    def build(self, cfg):
        self.fleet(cfg, n=2)
        factory = self.factory
        if self.sick:
            def factory(name, _n=[0]):
                _n[0] += 1
                return _SickServer(name) if _n[0] == 2 else self.factory(name)
        self.rd = RollingDeployer("rolling", load_balancer=self.lb, server_factory=factory, batch_size=self.batch,
                                  health_check_interval=P(0.5), healthy_threshold=2, max_failures=self.max_failures)
        return [*self.servers, self.lb, self.rd]

    def request(self, i, op):
        idle = (self.rd.state.status != "in_progress"
                and self.rd.stats.deployments_started == getattr(self, "issued", 0))
        if op == "deploy" and idle:
            self.issued = getattr(self, "issued", 0) + 1
            return [self.rd.deploy()]
        return self.traffic(i)


class RollingDeployerSickInstanceDrv(RollingDeployerDrv):
    sick = True


class RollingDeployerBatchDrv(RollingDeployerDrv):
    """batch of two replacement instances probed together (mini round 6: one instance reaches its threshold
    while its batch peer has not answered yet)"""
    batch = 2


class RollingDeployerBatchSickPeerDrv(RollingDeployerDrv):
    """... and the peer never answers, with a failure budget that outlasts the healthy instance's second pass"""
    batch = 2
    sick = True
    max_failures = 3


# ------------------------------------------------------------------------------------------ infrastructure
class _CPUDrv(Drv):
    family = "infrastructure"
    ops = ("task", "task_high")

    def policy(self):
        return FairShare(quantum_s=P(0.25))

    def build(self, cfg):
        self.cpu = CPUScheduler("cpu", policy=self.policy(), context_switch_s=cfg.L / 8)
        return [self.cpu]

    def request(self, i, op):
        yield from self.cpu.execute(f"t{i}", cpu_time_s=self.cfg.L, priority=5 if op == "task_high" else 1)
        return None


class CPUSchedulerFairShareDrv(_CPUDrv):
    covers = ("CPUScheduler", "FairShare")


class CPUSchedulerPriorityDrv(_CPUDrv):
    covers = ("CPUScheduler", "PriorityPreemptive")

    def policy(self):
        return PriorityPreemptive(quantum_s=P(0.25))


class _DiskDrv(Drv):
    family = "infrastructure"
    ops = ("read", "write")

    def profile(self, cfg):
        raise NotImplementedError

    def build(self, cfg):
        self.disk = DiskIO("disk", profile=self.profile(cfg))
        return [self.disk]

    def request(self, i, op):
        if op == "read":
            yield from self.disk.read(4096)
        else:
            yield from self.disk.write(8192)
        return None


class DiskIOHDDDrv(_DiskDrv):
    covers = ("DiskIO", "HDD")

    def profile(self, cfg):
        return HDD(seek_time_s=cfg.L / 2, rotational_latency_s=cfg.L / 2)


class DiskIOSSDDrv(_DiskDrv):
    covers = ("DiskIO", "SSD")

    def profile(self, cfg):
        return SSD(base_read_latency_s=cfg.L, base_write_latency_s=cfg.L)


class DiskIONVMeDrv(_DiskDrv):
    covers = ("DiskIO", "NVMe")

    def profile(self, cfg):
        return NVMe(base_read_latency_s=cfg.L, base_write_latency_s=cfg.L, native_queue_depth=1)


class DNSResolverDrv(Drv):
    """TTL 0.75 s so cached entries expire between / inside request bursts; cache capacity 1 (LRU eviction)."""
    family = "infrastructure"
    covers = ("DNSResolver", "DNSRecord")
    ops = ("resolve", "resolve_other", "resolve_unknown")

    def build(self, cfg):
        self.dns = DNSResolver("dns", cache_capacity=1, root_latency_s=cfg.L / 4, tld_latency_s=cfg.L / 4,
                               auth_latency_s=cfg.L / 2,
                               records={"a.example": DNSRecord("a.example", "10.0.0.1", ttl_s=P(0.75)),
                                        "b.example": DNSRecord("b.example", "10.0.0.2", ttl_s=P(0.75))})
        return [self.dns]

    def request(self, i, op):
        host = {"resolve": "a.example", "resolve_other": "b.example", "resolve_unknown": "nope"}[op]
        yield from self.dns.resolve(host)
        yield P(1.0)
        yield from self.dns.resolve(host)
        return None


class _GCDrv(Drv):
    family = "infrastructure"
    ops = ("request",)

    def strategy(self, cfg):
        raise NotImplementedError

    def build(self, cfg):
        self.gc = GarbageCollector("gc", strategy=self.strategy(cfg), heap_pressure=0.8)
        return [self.gc]

    def init(self):
        return [self.gc.prime()]

    def request(self, i, op):
        yield from self.gc.pause()
        yield self.cfg.L
        return None


class GarbageCollectorSTWDrv(_GCDrv):
    covers = ("GarbageCollector", "StopTheWorld")

    def strategy(self, cfg):
        return StopTheWorld(base_pause_s=cfg.L, interval_s=P(1.0))


class GarbageCollectorConcurrentDrv(_GCDrv):
    covers = ("GarbageCollector", "ConcurrentGC")

    def strategy(self, cfg):
        return ConcurrentGC(pause_s=cfg.L / 2, interval_s=P(0.5))


class GarbageCollectorGenerationalDrv(_GCDrv):
    covers = ("GarbageCollector", "GenerationalGC")

    def strategy(self, cfg):
        return GenerationalGC(minor_pause_s=cfg.L / 4, major_pause_s=cfg.L, minor_interval_s=P(0.5),
                              major_threshold=0.75)


class PageCacheDrv(Drv):
    """2 pages, read-ahead 1, disk latencies L: misses, dirty evictions with write-back, flush."""
    family = "infrastructure"
    covers = ("PageCache",)
    ops = ("read", "write", "flush")

    def build(self, cfg):
        self.pc = PageCache("pagecache", capacity_pages=2, readahead_pages=1, disk_read_latency_s=cfg.L,
                            disk_write_latency_s=cfg.L)
        return [self.pc]

    def request(self, i, op):
        if op == "read":
            yield from self.pc.read_page(page_id=i)
            yield from self.pc.read_page(page_id=7)
        elif op == "write":
            yield from self.pc.write_page(page_id=i)
            yield from self.pc.write_page(page_id=7)
        else:
            yield from self.pc.flush()
        return None


class _TCPDrv(Drv):
    family = "infrastructure"
    ops = ("send", "send_big")
    cc = AIMD

    def build(self, cfg):
        self.tcp = TCPConnection("tcp", congestion_control=self.cc(), base_rtt_s=cfg.L, loss_rate=0.25,
                                 initial_cwnd=2.0, initial_ssthresh=4.0, retransmit_timeout_s=P(0.5))
        return [self.tcp]

    def request(self, i, op):
        yield from self.tcp.send(1460 * (2 if op == "send" else 9))
        return None


class TCPConnectionAIMDDrv(_TCPDrv):
    covers = ("TCPConnection", "AIMD")


class TCPConnectionCubicDrv(_TCPDrv):
    covers = ("TCPConnection", "Cubic")
    cc = Cubic


class TCPConnectionBBRDrv(_TCPDrv):
    covers = ("TCPConnection", "BBR")
    cc = BBR


DRIVERS = [AutoScalerTargetUtilDrv, AutoScalerStepDrv, AutoScalerQueueDepthDrv, CanaryDeployerErrorRateDrv,
           CanaryDeployerLatencyDrv, CanaryDeployerConcurrentDeploysDrv, RollingDeployerDrv, RollingDeployerSickInstanceDrv, RollingDeployerBatchDrv,
           RollingDeployerBatchSickPeerDrv, CPUSchedulerFairShareDrv,
           CPUSchedulerPriorityDrv, DiskIOHDDDrv, DiskIOSSDDrv, DiskIONVMeDrv, DNSResolverDrv,
           GarbageCollectorSTWDrv, GarbageCollectorConcurrentDrv, GarbageCollectorGenerationalDrv, PageCacheDrv,
           TCPConnectionAIMDDrv, TCPConnectionCubicDrv, TCPConnectionBBRDrv]

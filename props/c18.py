"""C18 — logical clocks respect causality; CRDT replicas converge to the specified value.

Three driver families, all bounded-exhaustive on the real implementation:

A  clock histories (props/c18_clocks.py)  every history of <= L steps among n nodes over {local, send,
   receive any in-flight message} on real LamportClock / VectorClock / HybridLogicalClock objects (the HLC
   over real NodeClock skew/drift models and one real Clock advanced by 0/1 tick per step);
   happened-before from the history's own graph; VectorClock.merge (the combined view) checked on every
   pair of event clocks, with clocks that know different node sets.
B  CRDT worlds (props/c18_crdt.py)        explicit-state BFS (mc/bfs.py) over 2-3 real replicas: local
   updates interleaved with merges in any direction (repeated, transitive), merges through
   to_dict/from_dict, and round trips; op-based specification with causal knowledge as the oracle; merge
   laws on deep copies of every reached world.
C  CRDTStore gossip (props/c18_store.py)  real Simulation + Network, peer-list topologies (mesh, one-way ring,
   star, one-way newcomer), owned random.choice; every store holds the value specified for the writes that the
   delivered gossip messages brought to it.
"""
from __future__ import annotations

import pickle
import time

from mc.bfs import bfs
from mc.bfs import replay as bfs_replay
from mc.evidence import Run
from mc.harness import pmap, rotate

from props import c18_clocks as CL
from props import c18_crdt as CR
from props import c18_store as ST

PID = "C18"

M4 = ("id", "+skew", "-skew", "fast")
M6 = ("id", "wall", "+skew", "-skew", "fast", "slow")


# ---------------------------------------------------------------------------
# configuration tables (bounds are stated here and copied into the evidence)
# ---------------------------------------------------------------------------
def clock_configs(tier):
    """[(driver, cfg, split_depth)]"""
    out = []
    if tier == "quick":
        out += [("lamport", dict(kind="lamport", n=2, L=7, variant=v), 1) for v in ((0, 0), (0, 3))]
        out += [("lamport", dict(kind="lamport", n=3, L=6, variant=(0, 2, 5)), 1)]
        out += [("lamport", dict(kind="lamport", n=3, L=7, variant=(0, 0, 0)), 2)]
        # vector clocks built knowing all ids / only their own / own + next / only the others
        out += [("vector", dict(kind="vector", n=2, L=7, variant=v), 2) for v in ("full", "self")]
        out += [("vector", dict(kind="vector", n=2, L=6, variant="others"), 1)]
        out += [("vector", dict(kind="vector", n=3, L=6, variant="partial"), 2)]
        out += [("vector", dict(kind="vector", n=3, L=5, variant=v), 1) for v in ("full", "self", "others")]
        # HLC, 2 nodes: all 16 ordered pairs of clock models; 7 steps for 2 of them, 6 steps for the rest;
        # the receive-timestamp modes alternate
        deep = [("id", "+skew"), ("fast", "-skew")]
        k = 0
        for a in M4:
            for b in M4:
                L = 7 if (a, b) in deep else 6
                out.append(("hlc", dict(kind="hlc", n=2, L=L, alphabet="sr", variant=((a, b), ("now", "last")[k % 2])),
                            2 if L == 7 else 1))
                k += 1
        for k, p in enumerate([("id", "+skew", "-skew"), ("fast", "-skew", "id")]):
            out.append(("hlc", dict(kind="hlc", n=3, L=5, alphabet="sr", variant=(p, ("last", "now")[k % 2])), 1))
        out.append(("hlc", dict(kind="hlc", n=2, L=5, alphabet="lsr", variant=(("-skew", "fast"), "now")), 1))
    else:
        out += [("lamport", dict(kind="lamport", n=2, L=9, variant=v), 2) for v in ((0, 0), (0, 3))]
        out += [("lamport", dict(kind="lamport", n=3, L=8, variant=(0, 2, 5)), 3)]
        out += [("lamport", dict(kind="lamport", n=3, L=7, variant=(0, 0, 0)), 2)]
        out += [("lamport", dict(kind="lamport", n=4, L=6, variant=(0, 0, 1, 3)), 2)]
        out += [("lamport", dict(kind="lamport", n=5, L=5, variant=(0, 0, 0, 0, 0)), 2)]
        out += [("vector", dict(kind="vector", n=2, L=9, variant="self"), 3)]
        out += [("vector", dict(kind="vector", n=2, L=8, variant=v), 2) for v in ("full", "others")]
        out += [("vector", dict(kind="vector", n=3, L=7, variant=v), 3) for v in ("self", "partial")]
        out += [("vector", dict(kind="vector", n=3, L=6, variant=v), 2) for v in ("full", "others")]
        out += [("vector", dict(kind="vector", n=4, L=6, variant="self"), 2)]
        out += [("vector", dict(kind="vector", n=4, L=5, variant="partial"), 2)]
        out += [("vector", dict(kind="vector", n=5, L=5, variant="full"), 2)]
        # HLC 2 nodes: all 16 ordered model pairs x both receive-timestamp modes at 7 steps, 4 pairs at 8 steps
        for a in M4:
            for b in M4:
                for mode in ("now", "last"):
                    out.append(("hlc", dict(kind="hlc", n=2, L=7, alphabet="sr", variant=((a, b), mode)), 2))
        for k, p in enumerate([("+skew", "id"), ("id", "-skew"), ("fast", "+skew"), ("-skew", "fast")]):
            out.append(("hlc", dict(kind="hlc", n=2, L=8, alphabet="sr", variant=(p, ("last", "now")[k % 2])), 3))
        for k, p in enumerate([("id", "+skew", "-skew"), ("fast", "-skew", "id"), ("+skew", "id", "fast"),
                               ("-skew", "fast", "+skew"), ("slow", "wall", "+skew"), ("id", "id", "id")]):
            out.append(("hlc", dict(kind="hlc", n=3, L=6, alphabet="sr", variant=(p, ("now", "last")[k % 2])), 2))
        for p in [("wall", "slow"), ("slow", "id"), ("-skew", "fast"), ("+skew", "wall")]:
            out.append(("hlc", dict(kind="hlc", n=2, L=6, alphabet="lsr", variant=(p, "now")), 2))
        out.append(("hlc", dict(kind="hlc", n=4, L=5, alphabet="sr",
                                variant=(("id", "+skew", "-skew", "fast"), "last")), 2))
    return out


def crdt_configs(tier):
    """[(driver, world kwargs, est. cost)]"""
    if tier == "quick":
        return [
            ("gcounter", dict(typ="GCounter", R=2, max_ops=5), 3),
            ("gcounter", dict(typ="GCounter", R=3, max_ops=3), 5),
            ("pncounter", dict(typ="PNCounter", R=2, max_ops=3), 3),
            ("pncounter", dict(typ="PNCounter", R=2, max_ops=4, amounts=(1,)), 6),
            ("pncounter", dict(typ="PNCounter", R=3, max_ops=3, amounts=(1,)), 12),
            ("lww", dict(typ="LWWRegister", R=2, max_ops=4), 1),
            ("lww", dict(typ="LWWRegister", R=3, max_ops=3), 16),
            ("orset", dict(typ="ORSet", R=2, max_ops=4, elements=("x", "y")), 16),
            ("orset", dict(typ="ORSet", R=3, max_ops=3, elements=("x",)), 9),
            ("orset-nonstr", dict(typ="ORSet", R=2, max_ops=3, elements=("x", 1)), 3),
        ]
    return [
        ("gcounter", dict(typ="GCounter", R=2, max_ops=7), 60),
        ("gcounter", dict(typ="GCounter", R=3, max_ops=4), 60),
        ("pncounter", dict(typ="PNCounter", R=2, max_ops=5), 120),
        ("pncounter", dict(typ="PNCounter", R=3, max_ops=4, amounts=(1,)), 200),
        ("lww", dict(typ="LWWRegister", R=2, max_ops=6), 20),
        ("lww", dict(typ="LWWRegister", R=3, max_ops=4), 200),
        ("orset", dict(typ="ORSet", R=2, max_ops=5, elements=("x", "y")), 300),
        ("orset", dict(typ="ORSet", R=2, max_ops=6, elements=("x",)), 60),
        ("orset", dict(typ="ORSet", R=3, max_ops=4, elements=("x",)), 120),
        ("orset", dict(typ="ORSet", R=3, max_ops=3, elements=("x", "y")), 100),
        ("orset-nonstr", dict(typ="ORSet", R=2, max_ops=4, elements=("x", 1)), 30),
        ("orset-nonstr", dict(typ="ORSet", R=3, max_ops=3, elements=(1,)), 30),
    ]


def store_configs(tier):
    """[(typ, n stores, max writes, deviation bound (None = all choice sequences), elements, peer-list topology)]"""
    if tier == "quick":
        out = [("GCounter", 2, 3, None, None, "mesh"), ("PNCounter", 2, 3, None, None, "mesh"),
               ("ORSet", 2, 3, None, ("x", "y"), "mesh"),
               ("GCounter", 3, 2, 2, None, "mesh"), ("GCounter", 3, 3, 0, None, "mesh"),
               ("PNCounter", 3, 2, 1, None, "mesh"),
               ("ORSet", 3, 2, 1, ("x", "y"), "mesh"), ("ORSet", 2, 2, None, (1, "x"), "mesh")]
        # asymmetric / sparse peer lists
        out += [("GCounter", 2, 3, None, None, t) for t in ("oneway", "oneway-rev")]
        out += [("GCounter", 3, 2, None, None, "ring"), ("ORSet", 3, 2, None, ("x", "y"), "ring"),
                ("PNCounter", 3, 2, None, None, "ring")]
        out += [("GCounter", 3, 2, 1, None, t) for t in ("star", "newcomer-out", "newcomer-in")]
        return out
    out = [("GCounter", 2, 4, None, None, "mesh"), ("PNCounter", 2, 4, None, None, "mesh"),
           ("ORSet", 2, 4, None, ("x", "y"), "mesh"),
           ("GCounter", 3, 2, 4, None, "mesh"), ("GCounter", 3, 3, 2, None, "mesh"),
           ("PNCounter", 3, 3, 2, None, "mesh"),
           ("ORSet", 3, 3, 2, ("x", "y"), "mesh"), ("ORSet", 2, 3, None, (1, "x"), "mesh"),
           ("ORSet", 3, 2, 1, (1, "x"), "mesh")]
    for typ, el in (("GCounter", None), ("PNCounter", None), ("ORSet", ("x", "y"))):
        out += [(typ, 2, 3, None, el, t) for t in ("oneway", "oneway-rev")]
        out += [(typ, 3, 3, None, el, "ring")]
        out += [(typ, 3, 2, 2, el, t) for t in ("star", "newcomer-out", "newcomer-in")]
    out += [("GCounter", 4, 2, None, None, "ring"), ("GCounter", 4, 2, 1, None, "star")]
    return out


# ---------------------------------------------------------------------------
# workers (top-level, picklable)
# ---------------------------------------------------------------------------
def _crdt_job(kw, max_states, max_seconds):
    stats = {"nontriv": 0, "values": set()}

    def on_state(_key, blob):
        w = pickle.loads(blob)
        if w.conflict():
            stats["nontriv"] += 1
        if len(stats["values"]) < 100_000:
            stats["values"].add(hash(tuple(repr(x.value) for x in w.reps)))

    res = bfs(CR.Maker(**kw), max_states=max_states, max_seconds=max_seconds, on_state=on_state)
    return {"states": res.states, "transitions": res.transitions, "depth": res.depth,
            "exhaustive": res.exhaustive, "caps": res.caps, "violations": res.violations,
            "samples": res.sample_traces, "wall_s": res.wall_s, "terminal": res.terminal_states,
            "nontriv": stats["nontriv"], "values": len(stats["values"]), "levels": res.level_sizes}


def _job(job):
    kind = job[0]
    t0 = time.time()
    if kind == "clock":
        out = CL.work(job[2])
    elif kind == "crdt":
        out = _crdt_job(job[2], job[3], job[4])
    else:
        out = ST.work(job[2])
    return (kind, job[1], job[2], out, time.time() - t0)


# ---------------------------------------------------------------------------
def main(tier, seed, only=None):
    run = Run(PID, tier, seed, "model_checking",
              rule=("clock drivers: executions = maximal histories (every prefix is also checked); non-trivial = the "
                    "history contains a receive and at least one pair of concurrent events; states = distinct "
                    "timestamp assignments observed.  CRDT drivers: states = distinct canonical worlds (replica "
                    "states + update knowledge) of the BFS, transitions = real update/merge/serialisation calls, "
                    "executions = states (each is the end of a distinct shortest trace run on the real objects); "
                    "non-trivial = worlds in which some replica has received an update issued at another replica.  "
                    "store driver: executions = complete Simulation runs; non-trivial = some store has received, by "
                    "delivered gossip, a write issued at another store."),
              assumptions=["happened-before is the transitive closure of program order and send->receive edges of "
                           "the generated history (bit masks), computed without consulting any clock",
                           "HLC: a local event is modelled as a send whose message is never received (HLC.send() is "
                           "documented as equivalent to now()); the timestamp of a receive event is the value of an "
                           "immediately following now() (mode 'now') or the clock's stored last timestamp (mode 'last')",
                           "LWW writes carry unique timestamps (writer's node_id inside the timestamp, no reuse at one "
                           "replica), as a real HLC guarantees; the tie rule checked is the documented one: "
                           "HLCTimestamp total order (physical_ns, logical, node_id)",
                           "a message is received at most once, by any node other than its sender",
                           "store driver: fault-free network; the writes a store has received are derived from the "
                           "Write / GossipTick / GossipPush / GossipResponse events the engine delivers (control hook)"])
    jobs = []
    # ---- A
    cl_meta = {}
    for drv, cfg, split in clock_configs(tier):
        name = f"clock-{drv}"
        if only and name not in only:
            continue
        d = run.driver(name, {})
        d.bounds.setdefault("configs", []).append(
            {"nodes": cfg["n"], "max_steps": cfg["L"], "variant": cfg["variant"], "alphabet": cfg.get("alphabet", "lsr")})
        est = {"lamport": 4, "vector": 75, "hlc": 18}[cfg["kind"]]
        prefs = CL.prefixes_of(cfg, split)
        for p in prefs:
            jobs.append(("clock", name, dict(cfg, prefix=p), est * 10 ** (cfg["L"] - split)))
        cl_meta[name] = True
    # ---- B
    for drv, kw, cost in crdt_configs(tier):
        name = f"crdt-{drv}"
        if only and name not in only:
            continue
        d = run.driver(name, {})
        d.bounds.setdefault("configs", []).append(dict(kw))
        max_states = 400_000 if tier == "quick" else 3_000_000
        max_seconds = None  # wall-clock caps would make the explored set load-dependent
        jobs.append(("crdt", name, kw, max_states, max_seconds, cost * 1e9))
    # ---- C
    for typ, n, maxw, bound, elements, topo in store_configs(tier):
        name = "store-gossip"
        if only and name not in only:
            continue
        d = run.driver(name, {})
        progs = ST.programs(typ, n, maxw, elements or ("x", "y"), topo)
        d.bounds.setdefault("configs", []).append(
            {"type": typ, "stores": n, "peer_lists": topo, "max_writes": maxw, "programs": len(progs),
             "peer_choice_deviation_bound": "all" if bound is None else bound, "elements": elements})
        branching = any(len(pl) > 1 for pl in ST.peer_lists(topo, n))
        nchunks = 24 if (branching or len(progs) > 400) else 4
        for ch in [progs[i::nchunks] for i in range(nchunks)]:
            if ch:
                jobs.append(("store", name, (typ, n, ch, bound, elements, topo),
                             1e8 * len(ch) * (20 if branching and bound != 0 else 1)))
    # heavy first; the seed rotates the order of equal-cost sub-spaces only
    jobs = rotate(jobs, seed)
    jobs.sort(key=lambda j: -j[-1])
    jobs = [j[:-1] for j in jobs]

    outcomes = {}
    t_by = {}
    found = []
    for kind, name, arg, st, dt in pmap(_job, jobs, ordered=False):
        d = run.driver(name)
        t_by[name] = t_by.get(name, 0.0) + dt
        if kind == "clock":
            d.transitions += st["transitions"]
            d.executions += st["histories"]
            d.nontrivial += st["nontrivial"]
            outcomes.setdefault(name, set()).update(st["outcomes"])
            ex = d.extra
            for k in ("prefixes", "pairs_hb", "pairs_conc", "reorder", "merges"):
                ex[k] = ex.get(k, 0) + st[k]
            for fp, (desc, rep) in st["viol"].items():
                found.append((len(rep["labels"]), fp, desc, rep))
            if len(d.samples) < 3:
                d.samples.extend(st["samples"])
        elif kind == "crdt":
            d.states += st["states"]
            d.transitions += st["transitions"]
            d.executions += st["states"]
            d.nontrivial += st["nontriv"]
            d.outcomes += st["values"]
            if not st["exhaustive"]:
                d.exhaustive = False
                d.caps += [f"{arg['typ']} R={arg['R']} ops<={arg['max_ops']}: {c}" for c in st["caps"]]
            d.extra.setdefault("bfs", []).append({"world": arg, "states": st["states"], "transitions": st["transitions"],
                                                  "depth": st["depth"], "levels": st["levels"],
                                                  "distinct_value_tuples": st["values"], "cpu_s": round(st["wall_s"], 1)})
            for fp, desc, trace in st["violations"]:
                found.append((len(trace), fp, desc, {"driver": "crdt", "world": arg, "labels": trace}))
            if len(d.samples) < 3 and st["samples"]:
                d.samples.append({"world": arg, "trace": st["samples"][-1]})
        else:
            d.transitions += st["trans"]
            d.executions += st["exec"]
            d.nontrivial += st["nontriv"]
            outcomes.setdefault(name, set()).update(st["outcomes"])
            d.extra["max_choice_points"] = max(d.extra.get("max_choice_points", 0), st["points"])
            d.extra["runs_where_every_store_received_every_write"] = \
                d.extra.get("runs_where_every_store_received_every_write", 0) + st["all_full"]
            d.extra["runs_with_a_push_from_an_unlisted_sender"] = \
                d.extra.get("runs_with_a_push_from_an_unlisted_sender", 0) + st["unlisted_push"]
            if st["unfinished"]:
                d.exhaustive = False
                d.caps.append(f"{st['unfinished']} runs hit the event horizon / storm guard (not judged)")
            for fp, (desc, rep) in st["viol"].items():
                found.append((len(rep["program"]) * 100 + sum(rep["choices"]), fp, desc, rep))
            if len(d.samples) < 3:
                d.samples.extend(st["samples"])
    # smallest witness per fingerprint first (Run keeps the first one it is given)
    for _size, fp, desc, rep in sorted(found, key=lambda f: (f[0], f[1], repr(f[3]))):
        run.violation(fp, desc, rep)
    for name, d in run.drivers.items():
        if name in outcomes:
            d.states = len(outcomes[name])
            d.outcomes = len(outcomes[name])
        d.wall_s = t_by.get(name, 0.0)
        d.extra["wall_s_is"] = "summed worker seconds (CPU work), not elapsed time"
        if name.startswith("clock-"):
            d.extra["histories_checked_incl_prefixes"] = d.extra.pop("prefixes", 0)
            d.extra["event_pairs_happened_before"] = d.extra.pop("pairs_hb", 0)
            d.extra["event_pairs_concurrent"] = d.extra.pop("pairs_conc", 0)
            d.extra["out_of_order_receives"] = d.extra.pop("reorder", 0)
            m = d.extra.pop("merges", 0)
            if m:
                d.extra["merge_calls_checked"] = m
            d.extra["states_note"] = "distinct timestamp sequences, hash sets capped at 50k per sub-space"
    # re-run every violation from its replay data before reporting it
    for fp, (desc, rep) in list(run.violations.items()):
        if not _reproduces(fp, rep):
            run.notes.append(f"violation {fp} did not reproduce from its replay data - dropped")
            del run.violations[fp]
    return run.finish()


def _reproduces(fp, rep):
    import contextlib
    import io
    with contextlib.redirect_stdout(io.StringIO()):
        fps = _replay_fps(rep)
    return fp in fps


def _replay_fps(rep):
    drv = rep.get("driver")
    if drv == "clocks":
        return CL.replay(rep)
    if drv == "crdt":
        kw = dict(rep["world"])
        if "elements" in kw:
            kw["elements"] = tuple(kw["elements"])
        if "amounts" in kw:
            kw["amounts"] = tuple(kw["amounts"])
        print(f"CRDT world replay: {kw}")
        _w, viol = bfs_replay(CR.Maker(**kw), rep["labels"])
        return [fp for fp, _ in viol]
    if drv == "store":
        return ST.replay(rep)
    raise ValueError(f"unknown driver in replay data: {drv}")


def replay(data):
    fps = _replay_fps(data["replay"])
    want = data.get("fingerprint")
    hit = want in fps if want else bool(fps)
    print("reproduced" if hit else "NOT reproduced", want)
    return 1 if hit else 0

"""C07 registry: replication (PrimaryNode/BackupNode, ChainNode, LeaderNode), consensus (RaftNode, PaxosNode,
MultiPaxosNode, FlexiblePaxosNode, MembershipProtocol, LeaderElection x strategies, DistributedLock) and CRDTStore.
Nodes talk through a real Network whose links have latency cfg.L."""
from __future__ import annotations

from props.c07_core import Drv, Instant, P, PI, R

from happysimulator.components.consensus import (BullyStrategy, DistributedLock, FlexiblePaxosNode, KVStateMachine,
                                                 LeaderElection, MembershipProtocol, MultiPaxosNode, PaxosNode,
                                                 RaftNode, RandomizedStrategy, RingStrategy)
from happysimulator.components.crdt import CRDTStore, GCounter, ORSet, PNCounter
from happysimulator.components.datastore import KVStore
from happysimulator.components.network import Network, NetworkLink
from happysimulator.components.replication import (BackupNode, ChainNode, LastWriterWins, LeaderNode, PrimaryNode,
                                                   ReplicationMode, VectorClockMerge)
from happysimulator.components.replication.chain_replication import build_chain
from happysimulator.core.sim_future import SimFuture


def _mesh(net, nodes, cfg):
    for i, a in enumerate(nodes):
        for b in nodes[i + 1:]:
            net.add_bidirectional_link(a, b, NetworkLink(name=f"l-{a.name}-{b.name}", latency=cfg.lat()))


def _kv(name, cfg):
    return KVStore(name, read_latency=cfg.L / 4, write_latency=cfg.L / 4)


class _RpcDrv(Drv):
    """Client op = send Write/Read to a node with a reply future and wait for the reply (bounded by a 4 s guard)."""

    def rpc(self, node, etype, md):
        fut = SimFuture()
        md = dict(md)
        md["reply_future"] = fut
        yield 0.0, [self.h.ev(node, etype, {"metadata": md})]
        yield fut
        return None


# ------------------------------------------------------------------------------------------ replication
class _PrimaryBackupDrv(_RpcDrv):
    family = "replication"
    ops = ("write", "read", "read_backup")
    mode = ReplicationMode.ASYNC

    def build(self, cfg):
        self.net = Network(name="net")
        self.ps = _kv("ps", cfg)
        self.bss = [_kv(f"bs{j}", cfg) for j in range(2)]
        self.primary = PrimaryNode("primary", store=self.ps, backups=[], network=self.net, mode=self.mode)
        self.backups = [BackupNode(f"backup-{j}", store=self.bss[j], network=self.net, primary=self.primary)
                        for j in range(2)]
        # wiring exactly as examples/distributed/primary_backup_replication.py does it
        self.primary._backups = self.backups
        self.primary._backup_lag = {b.name: 0 for b in self.backups}
        for b in self.backups:
            self.net.add_bidirectional_link(self.primary, b, NetworkLink(name=f"l-{b.name}", latency=cfg.lat()))
        return [self.net, self.ps, *self.bss, self.primary, *self.backups]

    def request(self, i, op):
        if op == "write":
            return self.rpc(self.primary, "Write", {"key": "k", "value": i})
        node = self.primary if op == "read" else self.backups[0]
        return self.rpc(node, "Read", {"key": "k"})


class PrimaryBackupAsyncDrv(_PrimaryBackupDrv):
    covers = ("PrimaryNode", "BackupNode")


class PrimaryBackupSemiSyncDrv(_PrimaryBackupDrv):
    covers = ("PrimaryNode", "BackupNode")
    mode = ReplicationMode.SEMI_SYNC


class PrimaryBackupSyncDrv(_PrimaryBackupDrv):
    covers = ("PrimaryNode", "BackupNode")
    mode = ReplicationMode.SYNC


class _ChainDrv(_RpcDrv):
    family = "replication"
    covers = ("ChainNode",)
    ops = ("write", "read_tail", "read_mid")
    craq = False

    def build(self, cfg):
        self.net = Network(name="net")
        self.nodes = build_chain(["n0", "n1", "n2"], self.net, store_factory=lambda n: _kv(n, cfg),
                                 craq_enabled=self.craq)
        for a, b in ((0, 1), (1, 2), (0, 2)):
            self.net.add_bidirectional_link(self.nodes[a], self.nodes[b],
                                            NetworkLink(name=f"l{a}{b}", latency=cfg.lat()))
        return [self.net, *self.nodes, *[n.store for n in self.nodes]]

    def request(self, i, op):
        if op == "write":
            return self.rpc(self.nodes[0], "Write", {"key": "k", "value": i})
        return self.rpc(self.nodes[2] if op == "read_tail" else self.nodes[1], "Read", {"key": "k"})


class ChainReplicationDrv(_ChainDrv):
    pass


class ChainReplicationCraqDrv(_ChainDrv):
    craq = True


class _MultiLeaderDrv(_RpcDrv):
    family = "replication"
    ops = ("write_east", "write_west", "read_east")
    resolver = LastWriterWins

    def build(self, cfg):
        self.net = Network(name="net")
        self.leaders = [LeaderNode(f"leader-{r}", store=_kv(f"store-{r}", cfg), network=self.net,
                                   conflict_resolver=self.resolver(), anti_entropy_interval=P(1.0))
                        for r in ("east", "west")]
        for ld in self.leaders:
            ld.add_peers([x for x in self.leaders if x is not ld])
        self.net.add_bidirectional_link(self.leaders[0], self.leaders[1], NetworkLink(name="xr", latency=cfg.lat()))
        return [self.net, *self.leaders, *[ld.store for ld in self.leaders]]

    def init(self):
        return [e for e in (ld.get_anti_entropy_event() for ld in self.leaders) if e is not None]

    def request(self, i, op):
        if op == "read_east":
            return self.rpc(self.leaders[0], "Read", {"key": "k"})
        return self.rpc(self.leaders[0 if op == "write_east" else 1], "Write", {"key": "k", "value": i})


class MultiLeaderLWWDrv(_MultiLeaderDrv):
    covers = ("LeaderNode", "LastWriterWins")


class MultiLeaderVectorClockDrv(_MultiLeaderDrv):
    covers = ("LeaderNode", "VectorClockMerge")
    resolver = VectorClockMerge


# ------------------------------------------------------------------------------------------ consensus
class RaftDrv(Drv):
    """3 nodes, election timeout 1-2 s, heartbeat 0.5 s; commands are submitted to node a / node b / the leader."""
    family = "consensus"
    covers = ("RaftNode", "KVStateMachine")
    ops = ("submit_a", "submit_b", "submit_leader")
    end_s = 10.0

    def build(self, cfg):
        self.net = Network(name="net")
        election, heartbeat = PI(1.0, 0.5)
        self.nodes = [RaftNode(name=f"raft-{j}", network=self.net, state_machine=KVStateMachine(),
                               election_timeout_min=election, election_timeout_max=2 * election,
                               heartbeat_interval=heartbeat)
                      for j in range(3)]
        for n in self.nodes:
            n.set_peers(self.nodes)
        _mesh(self.net, self.nodes, cfg)
        return [self.net, *self.nodes]

    def init(self):
        evs = []
        for n in self.nodes:
            evs.extend(n.start())
        # a late wave of client commands, after a leader had time to emerge
        evs.append(self.h.ev(self.h.caller, "late", {"metadata": {"late": True}}, delay=P(5.0)))
        return evs

    def on_caller_event(self, event):
        for n in self.nodes:
            if n.is_leader:
                n.submit({"op": "set", "key": "late", "value": 1})
        return None

    def request(self, i, op):
        cmd = {"op": "set", "key": "x", "value": i}
        if op == "submit_leader":
            tgt = next((n for n in self.nodes if n.is_leader), self.nodes[2])
        else:
            tgt = self.nodes[0 if op == "submit_a" else 1]
        tgt.submit(cmd)
        return None


class PaxosDrv(Drv):
    """Single-decree Paxos, 3 nodes, retry delay 0.5 s; competing proposers a and b."""
    family = "consensus"
    covers = ("PaxosNode",)
    ops = ("propose_a", "propose_b")

    def build(self, cfg):
        self.net = Network(name="net")
        self.nodes = [PaxosNode(name=f"paxos-{j}", network=self.net, retry_delay=P(0.5)) for j in range(3)]
        for n in self.nodes:
            n.set_peers(self.nodes)
        _mesh(self.net, self.nodes, cfg)
        return [self.net, *self.nodes]

    def request(self, i, op):
        n = self.nodes[0 if op == "propose_a" else 1]
        n.propose(f"v{i}")
        return n.start_phase1()


class _LogPaxosDrv(Drv):
    family = "consensus"
    ops = ("submit_a", "submit_b")
    end_s = 10.0

    def make(self, j):
        raise NotImplementedError

    def build(self, cfg):
        self.net = Network(name="net")
        self.nodes = [self.make(j) for j in range(3)]
        for n in self.nodes:
            n.set_peers(self.nodes)
        _mesh(self.net, self.nodes, cfg)
        return [self.net, *self.nodes]

    def init(self):
        return list(self.nodes[0].start())

    def request(self, i, op):
        self.nodes[0 if op == "submit_a" else 1].submit({"op": "set", "key": "x", "value": i})
        return None


class MultiPaxosDrv(_LogPaxosDrv):
    covers = ("MultiPaxosNode",)

    def make(self, j):
        lease, heartbeat = PI(2.0, 0.5)
        return MultiPaxosNode(name=f"mp-{j}", network=self.net, state_machine=KVStateMachine(),
                              leader_lease_timeout=lease, heartbeat_interval=heartbeat)


class FlexiblePaxosDrv(_LogPaxosDrv):
    covers = ("FlexiblePaxosNode",)

    def make(self, j):
        return FlexiblePaxosNode(name=f"fp-{j}", network=self.net, state_machine=KVStateMachine(),
                                 phase1_quorum=3, phase2_quorum=1, heartbeat_interval=P(0.5))


class MembershipDrv(Drv):
    """SWIM-style membership, 3 members, probe interval 0.5 s, suspicion timeout 1 s; ops partition / heal one member
    or crash it (events to a crashed entity are dropped by the engine)."""
    family = "consensus"
    covers = ("MembershipProtocol",)
    ops = ("partition", "heal", "crash")
    end_s = 8.0

    def build(self, cfg):
        self.net = Network(name="net")
        suspicion, probe = PI(1.0, 0.5)
        self.ms = [MembershipProtocol(name=f"m{j}", network=self.net, probe_interval=probe, suspicion_timeout=suspicion,
                                      indirect_probe_count=1, phi_threshold=2.0) for j in range(3)]
        for a in self.ms:
            for b in self.ms:
                a.add_member(b)
        _mesh(self.net, self.ms, cfg)
        self.part = None
        return [self.net, *self.ms]

    def init(self):
        evs = []
        for m in self.ms:
            evs.extend(m.start())
        return evs

    def request(self, i, op):
        if op == "partition" and self.part is None:
            self.part = self.net.partition([self.ms[2]], [self.ms[0], self.ms[1]])
        elif op == "heal" and self.part is not None:
            self.part.heal()
            self.part = None
        elif op == "crash":
            self.ms[1]._crashed = not getattr(self.ms[1], "_crashed", False)
        return None


class _ElectionDrv(Drv):
    family = "consensus"
    ops = ("crash_leader", "recover")
    strategy = BullyStrategy
    end_s = 10.0

    def build(self, cfg):
        self.net = Network(name="net")
        timeout, heartbeat = PI(1.0, 0.5)
        self.es = [LeaderElection(name=f"e{j}", network=self.net, strategy=self.strategy(), election_timeout=timeout,
                                  heartbeat_interval=heartbeat) for j in range(3)]
        for a in self.es:
            for b in self.es:
                a.add_member(b)
        _mesh(self.net, self.es, cfg)
        return [self.net, *self.es]

    def init(self):
        evs = []
        for e in self.es:
            evs.extend(e.start())
        return evs

    def request(self, i, op):
        if op == "crash_leader":
            for e in self.es:
                if e.is_leader:
                    e._crashed = True
        else:
            for e in self.es:
                e._crashed = False
        return None


class LeaderElectionBullyDrv(_ElectionDrv):
    covers = ("LeaderElection", "BullyStrategy")


class LeaderElectionRingDrv(_ElectionDrv):
    covers = ("LeaderElection", "RingStrategy")
    strategy = RingStrategy


class LeaderElectionRandomizedDrv(_ElectionDrv):
    covers = ("LeaderElection", "RandomizedStrategy")
    strategy = RandomizedStrategy


class DistributedLockDrv(Drv):
    contention = True
    """One lock name, lease 1 s (expires inside the horizon), max 1 waiter.  'hold' releases after L, 'hog' never
    releases (lease expiry hands the lock over), 'event' uses the LockAcquireRequest event API."""
    family = "consensus"
    covers = ("DistributedLock",)
    ops = ("hold", "hog", "event")

    def build(self, cfg):
        self.lock = DistributedLock("dlock", lease_duration=P(1.0), max_waiters=1)
        return [self.lock]

    def _expiry(self):
        # the component stores the lease-expiry event for the caller to schedule (see _grant_lock)
        ev = getattr(self.lock, "_pending_expiry", None)
        if ev is not None:
            self.lock._pending_expiry = None
            if ev.time >= self.h.now:
                return [ev]
        return []

    def request(self, i, op):
        me = f"client-{i}"
        if op == "event":
            fut = SimFuture()
            yield 0.0, [self.h.ev(self.lock, "LockAcquireRequest",
                                  {"metadata": {"lock_name": "L", "requester": me}, "reply_future": fut})]
            grant = yield fut
        else:
            grant = yield self.lock.acquire("L", me)
        side = self._expiry()
        if grant is None:
            return side or None
        if op == "hog":
            return side or None
        yield self.cfg.hold, side
        if op == "event":
            return [self.h.ev(self.lock, "LockReleaseRequest",
                              {"metadata": {"lock_name": "L", "fencing_token": grant.fencing_token}})]
        self.lock.release("L", grant.fencing_token)
        return self._expiry() or None


# ------------------------------------------------------------------------------------------ crdt
class _CRDTDrv(_RpcDrv):
    family = "crdt"
    ops = ("write_a", "write_b", "read_a")
    factory = staticmethod(lambda node_id: GCounter(node_id))
    operation = "increment"
    value = 1
    n_stores = 3

    def build(self, cfg):
        self.net = Network(name="net")
        self.stores = [CRDTStore(f"crdt-{j}", network=self.net, crdt_factory=self.factory, gossip_interval=P(1.0))
                       for j in range(self.n_stores)]
        for s in self.stores:
            s.add_peers([x for x in self.stores if x is not s])
        _mesh(self.net, self.stores, cfg)
        return [self.net, *self.stores]

    def init(self):
        return [e for e in (s.get_gossip_event() for s in self.stores) if e is not None]

    def request(self, i, op):
        if op == "read_a":
            return self.rpc(self.stores[0], "Read", {"key": "k"})
        return self.rpc(self.stores[0 if op == "write_a" else 1], "Write",
                        {"key": "k", "value": self.value, "operation": self.operation})


class CRDTStoreGCounterDrv(_CRDTDrv):
    covers = ("CRDTStore", "GCounter")


class CRDTStorePNCounterDrv(_CRDTDrv):
    covers = ("CRDTStore", "PNCounter")
    ops = ("write_a", "write_b")
    n_stores = 2
    factory = staticmethod(lambda node_id: PNCounter(node_id))
    operation = "decrement"


class CRDTStoreORSetDrv(_CRDTDrv):
    covers = ("CRDTStore", "ORSet")
    ops = ("write_a", "write_b")
    n_stores = 2
    factory = staticmethod(lambda node_id: ORSet(node_id))
    operation = "add"
    value = "x"


DRIVERS = [PrimaryBackupAsyncDrv, PrimaryBackupSemiSyncDrv, PrimaryBackupSyncDrv, ChainReplicationDrv,
           ChainReplicationCraqDrv, MultiLeaderLWWDrv, MultiLeaderVectorClockDrv, RaftDrv, PaxosDrv, MultiPaxosDrv,
           FlexiblePaxosDrv, MembershipDrv, LeaderElectionBullyDrv, LeaderElectionRingDrv,
           LeaderElectionRandomizedDrv, DistributedLockDrv, CRDTStoreGCounterDrv, CRDTStorePNCounterDrv,
           CRDTStoreORSetDrv]

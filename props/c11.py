"""C11 — Raft: one leader per term, matching logs, durable commits, identical applies,
submit futures, and commit/apply liveness on a fault-free network.

Engine E1 (safety clauses): explicit-state BFS over three REAL ``RaftNode`` objects wired
to a real ``Network`` object and a real ``Clock``.  The harness owns the environment:
the bag of in-flight messages (the very ``Event`` objects the handlers returned through
``Network.send``), the live timer events (the real ``Event`` objects, so ``cancel()`` is
honoured), client submits, message loss (= what a partition does to a message) and the
crash flag ``CrashNode`` sets.  Every move goes through ``Event.invoke()`` ->
``RaftNode.handle_event`` exactly as the simulation loop / ``NetworkLink`` would do it.
Time is abstracted: any live timer may fire at any moment and any in-flight message may
be delivered at any moment (= all delay choices, all delivery orders, all election
timeout draws).  Ghost variables record history (leader per term, first commit of every
index); they are part of the state hash.

Engine E2 (liveness clause): the real ``Simulation`` + ``Network`` + ``NetworkLink`` with a
``ChoiceLatency`` menu well below the election timeout and owned ``random.uniform``;
deviation-bounded enumeration of all delay / timeout choices; after a single leader is
established, k commands are submitted to it; by a stated horizon every node must have
applied all of them in submission order and every future must carry its own index.
"""
from __future__ import annotations

import itertools
import random as _random
import re
import time

from mc import bfs as _bfs
from mc.choice import Chooser, explore
from mc.evidence import Run, digest
from mc.harness import (ChoiceLatency, Event, Holder, Instant, Simulation, owned_random, pmap, pool,
                        rotate, run_guarded)

from happysimulator.components.consensus.raft import RaftNode, RaftState
from happysimulator.components.network.link import NetworkLink
from happysimulator.components.network.network import Network
from happysimulator.core.clock import Clock

PID = "C11"
COMP = "RaftNode"

ET_TIMEOUT = "RaftElectionTimeout"
ET_HB = "RaftHeartbeat"


# ---------------------------------------------------------------------------
# harness objects
# ---------------------------------------------------------------------------
class RecSM:
    """Recording state machine (the ``StateMachine`` protocol): keeps the sequence of
    applied commands; the result of applying command c is ('r', c) so that a future
    resolved with somebody else's result is recognisable."""

    def __init__(self):
        self.applied = []

    def apply(self, command):
        self.applied.append(command)
        return ("r", command)

    def snapshot(self):
        return list(self.applied)

    def restore(self, snapshot):
        self.applied = list(snapshot)


def freeze(x):
    if isinstance(x, dict):
        return tuple(sorted((k, freeze(v)) for k, v in x.items()))
    if isinstance(x, (list, tuple)):
        return tuple(freeze(v) for v in x)
    if isinstance(x, (set, frozenset)):
        return tuple(sorted(freeze(v) for v in x))
    return x


def msg_key(ev):
    """Canonical, JSON-able identity of an in-flight message: (type, metadata items)."""
    return (ev.event_type, freeze(ev.context.get("metadata", {})))


def _rename(x, ren):
    """Apply a node renaming to a frozen structure (strings that are node names)."""
    if isinstance(x, tuple):
        return tuple(_rename(v, ren) for v in x)
    if isinstance(x, str):
        return ren.get(x, x)
    return x


def _sort_key(x):
    return repr(x)


NAME_FIELDS = ("source", "destination", "candidate_id", "from", "leader_id")


class World:
    """Three real RaftNodes + environment bag.  See module docstring.

    params (all state constraints, never a random cut):
      n            cluster size
      max_term     a timeout may fire only at a node whose term < max_term
      timeouts     total election timeouts fired
      hbs          total heartbeat ticks fired
      submits      total client submits;  submit_to: 'leader' | 'any'
      drops        total messages dropped
      crashes      total crash events (each followed by at most one restart)
      max_msgs     states with more in-flight messages are not expanded
      max_log      submit only while the node's log is shorter
      futures      False: the submit-future clause is not evaluated in this world (stale-resp5 only: there
                   finding 3 would otherwise stop every path one move before finding 4 shows)
      symmetry     node-permutation symmetry reduction of the state hash
      prefix       label script applied by make_world (non-initial start)
    """

    def __init__(self, params):
        self.p = dict(params)
        n = self.p.get("n", 3)
        self.names = tuple(f"n{i}" for i in range(n))
        self.clock = Clock(Instant(0))
        self.net = Network(name="net")
        self.net.set_clock(self.clock)
        self.sms = {nm: RecSM() for nm in self.names}
        self.nodes = {nm: RaftNode(name=nm, network=self.net, state_machine=self.sms[nm]) for nm in self.names}
        for nd in self.nodes.values():
            nd.set_peers(list(self.nodes.values()))
            nd.set_clock(self.clock)
        self.msgs = []  # in-flight: the Event objects returned by handlers with target = network
        self.timers = {nm: [] for nm in self.names}  # live timer Events per node
        self.futures = []  # (node, command, SimFuture, checked_flag)
        self.used = {"timeouts": 0, "hbs": 0, "submits": 0, "drops": 0, "crashes": 0}
        self.down = set()  # nodes that have crashed and not restarted
        self.ncmd = 0  # commands are c0, c1, ... in submission order (unique)
        # ghosts (history), part of the hash
        self.g_leader = {}  # term -> node name first seen as leader of that term
        self.g_commit = {}  # index -> (entry term, command, committing node's term, holders at commit time)
        # attribution only (not hashed)
        self.g_votes = {}  # (term, voter) -> set of candidates granted
        self.g_stale = {}  # index -> had a leader been handed an older-term success answer before this commit
        self.viol = []
        self.overtook = False
        self.ignored = 0
        self.stale_ok = False
        self.nt = "#NT0#"
        self.oc = "#OC0#"
        if self.p.get("start", True):
            for nm in self.names:
                self._absorb(nm, self.nodes[nm].start())

    # -- environment plumbing ------------------------------------------------
    def _absorb(self, actor, events):
        for ev in events or []:
            tgt = ev.target
            if tgt is self.net:
                md = ev.context["metadata"]
                self.msgs.append((ev, msg_key(ev), ev.event_type, tuple(md.get(k) for k in NAME_FIELDS),
                                  freeze({k: x for k, x in md.items() if k not in NAME_FIELDS})))
                if ev.event_type == "RaftVoteResponse" and md.get("vote_granted"):
                    self.g_votes.setdefault((md.get("term"), md.get("from")), set()).add(md.get("destination"))
            elif getattr(tgt, "name", None) in self.timers and tgt is self.nodes[tgt.name]:
                self.timers[tgt.name].append(ev)
            else:  # not Raft traffic (e.g. instrumentation a refactor might add): outside this model
                self.ignored += 1
        for nm in self.names:
            self.timers[nm] = [t for t in self.timers[nm] if not t.cancelled]

    def _live(self, nm, etype):
        return [t for t in self.timers[nm] if t.event_type == etype and not t.cancelled]

    def enabled(self):
        p, u = self.p, self.used
        labs = []
        seen = set()
        for _ev, k, _et, _nz, _rest in self.msgs:
            if k in seen:
                continue
            seen.add(k)
            labs.append(("deliver", k[0], k[1]))
            if u["drops"] < p.get("drops", 0):
                labs.append(("drop", k[0], k[1]))
        for nm in self.names:
            nd = self.nodes[nm]
            if self._live(nm, ET_TIMEOUT):
                if nm in self.down:
                    labs.append(("timeout", nm))  # fires into the crashed node: lost
                elif (u["timeouts"] < p.get("timeouts", 0) and nd.current_term < p.get("max_term", 2)
                      and not nd.is_leader):
                    # (a leader's election timer only re-arms itself: no behaviour, skipped)
                    labs.append(("timeout", nm))
            if self._live(nm, ET_HB):
                if nm in self.down or u["hbs"] < p.get("hbs", 0):
                    labs.append(("hb", nm))
            if u["submits"] < p.get("submits", 0) and nm not in self.down:
                if (p.get("submit_to", "leader") == "any" or nd.is_leader) and nd.log.last_index < p.get("max_log", 3):
                    labs.append(("submit", nm))
            if nm in self.down:
                labs.append(("restart", nm))
            elif u["crashes"] < p.get("crashes", 0):
                labs.append(("crash", nm))
        return [_INTERN.setdefault(lab, lab) for lab in labs]

    def _take_msg(self, etype, fz):
        for i, rec in enumerate(self.msgs):
            if rec[2] == etype and rec[1][1] == fz:
                if any(o[2] == etype and o[3][:2] == rec[3][:2] for o in self.msgs[:i]):
                    self.overtook = True  # an older message of this type on this link is still in flight
                return self.msgs.pop(i)[0]
        raise KeyError(f"no in-flight message {etype} {fz}")

    def apply(self, lab):
        saved = _random.uniform
        _random.uniform = lambda a, b: a  # the draw only stamps the timer's time, which E1 abstracts
        try:
            self._apply(lab)
        finally:
            _random.uniform = saved
        self._observe()

    def _apply(self, lab):
        kind = lab[0]
        if kind == "deliver":
            m = self._take_msg(lab[1], lab[2])
            md = m.context["metadata"]
            dst = self.nodes[md["destination"]]
            if (m.event_type == "RaftAppendEntriesResponse" and md.get("success") and dst.is_leader
                    and md.get("term", 0) < dst.current_term and dst.name not in self.down):
                self.stale_ok = True  # attribution only: a leader was handed a success answer of an older term
            # exactly what NetworkLink.handle_event builds after the delay
            fwd = Event(time=self.clock.now, event_type=m.event_type, target=dst, daemon=m.daemon,
                        context=m.context.copy())
            fwd.on_complete = list(m.on_complete)
            self._absorb(dst.name, fwd.invoke())  # invoke() honours the crash flag
        elif kind == "drop":
            self._take_msg(lab[1], lab[2])
            self.used["drops"] += 1
        elif kind in ("timeout", "hb"):
            nm = lab[1]
            ev = self._live(nm, ET_TIMEOUT if kind == "timeout" else ET_HB)[0]
            self.timers[nm].remove(ev)
            if nm not in self.down:
                self.used["timeouts" if kind == "timeout" else "hbs"] += 1
            self._absorb(nm, ev.invoke())
        elif kind == "submit":
            nm = lab[1]
            cmd = f"c{self.ncmd}"
            self.ncmd += 1
            self.used["submits"] += 1
            fut = self.nodes[nm].submit(cmd)
            if self.p.get("futures", True):  # a world may leave the future clause to the other worlds
                self.futures.append([nm, cmd, fut, False])
        elif kind == "crash":
            nm = lab[1]
            self.nodes[nm]._crashed = True  # the flag CrashNode sets
            self.down.add(nm)
            self.used["crashes"] += 1
        elif kind == "restart":
            nm = lab[1]
            self.nodes[nm]._crashed = False  # the flag CrashNode's restart clears
            self.down.discard(nm)
            self._absorb(nm, self.nodes[nm].start())  # re-arm the election timer lost while down
        else:
            raise ValueError(lab)

    # -- oracle ---------------------------------------------------------------
    @staticmethod
    def _entry(nd, i):
        e = nd.log.get(i)
        return None if e is None else (e.term, e.command)

    def _observe(self):
        """Update ghosts and evaluate every clause on the current state (public properties only)."""
        v = []
        nodes = self.nodes
        quorum = len(self.names) // 2 + 1
        # clause 1: at most one leader in any term (history)
        for nm in self.names:
            nd = nodes[nm]
            if nd.is_leader:
                t = nd.current_term
                first = self.g_leader.setdefault(t, nm)
                if first != nm:
                    dbl = [k for k, c in self.g_votes.items() if k[0] == t and len(c) > 1]
                    shape = "voter-granted-two-candidates" if dbl else "other"
                    v.append((f"{COMP}/one-leader-per-term/{shape}",
                              f"term {t}: {first} was leader and now {nm} is leader of the same term"
                              + (f"; voter {dbl[0][1]} granted its term-{t} vote to {sorted(self.g_votes[dbl[0]])}"
                                 if dbl else "")))
        # clause 2: log matching
        for a, b in itertools.combinations(self.names, 2):
            la, lb = nodes[a].log, nodes[b].log
            hi = min(la.last_index, lb.last_index)
            top = 0
            for i in range(hi, 0, -1):
                ea, eb = la.get(i), lb.get(i)
                if ea.term == eb.term:
                    top = i
                    break
            for i in range(top, 0, -1):
                ea, eb = la.get(i), lb.get(i)
                if (ea.term, ea.command) != (eb.term, eb.command):
                    shape = ("same-index-and-term-different-command" if ea.term == eb.term
                             else "prefix-differs-below-matching-entry")
                    v.append((f"{COMP}/log-matching/{shape}",
                              f"{a} and {b} both hold an entry with index {top} term {la.get(top).term} but differ at "
                              f"index {i}: {a} has (term {ea.term}, {ea.command!r}), {b} has (term {eb.term}, {eb.command!r})"))
                    break
        # ghost: first commit of every index
        for nm in self.names:
            nd = nodes[nm]
            ci = min(nd.log.commit_index, nd.log.last_index)
            for i in range(1, ci + 1):
                if i not in self.g_commit:
                    e = self._entry(nd, i)
                    holders = sum(1 for x in self.names if self._entry(nodes[x], i) == e)
                    self.g_commit[i] = (e[0], e[1], nd.current_term, holders)
                    self.g_stale[i] = self.stale_ok
        # clause 3: a committed entry is in the log of every later leader
        for nm in self.names:
            nd = nodes[nm]
            if not nd.is_leader:
                continue
            for i, (et, cmd, cterm, holders) in sorted(self.g_commit.items()):
                if nd.current_term > cterm and self._entry(nd, i) != (et, cmd):
                    shape = "committed-without-quorum" if holders < quorum else "quorum-held-entry"
                    if holders < quorum and self.g_stale.get(i):
                        shape += "-after-stale-term-response"
                    have = self._entry(nd, i)
                    v.append((f"{COMP}/committed-entry-in-later-leader/{shape}",
                              f"entry (index {i}, term {et}, {cmd!r}) was committed in term {cterm} "
                              f"(held by {holders} of {len(self.names)} nodes at that moment) but {nm}, leader of "
                              f"term {nd.current_term}, has {have!r} at index {i}"))
                    break
        # clause 4: applies — same command per index on all nodes, in order without gaps
        for nm in self.names:
            nd = nodes[nm]
            ap = self.sms[nm].applied
            for k, cmd in enumerate(ap, start=1):
                e = nd.log.get(k)
                if k > nd.log.commit_index or e is None or e.command != cmd:
                    v.append((f"{COMP}/apply-order/applied-sequence-not-committed-log-prefix",
                              f"{nm}: apply #{k} was {cmd!r} but its log has {self._entry(nd, k)!r} at index {k} "
                              f"(commit_index {nd.log.commit_index})"))
                    break
        for a, b in itertools.combinations(self.names, 2):
            pa, pb = self.sms[a].applied, self.sms[b].applied
            for k in range(min(len(pa), len(pb))):
                if pa[k] != pb[k]:
                    v.append((f"{COMP}/apply-agreement/different-command-same-index",
                              f"{a} applied {pa[k]!r} and {b} applied {pb[k]!r} as their apply #{k + 1} (log index {k + 1})"))
                    break
        # clause 5: a submit future resolves only with the index where exactly its command was committed
        for rec in self.futures:
            nm, cmd, fut, checked = rec
            if checked or not fut.is_resolved:
                continue
            rec[3] = True
            val = fut.value
            idx = val[0] if isinstance(val, (tuple, list)) and val else val
            nd = nodes[nm]
            e = nd.log.get(idx) if isinstance(idx, int) else None
            if e is None or idx > nd.log.commit_index:
                v.append((f"{COMP}/submit-future/resolved-with-uncommitted-index",
                          f"future of submit({cmd!r}) at {nm} resolved with {val!r} but index {idx!r} is not committed "
                          f"there (commit_index {nd.log.commit_index}, last_index {nd.log.last_index})"))
            elif e.command != cmd:
                v.append((f"{COMP}/submit-future/resolved-by-other-command",
                          f"future of submit({cmd!r}) at {nm} resolved with {val!r} but the entry committed at index "
                          f"{idx} is (term {e.term}, {e.command!r})"))
            else:
                g = self.g_commit.get(idx)
                if g is not None and g[1] != cmd:
                    v.append((f"{COMP}/submit-future/index-first-committed-with-other-command",
                              f"future of submit({cmd!r}) at {nm} resolved with {val!r} but index {idx} was first "
                              f"committed holding {g[1]!r}"))
        self.viol = v
        # vacuity markers (plain strings inside the pickle, read by the parent without unpickling)
        cands = sum(1 for nm in self.names if nodes[nm].stats.elections_started > 0)
        logs = {tuple(self._entry(nodes[nm], i) for i in range(1, nodes[nm].log.last_index + 1)) for nm in self.names}
        diverge = any(a[:min(len(a), len(b))] != b[:min(len(a), len(b))] for a in logs for b in logs)
        nontriv = (cands >= 2 or diverge or self.used["drops"] or self.used["crashes"] or len(self.g_leader) >= 2
                   or self.overtook)
        self.nt = "#NT1#" if nontriv else "#NT0#"
        self.oc = "#OC" + digest((sorted(self.g_leader.items()),
                                  sorted((i, g[1]) for i, g in self.g_commit.items()),
                                  sorted(tuple(self.sms[nm].applied) for nm in self.names),
                                  sorted((c, f.is_resolved) for _n, c, f, _k in self.futures)))[:10] + "#"

    def check(self):
        return list(self.viol)

    def within(self):
        # a state that already violates a clause is a counterexample, not a place to explore from
        return not self.viol and len(self.msgs) <= self.p.get("max_msgs", 8)

    # -- state hash -------------------------------------------------------------
    def _node_canon(self, nm, ren, sig=None):
        nd = self.nodes[nm]
        g = ren.get
        try:
            priv = (g(nd._voted_for, nd._voted_for), g(nd._leader, nd._leader), nd._last_applied,
                    tuple(sorted((g(k, k), x) for k, x in nd._next_index.items())),
                    tuple(sorted((g(k, k), x) for k, x in nd._match_index.items())),
                    tuple(sorted(g(k, k) for k in nd._votes_received_set)),
                    tuple(sorted((k, f.is_resolved) for k, f in nd._pending_futures.items())),
                    bool(getattr(nd, "_crashed", False)))
        except AttributeError:  # refactored internals: fall back to everything the object holds
            priv = ("vars", _rename(tuple(sorted(
                (k, repr(freeze(val)) if not isinstance(val, (Event, Network, list)) else type(val).__name__)
                for k, val in vars(nd).items() if k not in ("_network", "_peers", "_clock", "_state_machine"))), ren))
        return (g(nm, nm),) + (sig if sig is not None else self._sig(nm)) + (priv,)

    def _sig(self, nm):
        """Name-free part of a node's state (public properties + harness bookkeeping)."""
        nd = self.nodes[nm]
        lg = nd.log
        return (nd.state.name, nd.current_term,
                tuple((e.term, e.command) for e in (lg.get(i) for i in range(1, lg.last_index + 1))),
                lg.commit_index, tuple(self.sms[nm].applied),
                tuple(sorted(t.event_type for t in self.timers[nm] if not t.cancelled)), nm in self.down)

    def _canon_named(self, ren, sigs=None):
        g = ren.get
        sigs = sigs or {}
        return (tuple(sorted(self._node_canon(nm, ren, sigs.get(nm)) for nm in self.names)),
                tuple(sorted((et, tuple(g(x, x) for x in nmz), rest) for _ev, _k, et, nmz, rest in self.msgs)),
                tuple(sorted((t, g(x, x)) for t, x in self.g_leader.items())),
                tuple(sorted(self.g_commit.items())),
                tuple((g(nm, nm), cmd, f.is_resolved, freeze(f.value) if f.is_resolved else None)
                      for nm, cmd, f, _k in self.futures),
                tuple(sorted(self.used.items())))

    def canon(self):
        """Every field a handler reads (public state + the listed private fields), the in-flight
        multiset, live timers, budgets used and the ghosts.  With symmetry: the minimum over all
        node renamings (handlers never order by node name; peers are iterated only to emit one
        message each into an unordered bag), so permuted states have isomorphic futures.  Nodes
        are first ordered by their name-free signature; only ties are permuted (same minimum)."""
        if not self.p.get("symmetry", True):
            return repr(self._canon_named({}))
        sg = {nm: self._sig(nm) for nm in self.names}
        sigs = sorted((repr(sg[nm]), nm) for nm in self.names)
        groups = [[nm for _s, nm in grp] for _k, grp in itertools.groupby(sigs, key=lambda x: x[0])]
        best = None
        for combo in itertools.product(*[list(itertools.permutations(grp)) for grp in groups]):
            order = [nm for grp in combo for nm in grp]
            ren = {nm: f"n{i}" for i, nm in enumerate(order)}
            r = repr(self._canon_named(ren, sg))
            if best is None or r < best:
                best = r
        return best

    def describe(self):
        parts = []
        for nm in self.names:
            nd = self.nodes[nm]
            log = [(e.term, e.command) for e in (nd.log.get(i) for i in range(1, nd.log.last_index + 1))]
            parts.append(f"{nm}:{nd.state.name[0]} t{nd.current_term} log={log} ci={nd.log.commit_index} "
                         f"applied={self.sms[nm].applied}{' DOWN' if nm in self.down else ''}")
        return " | ".join(parts) + f" | inflight={len(self.msgs)}"


# ---------------------------------------------------------------------------
# scenario worlds (E1)
# ---------------------------------------------------------------------------
def _find(w, etype, src, dst):
    for rec in sorted(w.msgs, key=lambda r: _sort_key(r[1])):
        if rec[2] == etype and rec[3][0] == src and rec[3][1] == dst:
            return ("deliver", rec[1][0], rec[1][1])
    raise KeyError((etype, src, dst))


def run_script(w, steps):
    """Scripted prefix: macro steps resolved to ordinary labels and applied through apply()."""
    labels = []
    for s in steps:
        if s[0] == "msg":  # ('msg', type, src, dst)
            labs = [_find(w, "Raft" + s[1], s[2], s[3])]
        elif s[0] == "dropmsg":  # ('dropmsg', type, src, dst)
            lab = _find(w, "Raft" + s[1], s[2], s[3])
            labs = [("drop",) + lab[1:]]
        elif s[0] == "keeponly":  # ('keeponly', (type, src, dst), ...): lose everything else in flight
            keep = [_find(w, "Raft" + k[0], k[1], k[2])[1:] for k in s[1:]]
            labs = [("drop",) + r[1] for r in sorted(w.msgs, key=lambda r: _sort_key(r[1])) if r[1] not in keep]
        elif s[0] == "drain":  # deliver everything in flight, canonical order, until quiescent
            labs = None
            while w.msgs:
                k = sorted((r[1] for r in w.msgs), key=_sort_key)[0]
                lab = ("deliver", k[0], k[1])
                w.apply(lab)
                labels.append(lab)
            continue
        else:
            labs = [tuple(s)]
        for lab in labs:
            w.apply(lab)
            labels.append(lab)
    return labels


ELECT_N0 = [("timeout", "n0"), ("msg", "RequestVote", "n0", "n1"), ("msg", "RequestVote", "n0", "n2"),
            ("msg", "VoteResponse", "n1", "n0"), ("msg", "VoteResponse", "n2", "n0"), ("drain",)]

def _conflict_prefix(pre, suf):
    """n0 leads term 1; ``pre`` commands are replicated and committed everywhere; n0 then accepts ``suf`` more that
    nobody else gets (cut off); n1 wins term 2 with n2's vote (everything else in flight is lost, n0 still
    believes it leads term 1) and accepts one command of its own: the conflict sits at index pre+1, which is the
    TAIL of n0's log when suf == 1 and the middle when suf == 2."""
    steps = list(ELECT_N0)
    for _ in range(pre):
        steps += [("submit", "n0"), ("hb", "n0"), ("drain",), ("hb", "n0"), ("drain",)]
    steps += [("submit", "n0")] * suf
    steps += [("timeout", "n1"), ("msg", "RequestVote", "n1", "n2"), ("msg", "VoteResponse", "n2", "n1"), ("drop",),
              ("submit", "n1")]
    return steps


WORLDS = {
    # election only: every interleaving of timeouts, votes and the new leader's first AppendEntries
    "elect": dict(timeouts=3, max_term=2, max_msgs=12),
    "elect-t3": dict(timeouts=4, max_term=3, max_msgs=8),
    "elect5": dict(n=5, timeouts=2, max_term=2, max_msgs=14),
    # a granted vote is still in flight while elections go on: n0 is candidate of term 1, n1 has granted its
    # vote (answer in flight), n2 never got the request
    "late-vote0": dict(prefix=[("timeout", "n0"), ("msg", "RequestVote", "n0", "n1"),
                               ("dropmsg", "RequestVote", "n0", "n2")], timeouts=3, max_term=2, max_msgs=8),
    # same, one step later: n0 has timed out again (candidate of term 2, its new requests in flight as well)
    "late-vote": dict(prefix=[("timeout", "n0"), ("msg", "RequestVote", "n0", "n1"),
                              ("dropmsg", "RequestVote", "n0", "n2"), ("timeout", "n0")],
                      timeouts=1, max_term=2, max_msgs=6),
    # replication under a stable leader n0 (term 1, everybody has acknowledged its first heartbeat)
    "repl": dict(prefix=ELECT_N0, submits=2, hbs=2, submit_to="any", max_msgs=6),
    "repl-drop": dict(prefix=ELECT_N0, submits=2, hbs=3, drops=2, max_msgs=4),
    # leader change from "n0 leads term 1 and holds one entry nobody else has"
    "change": dict(prefix=ELECT_N0 + [("submit", "n0")], timeouts=2, max_term=3, submits=1, hbs=1, max_msgs=6),
    "change-hb2": dict(prefix=ELECT_N0 + [("submit", "n0")], timeouts=2, max_term=3, submits=1, hbs=2, max_msgs=5),
    # same, but the entry reached one follower before the leader changes
    "change-half": dict(prefix=ELECT_N0 + [("submit", "n0"), ("hb", "n0"), ("msg", "AppendEntries", "n0", "n1"),
                                           ("msg", "AppendEntriesResponse", "n1", "n0"),
                                           ("drop",) ],
                        timeouts=2, max_term=3, submits=1, hbs=1, max_msgs=6),
    # vote rule: n0 leads term 1, c0 is everywhere, c1 is on n0+n1 and committed at n0; n2 is one entry behind
    "behind": dict(prefix=ELECT_N0 + [("submit", "n0"), ("hb", "n0"), ("drain",), ("hb", "n0"), ("drain",),
                                      ("submit", "n0"), ("hb", "n0"), ("msg", "AppendEntries", "n0", "n1"),
                                      ("msg", "AppendEntriesResponse", "n1", "n0"), ("drop",)],
                   timeouts=2, max_term=3, hbs=1, max_msgs=6),
    # log repair by reject/retry with prev_log_index >= 1 (mini round 6): n0 led term 1, c0 is everywhere, c1 and c2
    # are on n0+n1; n1 wins term 2 with n2's vote and repairs n2 through two rejected AppendEntries and one
    # successful retry (prev_log_index 1); n1's first AppendEntries to n0 (prev 3, will succeed) is still in flight
    "repaired": dict(prefix=ELECT_N0 + [("submit", "n0"), ("hb", "n0"), ("drain",), ("hb", "n0"), ("drain",),
                                        ("submit", "n0"), ("submit", "n0"), ("hb", "n0"),
                                        ("msg", "AppendEntries", "n0", "n1"),
                                        ("msg", "AppendEntriesResponse", "n1", "n0"), ("drop",),
                                        ("timeout", "n1"), ("msg", "RequestVote", "n1", "n2"),
                                        ("msg", "VoteResponse", "n2", "n1"), ("dropmsg", "RequestVote", "n1", "n0"),
                                        ("msg", "AppendEntries", "n1", "n2"),
                                        ("msg", "AppendEntriesResponse", "n2", "n1"),
                                        ("msg", "AppendEntries", "n1", "n2"),
                                        ("msg", "AppendEntriesResponse", "n2", "n1"),
                                        ("msg", "AppendEntries", "n1", "n2"),
                                        ("msg", "AppendEntriesResponse", "n2", "n1")],
                     timeouts=1, max_term=3, submits=1, hbs=1, max_msgs=5, max_log=4),
    # commit rule (Raft paper figure 8 with three nodes): n0 led term 1 and holds c0 alone, n2 leads term 2 and
    # holds c1 alone, n1 voted for both and holds nothing; n2's first AppendEntries to n0 is still in flight
    "fig8": dict(prefix=[("timeout", "n0"), ("msg", "RequestVote", "n0", "n1"), ("msg", "VoteResponse", "n1", "n0"),
                         ("submit", "n0"), ("drop",), ("timeout", "n2"), ("drop",), ("timeout", "n2"),
                         ("msg", "RequestVote", "n2", "n1"), ("msg", "VoteResponse", "n1", "n2"), ("submit", "n2"),
                         ("dropmsg", "RequestVote", "n2", "n0"), ("dropmsg", "AppendEntries", "n2", "n1")],
                 timeouts=2, max_term=4, hbs=0, max_msgs=5),
    # five nodes, a success response of an EARLIER term of the same leader is still in flight:
    # n0 led term 1 with [c0,c1]; n1 stored both and its answer (term 1, match 2) is delayed; n2 won term 2
    # (n3, n4), wrote c2 and replicated it to n0 (which dropped c0,c1); n0 won term 3 (n2, n3, n4), accepted c3
    # and sent a heartbeat of which only the copy for n3 survives
    "stale-resp5": dict(n=5, prefix=[
        ("timeout", "n0"), ("msg", "RequestVote", "n0", "n1"), ("msg", "RequestVote", "n0", "n2"),
        ("msg", "VoteResponse", "n1", "n0"), ("msg", "VoteResponse", "n2", "n0"), ("drop",),
        ("submit", "n0"), ("submit", "n0"), ("hb", "n0"), ("msg", "AppendEntries", "n0", "n1"),
        ("keeponly", ("AppendEntriesResponse", "n1", "n0")),
        ("timeout", "n2"), ("msg", "RequestVote", "n2", "n3"), ("msg", "RequestVote", "n2", "n4"),
        ("msg", "VoteResponse", "n3", "n2"), ("msg", "VoteResponse", "n4", "n2"),
        ("keeponly", ("AppendEntriesResponse", "n1", "n0")),
        ("submit", "n2"), ("hb", "n2"), ("msg", "AppendEntries", "n2", "n0"),
        ("keeponly", ("AppendEntriesResponse", "n1", "n0")),
        ("timeout", "n0"), ("msg", "RequestVote", "n0", "n2"), ("msg", "RequestVote", "n0", "n3"),
        ("msg", "RequestVote", "n0", "n4"), ("msg", "VoteResponse", "n3", "n0"), ("msg", "VoteResponse", "n4", "n0"),
        ("keeponly", ("AppendEntriesResponse", "n1", "n0")),
        ("submit", "n0"), ("hb", "n0"),
        ("keeponly", ("AppendEntriesResponse", "n1", "n0"), ("AppendEntries", "n0", "n3"))],
        timeouts=1, max_term=4, hbs=0, max_msgs=6, futures=False),
    # four nodes (quorum must be 3): n0 and n1 both campaign for term 1 and a 2/2 message-loss split
    # {n0,n2} | {n1,n3} leaves only the requests inside each half in flight
    "split4": dict(n=4, prefix=[("timeout", "n0"), ("timeout", "n1"),
                                ("keeponly", ("RequestVote", "n0", "n2"), ("RequestVote", "n1", "n3"))],
                   timeouts=1, max_term=2, hbs=0, max_msgs=6),
    # four nodes, replication/commit step: n0 leads term 1 (everybody acknowledged), holds c0 and has sent it;
    # a {n0,n1} | {n2,n3} split lost the copies for n2 and n3
    "repl4": dict(n=4, prefix=[("timeout", "n0"), ("msg", "RequestVote", "n0", "n1"), ("msg", "RequestVote", "n0", "n2"),
                               ("msg", "RequestVote", "n0", "n3"), ("msg", "VoteResponse", "n1", "n0"),
                               ("msg", "VoteResponse", "n2", "n0"), ("msg", "VoteResponse", "n3", "n0"), ("drain",),
                               ("submit", "n0"), ("hb", "n0"), ("keeponly", ("AppendEntries", "n0", "n1"))],
                  timeouts=1, max_term=2, hbs=1, max_msgs=5),
    # five nodes, the same node leads twice with a foreign leader in between: n0 led term 1 with [c0,c1] and n1
    # ACKNOWLEDGED both (no commit: 2 of 5); n2 won term 2 (n3, n4), wrote c2 and overwrote n0's and n1's logs;
    # n0 won term 3 (n2, n3, n4) while n1 was unreachable, accepted c3 and sent a heartbeat of which only the copy
    # for n3 survives
    "releader5": dict(n=5, prefix=[
        ("timeout", "n0"), ("msg", "RequestVote", "n0", "n1"), ("msg", "RequestVote", "n0", "n2"),
        ("msg", "VoteResponse", "n1", "n0"), ("msg", "VoteResponse", "n2", "n0"), ("drop",),
        ("submit", "n0"), ("submit", "n0"), ("hb", "n0"), ("msg", "AppendEntries", "n0", "n1"),
        ("msg", "AppendEntriesResponse", "n1", "n0"), ("drop",),
        ("timeout", "n2"), ("msg", "RequestVote", "n2", "n3"), ("msg", "RequestVote", "n2", "n4"),
        ("msg", "VoteResponse", "n3", "n2"), ("msg", "VoteResponse", "n4", "n2"), ("drop",),
        ("submit", "n2"), ("hb", "n2"), ("msg", "AppendEntries", "n2", "n0"), ("msg", "AppendEntries", "n2", "n1"),
        ("drop",),
        ("timeout", "n0"), ("msg", "RequestVote", "n0", "n2"), ("msg", "RequestVote", "n0", "n3"),
        ("msg", "RequestVote", "n0", "n4"), ("msg", "VoteResponse", "n3", "n0"), ("msg", "VoteResponse", "n4", "n0"),
        ("drop",),
        ("submit", "n0"), ("hb", "n0"), ("keeponly", ("AppendEntries", "n0", "n3"))],
        timeouts=1, max_term=4, hbs=0, max_msgs=5, futures=False),
    # divergent logs: n0 led term 1 and kept appending (c0,c1 uncommitted, cut off); n1 won term 2 with n2's vote
    # and committed c2 on {n1,n2}; n0 has heard of term 2 (follower, log still [c0,c1]); n1's AppendEntries carrying
    # c2 to n0 is still in flight.  Longer-older-term log versus shorter-newer-term log holding a committed entry.
    "diverge": dict(prefix=ELECT_N0 + [("submit", "n0"), ("submit", "n0"), ("timeout", "n1"),
                                       ("msg", "RequestVote", "n1", "n2"), ("msg", "VoteResponse", "n2", "n1"),
                                       ("msg", "AppendEntries", "n1", "n0"), ("drop",),
                                       ("submit", "n1"), ("hb", "n1"), ("msg", "AppendEntries", "n1", "n2"),
                                       ("msg", "AppendEntriesResponse", "n2", "n1")],
                    timeouts=2, max_term=4, hbs=1, max_msgs=5),
    # a just-deposed leader: n0 led term 1 (stable), n1 timed out and won term 2 with n2's vote; n0 has only seen
    # n1's RequestVote (stepped down, voted) — n1's first AppendEntries to n0 and n2 are still in flight.
    # Clients may submit to ANY node (the ex-leader included) in that window.
    "deposed": dict(prefix=ELECT_N0 + [("timeout", "n1"), ("msg", "RequestVote", "n1", "n0"),
                                       ("msg", "RequestVote", "n1", "n2"), ("msg", "VoteResponse", "n2", "n1")],
                    submits=2, submit_to="any", hbs=1, max_msgs=5),
    # conflicting suffix of a deposed leader, every shape: common committed prefix 0/1, divergent suffix 1/2
    # (conflict at the tail / in the middle of the old leader's log); see _conflict_prefix
    "conflict-p0s1": dict(prefix=_conflict_prefix(0, 1), hbs=2, max_msgs=4),
    "conflict-p0s2": dict(prefix=_conflict_prefix(0, 2), hbs=2, max_msgs=4),
    "conflict-p1s1": dict(prefix=_conflict_prefix(1, 1), hbs=2, max_msgs=4),
    "conflict-p1s2": dict(prefix=_conflict_prefix(1, 2), hbs=2, max_msgs=4),
    # crash / restart of any node anywhere during replication and during a leader change
    "crash-repl": dict(prefix=ELECT_N0, submits=1, hbs=2, crashes=1, timeouts=1, max_term=2, max_msgs=5),
    "crash-change": dict(prefix=ELECT_N0 + [("submit", "n0")], timeouts=2, max_term=3, hbs=1, crashes=1, max_msgs=4),
    # free for all from the initial state
    "free": dict(timeouts=2, max_term=2, submits=1, hbs=1, max_msgs=6),
}


class MakeWorld:
    def __init__(self, name, overrides=None):
        self.name = name
        self.params = dict(WORLDS[name])
        self.params.update(overrides or {})
        self.prefix_labels = []

    def __call__(self):
        p = dict(self.params)
        steps = p.pop("prefix", None)
        p.pop("budget_prefix", None)
        w = World(p)
        if steps:
            full = dict(p, timeouts=99, hbs=99, submits=99, drops=99, max_term=99)
            w.p = full
            fixed = []
            for s in steps:
                if s == ("drop",):  # drop whatever is still in flight
                    while w.msgs:
                        k = w.msgs[0][1]
                        fixed.append(("drop", k[0], k[1]))
                        w.apply(fixed[-1])
                else:
                    fixed += run_script(w, [s])
            self.prefix_labels = fixed
            w.p = p
            for k in w.used:
                w.used[k] = 0
        return w


_NT = re.compile(rb"#NT1#")
_OC = re.compile(rb"#OC[0-9a-f]{10}#")
_INTERN = {}


def _bfs_job(job):
    """One scenario world explored to exhaustion IN-PROCESS (no per-transition IPC); worlds run side
    by side in the fork pool.  Returns plain data."""
    _kind, dname, name, overrides, max_states, max_seconds = job
    mk = MakeWorld(name, overrides)
    stats = {"nt": 0, "oc": set()}

    def on_state(_key, blob):
        if _NT.search(blob):
            stats["nt"] += 1
        m = _OC.search(blob)
        if m:
            stats["oc"].add(m.group(0))

    res = _bfs.bfs(mk, max_states=max_states, max_seconds=max_seconds, pool=None, on_state=on_state)
    viols = []
    for fp, desc, trace in res.violations:
        # re-run from the replay data before reporting (same schedule, same verdict)
        _w, again = _bfs.replay(MakeWorld(name, overrides), trace, verbose=False)
        if not any(f == fp for f, _d in again):
            raise AssertionError(f"violation {fp} did not reproduce on replay of its own trace")
        viols.append((fp, desc + f"  [world {dname}, {len(trace)} moves after the scripted start]",
                      {"driver": "bfs", "world": name, "overrides": overrides or {}, "labels": trace,
                       "readable": [_short(lab) for lab in trace]}))
    bounds = {k: v for k, v in mk.params.items() if k != "prefix"}
    bounds["nodes"] = mk.params.get("n", 3)
    bounds["start"] = ("scripted through the real handlers: " + " ; ".join(_short(x) for x in mk.prefix_labels)
                       if mk.prefix_labels else "all followers, term 0, election timers armed")
    return {"kind": "bfs", "dname": dname, "bounds": bounds, "states": res.states, "transitions": res.transitions,
            "nt": stats["nt"], "oc": len(stats["oc"]), "exhaustive": res.exhaustive, "caps": list(res.caps),
            "wall": res.wall_s, "depth": res.depth, "levels": res.level_sizes, "terminal": res.terminal_states,
            "samples": [[_short(lab) for lab in tr] for tr in res.sample_traces[-2:]], "viol": viols}


# ---------------------------------------------------------------------------
# E3 — op sequences on the real Log class against a list reference
# ---------------------------------------------------------------------------
from happysimulator.components.consensus.log import Log, LogEntry  # noqa: E402


class RefLog:
    """The documented semantics of consensus/log.py on a plain list of (term, command)."""

    def __init__(self):
        self.e = []
        self.commit = 0

    def append(self, term, cmd):
        self.e.append((term, cmd))
        return (len(self.e), term, cmd)

    def truncate_from(self, i):  # "remove all entries from the given index onward (inclusive)"
        if i < 1 or i > len(self.e):
            return 0
        removed = len(self.e) - (i - 1)
        del self.e[i - 1:]
        self.commit = min(self.commit, i - 1)  # "adjust commit_index if it was beyond the truncation point"
        return removed

    def advance_commit(self, n):  # returns the newly committed entries
        if n <= self.commit:
            return []
        old = self.commit
        self.commit = min(n, len(self.e))
        return [(k + 1,) + self.e[k] for k in range(old, self.commit)]

    def observe(self):
        n = len(self.e)
        ent = [(k + 1,) + self.e[k] for k in range(n)]
        return {"last_index": n, "last_term": self.e[-1][0] if self.e else 0, "len": n, "commit_index": self.commit,
                "last_entry": ent[-1] if ent else None,
                "get": [None if i < 1 or i > n else ent[i - 1] for i in range(-1, n + 3)],
                "entries_after": [ent[i:] for i in range(0, n + 2)],
                "entries_from": [ent[i - 1:] for i in range(1, n + 3)],
                "committed": ent[: self.commit], "uncommitted": ent[self.commit:]}


def _le(x):
    return None if x is None else (x.index, x.term, x.command)


def _log_observe(lg):
    n = len(lg)
    return {"last_index": lg.last_index, "last_term": lg.last_term, "len": n, "commit_index": lg.commit_index,
            "last_entry": _le(lg.last_entry),
            "get": [_le(lg.get(i)) for i in range(-1, n + 3)],
            "entries_after": [[_le(x) for x in lg.entries_after(i)] for i in range(0, n + 2)],
            "entries_from": [[_le(x) for x in lg.entries_from(i)] for i in range(1, n + 3)],
            "committed": [_le(x) for x in lg.committed_entries()], "uncommitted": [_le(x) for x in lg.uncommitted_entries()]}


def _log_apply(lg, ref, op):
    """Apply one op to both; returns (impl return, ref return) in comparable form."""
    if op[0] == "append":
        return _le(lg.append(op[1], op[2])), ref.append(op[1], op[2])
    if op[0] == "append_entry":  # documented: re-indexed to keep the sequence
        lg.append_entry(LogEntry(index=op[3], term=op[1], command=op[2]))
        ref.append(op[1], op[2])
        return None, None
    if op[0] == "truncate_from":
        return lg.truncate_from(op[1]), ref.truncate_from(op[1])
    if op[0] == "advance_commit":
        return [_le(x) for x in lg.advance_commit(op[1])], ref.advance_commit(op[1])
    raise ValueError(op)


def _log_shape(op, n, where):
    if op[0] in ("truncate_from", "advance_commit"):
        i = op[1]
        pos = ("below-1" if i < 1 else "first-and-last" if i == 1 == n else "first" if i == 1 else "last-index" if i == n
               else "past-the-end" if i > n else "middle")
        return f"Log/{op[0]}/{pos}/{where}"
    return f"Log/{op[0]}/{where}"


def _log_ops(lg_len):
    ops = [("append", t, c) for t in (1, 2) for c in ("a", "b")] + [("append_entry", 2, "a", 7)]
    ops += [("truncate_from", i) for i in range(-1, lg_len + 3)]
    ops += [("advance_commit", i) for i in range(0, lg_len + 3)]
    return ops


def _log_job(job):
    """Every op sequence over the alphabet up to ``max_len`` entries / ``depth`` ops (BFS, dedup on the reference
    state), each executed on a fresh real Log and on the reference; full observation compared after every op."""
    _kind, max_len, depth = job
    t0 = time.time()
    seen = {((), 0): ()}
    frontier = [()]
    st = {"kind": "log", "states": 1, "transitions": 0, "nt": 0, "oc": set(), "viol": {}, "samples": [], "depth": 0,
          "bounds": {"max_entries": max_len, "max_ops": depth, "terms": [1, 2], "commands": ["a", "b"],
                     "ops": "append / append_entry / truncate_from(i) / advance_commit(i), i from below 1 to past the end"}}
    for d in range(depth):
        nxt = []
        for seq in frontier:
            lg0, ref0 = Log(), RefLog()
            for op in seq:
                _log_apply(lg0, ref0, op)
            n = len(ref0.e)
            for op in _log_ops(n):
                if op[0].startswith("append") and n >= max_len:
                    continue
                lg, ref = Log(), RefLog()
                for o in seq:
                    _log_apply(lg, ref, o)
                st["transitions"] += 1
                try:
                    ri, rr = _log_apply(lg, ref, op)
                    obs, want = _log_observe(lg), ref.observe()
                except Exception as exc:  # noqa: BLE001
                    ri, rr, obs, want = repr(exc), None, {}, {"raised": False}
                bad = None
                if ri != rr:
                    bad = ("return", ri, rr)
                else:
                    for k in want:
                        if obs.get(k) != want[k]:
                            bad = (k, obs.get(k), want[k])
                            break
                if op[0] == "truncate_from" and n and 1 <= op[1] <= n:
                    st["nt"] += 1
                st["oc"].add(digest((want["get"], want["commit_index"])))
                if bad:
                    fp = _log_shape(op, n, bad[0])
                    if fp not in st["viol"]:
                        st["viol"][fp] = (f"Log after ops {list(seq)} (entries {ref0.e}, commit {ref0.commit}): {op} -> "
                                          f"{bad[0]} is {bad[1]!r}, documented semantics give {bad[2]!r}",
                                          {"driver": "log-ops", "ops": [list(o) for o in seq + (op,)]})
                    continue
                key = (tuple(ref.e), ref.commit)
                if key not in seen:
                    seen[key] = seq + (op,)
                    nxt.append(seq + (op,))
                    if len(st["samples"]) < 2 and len(seq) == 3:
                        st["samples"].append([list(o) for o in seq + (op,)])
        frontier = nxt
        st["depth"] = d + 1
        if not frontier:
            break
    st["states"] = len(seen)
    st["exhaustive_states"] = not frontier
    st["oc"] = len(st["oc"])
    st["wall"] = time.time() - t0
    return st


def _job(job):
    if job[0] == "bfs":
        return _bfs_job(job)
    if job[0] == "log":
        return _log_job(job)
    return _live_subtree(job[1:])


def _short(lab):
    if lab[0] in ("deliver", "drop"):
        md = dict(lab[2])
        rest = {k: v for k, v in md.items() if k not in ("source", "destination", "candidate_id", "from", "leader_id")}
        return f"{lab[0]} {lab[1][4:]} {md.get('source')}->{md.get('destination')} {rest}"
    return " ".join(str(x) for x in lab)


# ---------------------------------------------------------------------------
# E2 — liveness clause on the real Simulation + Network
# ---------------------------------------------------------------------------
from happysimulator.core.entity import Entity  # noqa: E402

LIVE = dict(hb=0.25, tmin=1.0, tmax=2.0, menu=(0.001, 0.005, 0.02), t_est=2.5, gaps=(0.0, 0.1, 0.25), horizon_hbs=4,
            uniform=(0.0, 0.5, 1.0))


import contextlib  # noqa: E402


@contextlib.contextmanager
def own_uniform(chooser, fracs):
    """Own ``random.uniform`` (the election-timeout draw).  Every draw may take any fraction of
    the span from ``fracs``; the DEFAULT answer of the j-th draw is fracs[j % len] so that the
    all-default execution has three different first timeouts (an ordinary election), and a
    simultaneous time-out is one deviation away."""
    saved = _random.uniform
    n = [0]

    def uniform(a, b):
        j = n[0]
        n[0] += 1
        menu = fracs[j % len(fracs):] + fracs[: j % len(fracs)]
        return a + (b - a) * menu[chooser.choose(len(menu), "uniform")]

    _random.uniform = uniform
    try:
        yield
    finally:
        _random.uniform = saved


class TimedSM(RecSM):
    """RecSM that also notes the simulated instant (ms) of every apply (for the observation digest)."""
    node = None

    def __init__(self):
        super().__init__()
        self.at = []

    def apply(self, command):
        self.at.append(self.node.now.nanoseconds // 1_000_000)
        return super().apply(command)


class LiveDriver(Entity):
    """Client + observer.  At t_est it checks the premise (a single established leader), then
    submits k commands to it at chooser-picked gaps and looks at every node at the horizon."""

    def __init__(self, nodes, sms, chooser, k, cfg):
        super().__init__("client")
        self.nodes, self.sms, self.chooser, self.k, self.cfg = nodes, sms, chooser, k, cfg
        self.outcome = "not-run"
        self.leader = None
        self.cmds = []
        self.futs = []
        self.final = None
        self.log = []

    def established(self):
        leaders = [n for n in self.nodes if n.is_leader]
        if len(leaders) != 1:
            return None
        ld = leaders[0]
        for n in self.nodes:
            if n.current_term != ld.current_term:
                return None
            if n is not ld and (n.state != RaftState.FOLLOWER or n.current_leader != ld.name):
                return None
        return ld

    def handle_event(self, event):
        et = event.event_type
        now = self.now
        if et == "establish":
            ld = self.established()
            self.log.append((now.nanoseconds, "establish", ld.name if ld else None,
                             [(n.name, n.state.name, n.current_term) for n in self.nodes]))
            if ld is None:
                self.outcome = "no-established-leader"
                return None
            self.leader = ld
            self.outcome = "established"
            t = now
            evs = []
            for i in range(self.k):
                t = t + self.chooser.pick(self.cfg["gaps"], "gap")
                evs.append(Event(time=t, event_type="submit", target=self))
            evs.append(Event(time=t + self.cfg["horizon_hbs"] * self.cfg["hb"], event_type="check", target=self))
            return evs
        if et == "submit":
            if self.established() is not self.leader:
                self.outcome = "leader-lost-before-submit"  # premise gone: no verdict
                self.log.append((now.nanoseconds, "submit-skipped", None, None))
                return None
            cmd = f"c{len(self.cmds)}"
            self.cmds.append(cmd)
            self.futs.append(self.leader.submit(cmd))
            self.log.append((now.nanoseconds, "submit", self.leader.name, cmd))
            return None
        if et == "check":
            self.final = {n.name: list(self.sms[n.name].applied) for n in self.nodes}
            self.log.append((now.nanoseconds, "check", None, self.final))
            return None
        return None


def live_run(chooser, k, cfg=LIVE, trace=None):
    """One complete execution on the real engine.  Returns (outcome, violations, observation)."""
    holder = Holder()
    holder.chooser = chooser
    net = Network(name="net")
    names = ["n0", "n1", "n2"]
    sms = {nm: TimedSM() for nm in names}
    nodes = [RaftNode(name=nm, network=net, state_machine=sms[nm], election_timeout_min=cfg["tmin"],
                      election_timeout_max=cfg["tmax"], heartbeat_interval=cfg["hb"]) for nm in names]
    for nd in nodes:
        nd.set_peers(nodes)
        sms[nd.name].node = nd
    for a, b in itertools.combinations(nodes, 2):
        net.add_bidirectional_link(a, b, NetworkLink(name=f"l_{a.name}_{b.name}",
                                                     latency=ChoiceLatency(list(cfg["menu"]), holder, "lat")))
    drv = LiveDriver(nodes, sms, chooser, k, cfg)
    end = cfg["t_est"] + k * max(cfg["gaps"]) + cfg["horizon_hbs"] * cfg["hb"] + 0.5
    with own_uniform(chooser, list(cfg["uniform"])):
        sim = Simulation(entities=[net, *nodes, drv], end_time=Instant.from_seconds(end))
        for nd in nodes:
            for ev in nd.start():
                sim.schedule(ev)
        sim.schedule(Event(time=Instant.from_seconds(cfg["t_est"]), event_type="establish", target=drv))
        hook = None
        if trace is not None:
            def hook(ev):
                if ev.event_type.startswith("Raft") and isinstance(ev.target, RaftNode):
                    md = ev.context.get("metadata", {})
                    trace.append(f"    t={ev.time.nanoseconds / 1e6:9.3f}ms {ev.event_type[4:]:22s} -> {ev.target.name} "
                                 f"{ {k_: v for k_, v in md.items() if k_ not in ('destination',)} }")
        info = run_guarded(sim, max_events=20000, storm=2000, on_event=hook)
    viol = []
    if info["outcome"] != "done":
        viol.append((f"{COMP}/liveness/simulation-{info['outcome']}",
                     f"fault-free run did not finish within the event horizon: {info}"))
    elif drv.outcome == "established" and drv.final is not None and len(drv.cmds) == k:
        for nm in names:
            got = drv.final[nm]
            if got != drv.cmds:
                shape = ("applied-out-of-submission-order" if sorted(got) == sorted(drv.cmds) or
                         any(c not in drv.cmds for c in got) or got != drv.cmds[:len(got)]
                         else "command-not-applied-by-every-node")
                viol.append((f"{COMP}/liveness/{shape}",
                             f"fault-free network, delays <= {max(cfg['menu']) * 1e3:.0f} ms, leader {drv.leader.name} "
                             f"established at {cfg['t_est']} s; submitted {drv.cmds} to it; "
                             f"{cfg['horizon_hbs']} heartbeat intervals after the last submit {nm} has applied {got}"))
                break
        for cmd, fut in zip(drv.cmds, drv.futs):
            if fut.is_resolved:
                val = fut.value
                idx = val[0] if isinstance(val, (tuple, list)) and val else val
                e = drv.leader.log.get(idx) if isinstance(idx, int) else None
                if e is None or e.command != cmd or idx > drv.leader.log.commit_index:
                    viol.append((f"{COMP}/submit-future/resolved-by-other-command",
                                 f"future of submit({cmd!r}) resolved with {val!r}; entry there: {e!r}"))
    obs = (drv.outcome, drv.leader.name if drv.leader else None, tuple(drv.cmds),
           tuple(sorted((nm, tuple(v)) for nm, v in (drv.final or {}).items())),
           tuple((nm, tuple(sms[nm].at)) for nm in names),
           tuple(f.is_resolved and freeze(f.value) for f in drv.futs),
           tuple((n.name, n.state.name, n.current_term, n.log.last_index, n.log.commit_index) for n in nodes))
    return drv, viol, obs


def _live_subtree(job):
    """All executions whose FIRST deviation is ``prefix`` (prefix ends with a non-zero choice),
    with up to ``bound`` deviations in total."""
    k, prefix, shapes, bound = job
    st = {"kind": "live", "k": k, "exec": 0, "trans": 0, "outcomes": set(), "viol": {}, "nontriv": 0, "kinds": {}, "sample": None}
    stack = [(prefix, shapes, 1 if prefix else 0)]
    while stack:
        pre, shp, devs = stack.pop()
        ch = Chooser(pre, shp)
        drv, viol, obs = live_run(ch, k)
        st["exec"] += 1
        st["trans"] += len(ch.choices)
        st["outcomes"].add(digest(obs))
        st["kinds"][drv.outcome] = st["kinds"].get(drv.outcome, 0) + 1
        if drv.outcome == "established" and devs > 0:
            st["nontriv"] += 1
        for fp, desc in viol:
            if fp not in st["viol"]:
                st["viol"][fp] = (desc, {"driver": "live", "k": k, "choices": list(ch.choices)})
        if st["sample"] is None and devs == bound:
            st["sample"] = {"k": k, "deviations": [(i, c, ch.points[i][1]) for i, c in enumerate(ch.choices) if c],
                            "outcome": drv.outcome, "final": drv.final}
        if devs >= bound:
            continue
        new = []
        for i in range(len(pre), len(ch.choices)):
            pn, _tag = ch.points[i]
            for alt in range(1, pn):
                new.append((ch.choices[:i] + [alt], ch.points[: i + 1], devs + 1))
        stack.extend(reversed(new))
    return st


def live_jobs(k, bound):
    """Default execution (run here) + one job per possible FIRST deviation (a partition of the space)."""
    ch0 = Chooser()
    drv, viol, obs = live_run(ch0, k)
    shapes = list(ch0.points)
    jobs = [("live", k, list(ch0.choices[:i]) + [alt], shapes[: i + 1], bound)
            for i, (pn, _t) in enumerate(shapes) for alt in range(1, pn)] if bound >= 1 else []
    first = {"kind": "live", "k": k, "exec": 1, "trans": len(ch0.choices), "outcomes": {digest(obs)},
             "viol": {fp: (desc, {"driver": "live", "k": k, "choices": []}) for fp, desc in viol},
             "nontriv": 0, "kinds": {drv.outcome: 1}, "sample": None, "points": len(shapes)}
    return first, jobs


# ---------------------------------------------------------------------------
# tiers
# ---------------------------------------------------------------------------
# (driver name, world, overrides, max_states) — biggest first (they start first in the pool)
QUICK_WORLDS = [
    ("change-t2", "change", dict(timeouts=2, max_term=3, hbs=0, max_msgs=4), 300_000),
    ("change-t1", "change", dict(timeouts=1, max_term=2, hbs=1), 300_000),
    ("fig8", "fig8", dict(max_msgs=4), 300_000),
    ("stale-resp5", "stale-resp5", dict(max_msgs=5), 300_000),
    ("behind", "behind", dict(hbs=0, max_msgs=4), 300_000),
    ("repaired", "repaired", dict(hbs=0, max_msgs=4), 300_000),
    ("late-vote", "late-vote", None, 300_000),
    ("split4", "split4", None, 300_000),
    ("releader5", "releader5", None, 300_000),
    ("elect-t3", "elect", dict(timeouts=3, max_msgs=4), 300_000),
    ("diverge", "diverge", dict(timeouts=1, max_term=3, hbs=1, max_msgs=4), 300_000),
    ("deposed", "deposed", None, 300_000),
    ("conflict-p0s1", "conflict-p0s1", dict(hbs=3, max_msgs=5), 300_000),
    ("conflict-p0s2", "conflict-p0s2", dict(hbs=3, max_msgs=5), 300_000),
    ("conflict-p1s1", "conflict-p1s1", dict(hbs=3, max_msgs=5), 300_000),
    ("conflict-p1s2", "conflict-p1s2", dict(hbs=3, max_msgs=5), 300_000),
    ("repl4", "repl4", dict(hbs=0), 300_000),
    ("free", "free", dict(max_msgs=3), 300_000),
    ("crash", "crash-repl", dict(hbs=1, max_msgs=2, timeouts=1), 300_000),
    ("repl", "repl", None, 300_000),
    ("repl-drop", "repl-drop", dict(hbs=2, drops=1, max_msgs=3), 300_000),
]
THOROUGH_WORLDS = [
    ("stale-resp5", "stale-resp5", dict(max_msgs=5, timeouts=2), 600_000),
    ("elect5", "elect5", dict(max_msgs=6), 600_000),
    ("elect4", "elect", dict(n=4, timeouts=2, max_msgs=5), 150_000),
    ("change-t1", "change", dict(timeouts=1, max_term=2, hbs=2, max_msgs=4), 600_000),
    ("crash", "crash-repl", dict(hbs=1, max_msgs=4), 600_000),
    ("behind", "behind", dict(hbs=1, max_msgs=4), 600_000),
    ("repaired", "repaired", None, 600_000),
    ("fig8", "fig8", dict(hbs=0, max_msgs=5), 600_000),
    ("elect-4t3", "elect-t3", dict(max_msgs=4), 600_000),
    ("change-t2", "change", dict(timeouts=2, max_term=3, hbs=0, max_msgs=6), 600_000),
    ("elect", "elect", dict(max_msgs=5), 600_000),
    ("late-vote0", "late-vote0", dict(timeouts=2, max_msgs=6), 600_000),
    ("repl-drop", "repl-drop", None, 600_000),
    ("change-t2-hb1", "change", dict(timeouts=2, max_term=3, hbs=1, max_msgs=3), 600_000),
    ("change-half", "change-half", dict(max_msgs=3), 600_000),
    ("free", "free", dict(max_msgs=4), 600_000),
    ("repl", "repl", dict(submits=2, hbs=3), 600_000),
    ("crash-change", "crash-change", dict(max_msgs=3, timeouts=1), 600_000),
    ("repl-s3", "repl", dict(submits=3, hbs=2), 600_000),
    ("crash-change-m2", "crash-change", dict(max_msgs=2), 600_000),
    ("repl4", "repl4", None, 600_000),
    ("diverge", "diverge", dict(timeouts=2, max_term=3, hbs=1, max_msgs=4), 600_000),
    ("elect-t2", "elect", dict(timeouts=2, max_msgs=8), 600_000),
    ("split4", "split4", None, 600_000),
    ("deposed", "deposed", dict(hbs=2, max_msgs=6), 600_000),
    ("conflict-p0s1", "conflict-p0s1", dict(hbs=3, submits=1, max_msgs=5), 600_000),
    ("conflict-p0s2", "conflict-p0s2", dict(hbs=3, submits=1, max_msgs=5), 600_000),
    ("conflict-p1s1", "conflict-p1s1", dict(hbs=3, submits=1, max_msgs=5), 600_000),
    ("conflict-p1s2", "conflict-p1s2", dict(hbs=3, submits=1, max_msgs=5), 600_000),
    ("releader5", "releader5", None, 600_000),
    ("late-vote", "late-vote", None, 600_000),
]


def main(tier, seed, only=None):
    run = Run(PID, tier, seed, "model_checking",
              rule=("bfs-* drivers: states = distinct canonical states (node-permutation symmetry reduced) of three "
                    "real RaftNode objects + in-flight bag + live timers + ghosts, transitions = real "
                    "Event.invoke()/submit() calls, executions = one shortest real trace per distinct state; "
                    "non-trivial = distinct states in which at least two nodes have started an election, or two "
                    "logs diverge, or two terms have had a leader, or a message overtook an older one of its type on the "
                    "same link, or a message was lost / a node crashed; "
                    "outcomes = distinct (leader-per-term, committed commands, applied sequences, resolved futures). "
                    "live-* drivers: executions = complete runs of the real Simulation+Network, transitions = "
                    "owned choice points answered, non-trivial = runs with >= 1 deviation from the default "
                    "delays/timeouts in which the premise (single established leader) held, states = distinct "
                    "end-to-end observations (premise outcome, leader, per-node apply instants, futures). "
                    "log-ops driver: every op (append, append_entry, truncate_from(i), advance_commit(i) with i from "
                    "below 1 to past the end) from every reachable state of the real Log class within the entry bound, "
                    "full public observation compared with a list reference after each op; non-trivial = "
                    "truncations that actually remove entries"),
              assumptions=["E1 abstracts time: any live timer may fire and any in-flight message may be delivered "
                           "at any moment (safety must not depend on timing); the clock object stays at 0",
                           "a partition is modelled by losing the messages it would block; a crash is the "
                           "`_crashed` flag CrashNode sets (Event.invoke drops events), restart clears it and "
                           "calls start() again",
                           "messages are not duplicated (the statement names delay, reordering, loss)",
                           "cluster size 3; 4 in split4 / repl4 and 5 in stale-resp5 / releader5 (both tiers); 4 / 5 also in thorough election worlds",
                           "E2 horizon: 4 heartbeat intervals after the last submit; premise checked at t_est: "
                           "exactly one leader, all other nodes followers of it in its term"])
    t0 = time.time()
    worlds = QUICK_WORLDS if tier == "quick" else THOROUGH_WORLDS
    budget_s = int(__import__("os").environ.get("C11_MAX_SECONDS", 0)) or (1200 if tier == "quick" else 3600)  # safety net only; the bounds are the state constraints
    jobs = []
    for dname, wname, ov, cap in worlds:
        if only and "bfs-" + dname not in only and dname not in only:
            continue
        jobs.append(("bfs", dname, wname, ov, cap, budget_s))
    if not only or "log-ops" in only:
        jobs.append(("log", 3, 6) if tier == "quick" else ("log", 4, 8))
    lives = [(2, 2)] if tier == "quick" else [(1, 2), (2, 2), (3, 2)]
    results, ljobs = [], []
    for k, bound in lives:
        if only and f"live-k{k}" not in only:
            continue
        first, lj = live_jobs(k, bound)
        first["bound"] = bound
        results.append(first)
        ljobs += lj
    results += pmap(_job, jobs + rotate(ljobs, seed), ordered=False)
    live_out = {}
    for st in results:
        if st["kind"] == "log":
            d = run.driver("log-ops", st["bounds"])
            d.states, d.transitions, d.executions = st["states"], st["transitions"], st["transitions"]
            d.nontrivial, d.outcomes = st["nt"], st["oc"]
            d.exhaustive = True  # every op from every reachable reference state within max_entries / max_ops
            d.extra = {"depth_completed": st["depth"], "all_states_within_max_entries_reached": st["exhaustive_states"]}
            d.samples, d.wall_s = st["samples"], st["wall"]
            for fp, (desc, rep) in st["viol"].items():
                run.violation(fp, desc, rep)
        elif st["kind"] == "bfs":
            d = run.driver("bfs-" + st["dname"], st["bounds"])
            d.states, d.transitions, d.executions = st["states"], st["transitions"], st["states"]
            d.nontrivial, d.outcomes = st["nt"], st["oc"]
            d.exhaustive, d.caps, d.wall_s = st["exhaustive"], st["caps"], st["wall"]
            d.extra = {"depth_completed": st["depth"], "level_sizes": st["levels"], "terminal_states": st["terminal"]}
            d.samples = st["samples"]
            for fp, desc, rep in st["viol"]:
                run.violation(fp, desc, rep)
        else:
            k = st["k"]
            d = run.driver(f"live-k{k}", dict(LIVE, nodes=3, commands=k,
                                               note="choice 0 = smallest delay / rotating default timeout / zero gap"))
            d.executions += st["exec"]
            d.transitions += st["trans"]
            d.nontrivial += st["nontriv"]
            lo = live_out.setdefault(k, {"outcomes": set(), "kinds": {}})
            lo["outcomes"] |= st["outcomes"]
            for kk, vv in st["kinds"].items():
                lo["kinds"][kk] = lo["kinds"].get(kk, 0) + vv
            if "points" in st:
                d.bounds["deviation_bound"] = st["bound"]
                d.extra["choice_points_default_run"] = st["points"]
                d.extra["deviation_bound_completed"] = st["bound"]
            for fp, (desc, rep) in st["viol"].items():
                run.violation(fp, desc, rep)
            if st["sample"] and len(d.samples) < 2:
                d.samples.append(st["sample"])
    for k, lo in live_out.items():
        d = run.driver(f"live-k{k}")
        d.states = d.outcomes = len(lo["outcomes"])
        d.extra["premise_outcomes"] = lo["kinds"]
        d.wall_s = time.time() - t0
    return run.finish()


def replay(data):
    rep = data["replay"]
    print(f"fingerprint: {data.get('fingerprint')}")
    if rep.get("driver") == "log-ops":
        lg, ref = Log(), RefLog()
        bad = False
        for op in rep["ops"]:
            op = tuple(op)
            ri, rr = _log_apply(lg, ref, op)
            obs, want = _log_observe(lg), ref.observe()
            diff = [k for k in want if obs.get(k) != want[k]] + (["return"] if ri != rr else [])
            print(f"  {op}: returned {ri!r} (reference {rr!r}); entries {obs['get']} commit {obs['commit_index']}"
                  f" | reference {want['get']} commit {want['commit_index']}" + (f"   !! differs in {diff}" if diff else ""))
            bad = bad or bool(diff)
        return 1 if bad else 0
    if rep.get("driver") == "live":
        tr = []
        ch = Chooser(rep["choices"])
        drv, viol, _obs = live_run(ch, rep["k"], trace=tr)
        devs = [(i, c, ch.points[i][1]) for i, c in enumerate(ch.choices) if c]
        print(f"live run k={rep['k']}; deviations from the default answers (point, choice, kind): {devs}")
        print("\n".join(tr))
        for rec in drv.log:
            print("   client:", rec)
        for fp, desc in viol:
            print(f"  !! {fp}: {desc}")
        return 1 if any(fp == data.get("fingerprint") for fp, _d in viol) or (viol and not data.get("fingerprint")) else 0
    mk = MakeWorld(rep["world"], rep.get("overrides") or None)
    w0 = mk()
    print(f"world {rep['world']} overrides={rep.get('overrides')}; scripted prefix ({len(mk.prefix_labels)} moves):")
    for lab in mk.prefix_labels:
        print("     ", _short(lab))
    print("  start:", w0.describe())
    w = mk()
    hit = []
    for i, lab in enumerate(rep["labels"]):
        lab = _bfs._thaw(lab)
        w.apply(lab)
        print(f"  step {i + 1}: {_short(lab)}\n          -> {w.describe()}")
        for fp, d in w.check():
            print(f"    !! {fp}: {d}")
            hit.append(fp)
    want = data.get("fingerprint")
    return 1 if (want in hit if want else bool(hit)) else 0

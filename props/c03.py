"""C03 — the same model and seeds give the same run, every time and in every process.

Engine E4: exhaustive enumeration of a FINITE MENU of environment answers the
library must be insensitive to

    PYTHONHASHSEED   in {0, 1, 4242, one derived from VERIF_SEED}      (thorough: 8 values)
    prior activity   in {fresh (forked child of a pristine interpreter: nothing built or run before),
                         none  (the catalogue models that precede it, same interpreter),
                         busy  (three unrelated simulations + ~10k events first, catalogue walked backwards)}
                        (thorough adds: the model alone in a newly exec'ed interpreter)
    wall clock       in {real, time.* shifted +10 years and running 1000x faster}
    process          in {same process twice back to back, fresh subprocess}

for every model of a catalogue (props/c03_catalogue.py: one compact model per
component family) and every seed in {1, 2, VERIF_SEED}.  Hash randomisation can
only be varied by starting a new interpreter, so each environment answer is a
subprocess (props/c03_worker.py) that runs the WHOLE catalogue and prints one
digest line per run.  Oracle (the statement, literally): for one (model, seeds)
the digest of the delivery sequence [(time_ns, event_type, target name)] and
the digest of the component statistics are identical under every environment
answer.  A divergence is attributed to the dimension(s) that change the digest
with every other answer held fixed: fingerprint ``<model>/<dimension>``.
"""
from __future__ import annotations

import itertools
import json
import os
import subprocess
import sys
import time
from concurrent.futures import ThreadPoolExecutor

from mc.evidence import Run
from mc.harness import rotate

PID = "C03"
HERE = os.path.dirname(os.path.abspath(__file__))
WORKER = os.path.join(HERE, "c03_worker.py")
WORKER_TIMEOUT_S = 2400
BASE_HASH = 0
DIMS = ("rerun", "clock", "hashseed", "prior")


# ---------------------------------------------------------------------------
# menu
# ---------------------------------------------------------------------------
def derived_hashseed(seed: int) -> int:
    v = (seed * 2654435761 + 97531) % 4294967291 + 5
    while v in (0, 1, 4242):
        v += 7
    return v


def model_seeds(seed: int):
    out = [1, 2]
    s = seed
    while s in out:
        s += 1000
    return out + [s]


def hash_menu(tier: str, seed: int):
    base = [0, 1, 4242, derived_hashseed(seed)]
    if tier == "thorough":
        base += [7, 31337, 2 ** 31 - 1, derived_hashseed(seed + 1)]
    return base


def catalogue_names():
    # the catalogue is imported lazily (needs the library); names only
    from props import c03_catalogue
    return list(c03_catalogue.MODELS)


def coupled_modules():
    """grep of the library tree: modules that take seed= / rng= or touch random, numpy.random, uuid,
    time or builtin hash().  Returns {relative path: [patterns found]}."""
    import importlib.util
    import re
    spec = importlib.util.find_spec("happysimulator")
    root = list(spec.submodule_search_locations)[0]
    pats = {"import random": re.compile(r"^\s*(import|from) random\b", re.M),
            "import uuid": re.compile(r"^\s*(import|from) uuid\b", re.M),
            "import time": re.compile(r"^\s*(import time\b|from time\b)", re.M),
            "numpy.random": re.compile(r"\bnp\.random\b|numpy\.random"),
            "hash()": re.compile(r"(?<![\w.])hash\("),
            "seed/rng parameter": re.compile(r"\b(seed|rng)\b")}
    out = {}
    for dirpath, dirnames, filenames in os.walk(root):
        dirnames[:] = sorted(x for x in dirnames if x != "__pycache__")
        for fn in sorted(filenames):
            if fn.endswith(".py"):
                full = os.path.join(dirpath, fn)
                try:
                    src = open(full, encoding="utf-8").read()
                except OSError:
                    continue
                hits = [k for k, rx in pats.items() if rx.search(src)]
                if hits:
                    out[os.path.relpath(full, root)] = hits
    return out


def coverage_report():
    """Every environment-coupled module of the package: covered by which models, or why not."""
    from props import c03_catalogue
    table = c03_catalogue.COVERAGE
    found = coupled_modules()
    rep, unlisted = {}, []
    for mod, hits in sorted(found.items()):
        if mod in table:
            models, note = table[mod]
            rep[mod] = ({"touches": hits, "covered_by": models, "note": note} if models
                        else {"touches": hits, "not_covered": note})
        else:
            unlisted.append(mod)
            rep[mod] = {"touches": hits, "not_covered": "module not yet classified in props/c03_catalogue.COVERAGE"}
    return rep, unlisted


PRIORS_OF = {"front": ("none",), "front-fresh": ("fresh", "none"), "busy": ("busy",), "solo": ("exec-fresh",)}


def build_envs(tier, seed, names):
    """Worker jobs (one interpreter each).
    mode 'front'      : the catalogue in order in-process (prior 'none' = the models before it);
    mode 'front-fresh': first every model in a forked child of the still pristine interpreter
                        (prior 'fresh': nothing was built or run before), then as 'front';
    mode 'busy'       : three unrelated simulations + 10k events, then the catalogue backwards;
    mode 'solo'       : (thorough) one model alone in a newly exec'ed interpreter (prior 'exec-fresh').
    quick forks the 'fresh' pass under the default hash seed / real clock only (first seed);
    thorough under every hash seed with the real clock (all seeds)."""
    seeds = model_seeds(seed)
    jobs = []
    for hs, clock, mode in itertools.product(hash_menu(tier, seed), ("real", "warp"), ("front", "busy")):
        job = {"hashseed": hs, "clock": clock, "mode": mode, "models": None, "seeds": seeds,
               "reps": 2 if (mode == "front" or tier == "thorough") else 1}
        if mode == "front" and clock == "real" and (tier == "thorough" or hs == BASE_HASH):
            job["mode"] = "front-fresh"
            job["fresh_seeds"] = seeds if tier == "thorough" else seeds[:1]
        jobs.append(job)
    if tier == "thorough":
        for name in names:
            # (the forked 'fresh' pass already covers every hash seed; one exec'ed interpreter per
            #  model checks that fork-fresh and exec-fresh agree)
            jobs.append({"hashseed": BASE_HASH, "clock": "real", "mode": "solo", "models": [name], "reps": 2,
                         "seeds": seeds})
    return jobs


def expected_rows(job, names):
    nm = len(job["models"] or names)
    n = nm * len(job["seeds"]) * job["reps"]
    if job["mode"] == "front-fresh":
        n += nm * len(job["fresh_seeds"]) * job["reps"]
    return n


# ---------------------------------------------------------------------------
# subprocess plumbing
# ---------------------------------------------------------------------------
def run_worker(job, dump=None, timeout=WORKER_TIMEOUT_S):
    spec = {"clock": job["clock"], "prior": "busy" if job["mode"] == "busy" else "none",
            "seeds": job["seeds"], "models": job["models"], "reps": job["reps"], "dump": dump}
    if job["mode"] == "solo":
        spec["label"] = "exec-fresh"
    elif job["mode"] == "front-fresh":
        spec["fresh"] = {"seeds": job["fresh_seeds"], "par": 4}
    env = dict(os.environ)
    env["PYTHONHASHSEED"] = str(job["hashseed"])
    env.pop("PYTHONPATH", None)
    t0 = time.time()
    try:
        p = subprocess.run([sys.executable, WORKER, json.dumps(spec)], env=env, capture_output=True, text=True,
                           timeout=timeout, cwd=os.path.dirname(HERE))
        rc, out, err = p.returncode, p.stdout, p.stderr
    except subprocess.TimeoutExpired as ex:
        out = ex.stdout.decode() if isinstance(ex.stdout, bytes) else (ex.stdout or "")
        rc, err = -9, "timeout"
    rows = []
    for line in out.splitlines():
        line = line.strip()
        if line.startswith("{"):
            try:
                rows.append(json.loads(line))
            except ValueError:
                pass
    return {"job": job, "rows": rows, "rc": rc, "err": (err or "")[-2000:], "wall": time.time() - t0}


def run_jobs(jobs, workers=None):
    n = workers or int(os.environ.get("VERIF_WORKERS", "0")) or min(16, os.cpu_count() or 4)
    with ThreadPoolExecutor(max_workers=n) as ex:
        return list(ex.map(run_worker, jobs))


# ---------------------------------------------------------------------------
# oracle + attribution
# ---------------------------------------------------------------------------
def sig(row):
    return (row["log"], row["stats"], row["outcome"], row["n"])


def other_equal(a, b, dim):
    """env tuples a, b = (hashseed, prior, clock) equal in every dimension but ``dim``."""
    idx = {"hashseed": 0, "prior": 1, "clock": 2}[dim]
    return all(a[i] == b[i] for i in range(3) if i != idx) and a[idx] != b[idx]


def analyse(table):
    """table: {(model, seed, library tree): {env(hashseed, prior, clock): {rep: row}}}
    Returns list of (model, dim, seed, envA, repA, envB, repB).

    One dimension at a time with every other answer held fixed.  Once a dimension is found to
    change the digest it is pinned to its default answer, so that it cannot be blamed on the
    dimensions examined after it (a wall-clock dependent model is not repeatable under the warped
    clock, which is not a hash-seed dependence)."""
    IDX = {"hashseed": 0, "prior": 1, "clock": 2}
    found = []
    for (model, seed, _tree), by_env in sorted(table.items()):
        flagged = set()
        live = {env: reps for env, reps in by_env.items() if 0 in reps}

        def pin(dim, default):
            nonlocal live
            pinned = {e: r for e, r in live.items() if e[IDX[dim]] == default}
            live = pinned or live

        def cross(dim):
            for a, b in itertools.combinations(sorted(live), 2):
                if other_equal(a, b, dim) and sig(live[a][0]) != sig(live[b][0]):
                    return a, b
            return None

        hit = cross("clock")
        if hit:
            found.append((model, "clock", seed, hit[0], 0, hit[1], 0))
            flagged.add("clock")
            pin("clock", "real")
        # same interpreter, back to back
        for env, reps in sorted(live.items()):
            if 1 in reps and sig(reps[0]) != sig(reps[1]):
                found.append((model, "rerun", seed, env, 0, env, 1))
                flagged.add("rerun")
                break
        for dim, default in (("hashseed", BASE_HASH), ("prior", "fresh")):
            hit = cross(dim)
            if hit:
                found.append((model, dim, seed, hit[0], 0, hit[1], 0))
                flagged.add(dim)
                pin(dim, default)
        if not flagged and len({sig(r) for reps in by_env.values() for r in reps.values()}) > 1:
            first = {env: reps[0] for env, reps in by_env.items() if 0 in reps}
            envs = sorted(first)
            a = envs[0]
            b = next(e for e in envs if sig(first[e]) != sig(first[a]))
            found.append((model, "combined", seed, a, 0, b, 0))
    return found


def job_for(env, jobs, model):
    """The worker job that produced environment ``env`` = (hashseed, prior, clock) for ``model``."""
    hs, prior, clock = env
    return next(j for j in jobs if j["hashseed"] == hs and j["clock"] == clock and prior in PRIORS_OF[j["mode"]]
                and (j["models"] is None or model in j["models"]))


def first_diff(la, lb):
    for i, (x, y) in enumerate(zip(la, lb)):
        if x != y:
            return i
    if len(la) != len(lb):
        return min(len(la), len(lb))
    return None


def describe_pair(model, seed, ra, rb):
    """ra/rb: full rows (with full_log/full_stats).  Human readable divergence."""
    la, lb = ra.get("full_log") or [], rb.get("full_log") or []
    i = first_diff([tuple(x) for x in la], [tuple(x) for x in lb])
    if i is not None:
        a = la[i] if i < len(la) else None
        b = lb[i] if i < len(lb) else None
        return (f"delivery #{i} differs: {a} vs {b} (runs have {len(la)} / {len(lb)} deliveries)", i)
    if ra.get("outcome") != rb.get("outcome"):
        return (f"outcome differs: {ra.get('outcome')} vs {rb.get('outcome')}", None)
    sa = json.dumps(ra.get("full_stats"), sort_keys=True)
    sb = json.dumps(rb.get("full_stats"), sort_keys=True)
    if sa != sb:
        k = next((j for j, (x, y) in enumerate(zip(sa, sb)) if x != y), min(len(sa), len(sb)))
        lo = max(0, k - 160)
        return (f"identical deliveries, statistics differ: ...{sa[lo:k + 60]}... vs ...{sb[lo:k + 60]}...", None)
    return ("no difference on re-run", None)


def confirm(model, seed, ja, pa, repa, jb, pb, repb):
    """Re-run the two environment answers with a full dump of the (model, seed) run."""
    def one(job, prior, rep):
        res = run_worker(dict(job), dump=[model, seed, prior])
        rows = [r for r in res["rows"] if r["model"] == model and r["seed"] == seed and r["rep"] == rep
                and r["prior"] == prior]
        return rows[0] if rows else None
    with ThreadPoolExecutor(max_workers=2) as ex:
        fa, fb = ex.submit(one, ja, pa, repa), ex.submit(one, jb, pb, repb)
        return fa.result(), fb.result()


# ---------------------------------------------------------------------------
def main(tier, seed, only=None):
    t0 = time.time()
    names = catalogue_names()
    partial = False
    if only:
        sel = [n for n in names if n in only]
        if sel:
            names, partial = sel, True
    run = Run(PID, tier, seed, "exploration",
              rule=("every catalogue model x seed is executed on the real library under EVERY environment answer of "
                    "the menu hashseed x prior-activity x wall-clock: each (hashseed, clock, {front|busy}) is one "
                    "newly started interpreter running the whole catalogue (front: every run twice back to back; "
                    "under the real clock additionally every model in a forked child of the still pristine "
                    "interpreter; thorough: also each model alone in a newly exec'ed interpreter); "
                    "states = distinct (model, seed, run digest); transitions = event deliveries executed; "
                    "non-trivial = distinct (model, seed, environment, run#) executions under an environment answer "
                    "that differs from the default (hashseed 0, nothing run before, real clock, first run) in at "
                    "least one dimension; drivers.envmatrix lists per model how often a run queried the module RNG, "
                    "numpy RNG, uuid4, the wall clock and builtin hash() of a str"),
              assumptions=["the delivery sequence is observed through sim.control.on_event (public API; C04 is the "
                           "property that the observed loop equals the unobserved one)",
                           "statistics = every entity's public stats snapshot / public counters + the model's "
                           "public queries (estimates, top-k, states), mapping order ignored, wall-clock fields removed",
                           "all PYTHONHASHSEED values are represented by a finite menu (a fresh interpreter per value)"])
    jobs = build_envs(tier, seed, names)
    if partial:
        for j in jobs:
            if j["models"] is None:
                j["models"] = names
        run.notes.append(f"partial run: models restricted to {names}")
    jobs = rotate(jobs, seed)
    results = run_jobs(jobs)
    try:  # post-mortem aid only (never read back): every digest row of this run
        with open(f"/tmp/C03-rows-{tier}-{seed}.jsonl", "w") as fh:
            for res in results:
                for row in res["rows"]:
                    fh.write(json.dumps({"hashseed": res["job"]["hashseed"], "clock": res["job"]["clock"],
                                         "mode": res["job"]["mode"], **row}) + "\n")
    except OSError:
        pass

    priors = ["fresh (forked child of the pristine interpreter)", "none (catalogue models before it)",
              "busy (3 unrelated simulations + 10k events, catalogue backwards)"]
    if tier == "thorough":
        priors.append("exec-fresh (model alone in a newly exec'ed interpreter)")
    d = run.driver("envmatrix", {"models": len(names), "model_seeds": model_seeds(seed),
                                 "hashseeds": hash_menu(tier, seed), "prior": priors, "clock": ["real", "warp"],
                                 "runs_back_to_back": "2 (quick: 1 in the 'busy' interpreters)", "interpreters": len(jobs)})
    table = {}
    trees = {}
    digests = set()
    coupling = {}
    sizes = {}
    default_env = (BASE_HASH, "fresh", "real")
    for res in results:
        job = res["job"]
        expect = expected_rows(job, names)
        if res["rc"] != 0 or len(res["rows"]) != expect:
            d.exhaustive = False
            d.caps.append(f"worker hashseed={job['hashseed']} clock={job['clock']} mode={job['mode']} "
                          f"rc={res['rc']} rows={len(res['rows'])}/{expect}: {res['err'][-300:]}")
        for row in res["rows"]:
            env = (job["hashseed"], row["prior"], job["clock"])
            tree = row.get("tree", "unknown")
            trees[tree] = trees.get(tree, 0) + 1
            if tree.startswith("unstable"):
                continue  # the library tree changed while this interpreter was importing it
            # runs are only compared with runs of the SAME library tree
            key = (row["model"], row["seed"], tree)
            table.setdefault(key, {}).setdefault(env, {})[row["rep"]] = row
            d.executions += 1
            d.transitions += row["n"]
            digests.add((row["model"], row["seed"], row["log"], row["stats"], row["outcome"]))
            if not (env == default_env and row["rep"] == 0):
                d.nontrivial += 1
            c = coupling.setdefault(row["model"], {})
            for k, v in row.get("coupling", {}).items():
                c[k] = max(c.get(k, 0), v)
            sizes[row["model"]] = max(sizes.get(row["model"], 0), row["n"])
            if row["outcome"] == "horizon":
                d.caps.append(f"{row['model']} seed={row['seed']}: stopped at the delivery horizon")
    if len(trees) > 1:
        d.exhaustive = False
        d.caps.append(f"the library source tree changed while the matrix was running ({len(trees)} distinct trees: "
                      f"{trees}); runs were only compared within one tree - re-run on a quiet tree")
    d.caps = sorted(set(d.caps))[:20]
    d.states = d.outcomes = len(digests)

    found = analyse(table)
    # one violation per (model, dimension), smallest seed first; every one is re-executed from its
    # replay data (two fresh interpreters, full delivery log) before it is reported
    firsts, seen = [], set()
    for v in found:
        if (v[0], v[1]) not in seen:
            seen.add((v[0], v[1]))
            firsts.append(v)

    def settle(v):
        model, dim, mseed, ea, repa, eb, repb = v
        cands = []
        if dim in ("hashseed", "clock"):
            # cheapest witness first: the model alone in two newly exec'ed interpreters that differ only in ``dim``
            solo = [{"hashseed": e[0], "clock": e[2], "mode": "solo", "models": [model], "reps": 1, "seeds": [mseed]}
                    for e in (ea, eb)]
            cands.append((solo[0], "exec-fresh", 0, solo[1], "exec-fresh", 0))
        cands.append((job_for(ea, jobs, model), ea[1], repa, job_for(eb, jobs, model), eb[1], repb))
        last = None
        for (ja, pa, ra_, jb, pb, rb_) in cands:
            ra, rb = confirm(model, mseed, ja, pa, ra_, jb, pb, rb_)
            last = (ja, pa, ra_, jb, pb, rb_, ra, rb)
            if ra is not None and rb is not None and sig(ra) != sig(rb):
                break
        return v, last

    with ThreadPoolExecutor(max_workers=8) as ex:
        settled = list(ex.map(settle, firsts))
    for (model, dim, mseed, ea, repa, eb, repb), (ja, pa, ra_, jb, pb, rb_, ra, rb) in settled:
        if ra is None or rb is None:
            detail, reproduced = "could not re-run the pair", False
        else:
            detail, _ = describe_pair(model, mseed, ra, rb)
            reproduced = sig(ra) != sig(rb)
        desc = (f"model '{model}' seed={mseed}: run digest changes with the environment dimension '{dim}' "
                f"(first seen: env A hashseed={ea[0]} prior={ea[1]} clock={ea[2]} run#{repa}; "
                f"env B hashseed={eb[0]} prior={eb[1]} clock={eb[2]} run#{repb}); re-executed as "
                f"A[hashseed={ja['hashseed']} prior={pa} clock={ja['clock']} run#{ra_}] vs "
                f"B[hashseed={jb['hashseed']} prior={pb} clock={jb['clock']} run#{rb_}]: {detail}"
                + ("" if reproduced else " [divergence did not reproduce on the confirmation re-run]"))
        run.violation(f"{model}/{dim}", desc,
                      {"driver": "envmatrix", "model": model, "seed": mseed, "dimension": dim,
                       "a": {"job": ja, "prior": pa, "rep": ra_}, "b": {"job": jb, "prior": pb, "rep": rb_}})
    by_model = {}
    for (m, sd, _t), by_env in table.items():
        for reps in by_env.values():
            if 0 in reps:
                by_model.setdefault(m, {}).setdefault(sd, sig(reps[0]))
    seed_insensitive = sorted(m for m, per in by_model.items() if len(set(per.values())) <= 1 < len(per))
    try:
        cov, unlisted = coverage_report()
    except Exception as ex:  # pragma: no cover  (reporting only)
        cov, unlisted = {"error": repr(ex)}, []
    if unlisted:
        run.notes.append(f"environment-coupled modules not classified in the catalogue coverage table: {unlisted}")
    d.extra = {"environment_coupled_modules": cov,
               "environment_coupled_modules_summary": {
                   "covered": sum(1 for v in cov.values() if isinstance(v, dict) and "covered_by" in v),
                   "not_covered": sorted(k for k, v in cov.items() if isinstance(v, dict) and "not_covered" in v)},
               "explicit_seed_models(global RNG state set by the environment answer)": sorted(
                   __import__("props.c03_catalogue", fromlist=["x"]).EXPLICIT_SEEDS & set(names)),
               "per_model_environment_queries(max per run)": coupling,
               "per_model_deliveries": sizes,
               "models_whose_digest_ignores_the_seed": seed_insensitive,
               "divergent_model_dimensions": sorted(f"{m}/{dm}" for m, dm in seen)}
    for res in results[:3]:
        rows = res["rows"][:1]
        for r in rows:
            d.samples.append({"env": [res["job"]["hashseed"], r["prior"], res["job"]["clock"]],
                              "model": r["model"], "seed": r["seed"], "n": r["n"],
                              "log_digest": r["log"], "stats_digest": r["stats"]})
    d.wall_s = time.time() - t0
    return run.finish()


# ---------------------------------------------------------------------------
def replay(data):
    rep = data["replay"]
    model, seed = rep["model"], rep["seed"]
    ja, jb = rep["a"]["job"], rep["b"]["job"]
    pa, pb = rep["a"]["prior"], rep["b"]["prior"]
    print(f"model={model} seed={seed} dimension={rep['dimension']}")
    print(f"  env A: hashseed={ja['hashseed']} prior={pa} clock={ja['clock']} rep={rep['a']['rep']}")
    print(f"  env B: hashseed={jb['hashseed']} prior={pb} clock={jb['clock']} rep={rep['b']['rep']}")
    ra, rb = confirm(model, seed, ja, pa, rep["a"]["rep"], jb, pb, rep["b"]["rep"])
    if ra is None or rb is None:
        print("  could not run the workers")
        return 0
    detail, i = describe_pair(model, seed, ra, rb)
    la, lb = ra.get("full_log") or [], rb.get("full_log") or []
    if i is not None:
        lo = max(0, i - 5)
        for j in range(lo, min(max(len(la), len(lb)), i + 6)):
            a = tuple(la[j]) if j < len(la) else None
            b = tuple(lb[j]) if j < len(lb) else None
            print(f"  #{j:5d}  A={a}  B={b}{'   <<< differs' if a != b else ''}")
    print(f"  A: n={ra['n']} log={ra['log']} stats={ra['stats']} outcome={ra['outcome']}")
    print(f"  B: n={rb['n']} log={rb['log']} stats={rb['stats']} outcome={rb['outcome']}")
    print(f"  !! {detail}" if sig(ra) != sig(rb) else "  digests identical")
    return 1 if sig(ra) != sig(rb) else 0

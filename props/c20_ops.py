"""C20 — multi-object operation sequences (sketches driven from NON-INITIAL states).

``ops`` driver: 3 objects of one sketch configuration, ALL sequences up to a
depth over the operations

    add(obj, item[, weight])   obj.merge(other)  (every direction)   obj.clear()

(optionally with every public read-only query called on every object after
every operation).  Objects are interchangeable at the start, so only sequences
that introduce the objects in order A, B, C are executed (object-permutation
symmetry; every other sequence is a relabelling of one of them).

Ghost state per object: the stream it has absorbed since its last clear()
(merge appends the other object's ghost stream; the other object's ghost is
unchanged).  Oracle after every sequence, on EVERY object (so aliasing between
objects and damage to the merged-in object are seen):
  * Bloom / Count-Min / HyperLogLog: the object's public observation equals the
    observation of a fresh sketch fed the ghost stream ("merging gives exactly
    the sketch of the concatenated streams", chained), plus the one-sided clause;
  * ReservoirSampler: exactly min(k, n) items, a sub-multiset of the ghost stream;
  * TDigest: quantile grid non-decreasing and inside [min, max] of the ghost stream.
clear() starts a new epoch: the statement's "for any input stream" is read per
epoch (the library documents clear() as "reset to the initial empty state").

``topk-epochs`` driver (TopK has no merge clause): one object, ALL pairs
(stream s1, stream s2): feed s1, clear(), feed s2; space-saving clauses against
the exact counts of s2 only.
"""
from __future__ import annotations

import hashlib
import itertools
import time

from props import c20_lib as L
from props.c20_lib import add, make_family


def h8(b) -> int:
    if not isinstance(b, (bytes, bytearray)):
        b = repr(b).encode()
    return int.from_bytes(hashlib.blake2b(b, digest_size=8).digest(), "big")


NAMES = "ABC"


def fmt_op(op):
    if op[0] == "add":
        return f"{NAMES[op[1]]}.add({op[2]!r}" + (f", {op[3]})" if op[3] != 1 else ")")
    if op[0] == "merge":
        return f"{NAMES[op[1]]}.merge({NAMES[op[2]]})"
    return f"{NAMES[op[1]]}.clear()"


def bloom_word_alphabet(m, h, seed, ncand=400):
    """Items whose bits fall into different 64-bit words of the filter (hint: ``_bits`` of
    single-item filters; fallback without that name: the first candidates)."""
    by = {}
    for x in range(ncand):
        f = L.BloomFilter(size_bits=m, num_hashes=h, seed=seed)
        f.add(x)
        bits = getattr(f, "_bits", None)
        if not isinstance(bits, list):
            return [0, 1], list(range(2, 42)), {"hints": "public-only"}
        words = tuple(i for i, wd in enumerate(bits) if wd)
        by.setdefault(words, x)
    nwords = (m + 63) // 64
    items = [by[w] for w in (((0,), (nwords - 1,)) if nwords > 1 else ((0,),)) if w in by]
    for w, x in sorted(by.items()):
        if len(items) >= 2:
            break
        if x not in items:
            items.append(x)
    info = {"words_of_item": {repr(x): [w for w, y in by.items() if y == x][0] for x in items}}
    probes = [x for x in range(ncand) if x not in items][:40]
    return items, probes, info


# ---------------------------------------------------------------------------
def canonical_ops(nobj, syms, used, merges, clears):
    """Operations allowed next when objects 0..used-1 have been referenced so far.
    Yields (op, used_after)."""
    top = min(used + 1, nobj)
    for i in range(top):
        u1 = max(used, i + 1)
        for (x, w) in syms:
            yield ("add", i, x, w), u1
        if clears:
            yield ("clear", i), u1
        if merges:
            for j in range(min(u1 + 1, nobj)):
                if j != i:
                    yield ("merge", i, j), max(u1, j + 1)


def run_ops(fam, seq, nobj, queried):
    objs = [fam.new() for _ in range(nobj)]
    ghosts = [[] for _ in range(nobj)]
    if queried:
        for o in objs:
            fam.touch(o)
    for op in seq:
        i = op[1]
        if op[0] == "add":
            add(objs[i], op[2], op[3])
            ghosts[i] = ghosts[i] + [(op[2], op[3])]
        elif op[0] == "merge":
            objs[i].merge(objs[op[2]])
            ghosts[i] = ghosts[i] + ghosts[op[2]]
        else:
            objs[i].clear()
            ghosts[i] = []
        if queried:
            for o in objs:
                fam.touch(o)
    return objs, ghosts


def judge(fam, objs, ghosts, refmemo):
    """Oracle on every object.  Returns (violations [(fp, desc, obj index)], outcome)."""
    out = []
    v = []
    for i, (o, g) in enumerate(zip(objs, ghosts)):
        if fam.mergeable:
            oo, _k = fam.obs(o)
            key = tuple(g)
            ref = refmemo.get(key)
            if ref is None:
                ref = refmemo[key] = tuple(fam.observe(fam.build(g)))
            if oo != ref:
                lab, va, vb = _first_diff(oo, ref, fam.items + fam.probes)
                v.append((f"{fam.kind}/object-differs-from-sketch-of-absorbed-streams/{lab}",
                          f"object {NAMES[i]} absorbed {g} but has {lab}={va!r}; a fresh sketch of that stream has {vb!r}", i))
            vv, _nt, _o = fam.check(None, g, "chained", oo)
            out.append(h8(oo))
        else:
            vv, _nt, o1 = fam.check(o, g, "chained")
            out.append(o1)
        for fp, desc in vv:
            v.append((fp, f"object {NAMES[i]} (absorbed {g}): {desc}", i))
    return v, tuple(out)


def _first_diff(oa, ob, names=None):
    for (la, va), (_lb, vb) in zip(oa, ob):
        if va != vb:
            if names and isinstance(va, tuple) and isinstance(vb, tuple) and len(va) == len(vb) == len(names):
                d = [(names[i], va[i], vb[i]) for i in range(len(va)) if va[i] != vb[i]][:4]
                return la, {repr(k): a for k, a, _b in d}, {repr(k): b for k, _a, b in d}
            return la, va, vb
    return "observation", oa, ob


_FAMS = {}


def _fam(spec):
    key = repr(spec)
    if key not in _FAMS:
        if len(_FAMS) > 4:
            _FAMS.clear()
        _FAMS[key] = (make_family(spec), {})
    return _FAMS[key]


def _ops_work(job):
    spec, syms, nobj, depth, queried, prefix = job
    fam, refmemo = _fam(spec)
    t0 = time.process_time()
    st = {"exec": 0, "trans": 0, "nontriv": 0, "outcomes": set(), "viol": {}, "samples": []}

    def visit(seq):
        try:
            objs, ghosts = run_ops(fam, seq, nobj, queried)
            v, out = judge(fam, objs, ghosts, refmemo)
        except Exception as e:
            v, out = [(f"{fam.kind}/raised-on-valid-operations/{type(e).__name__}", f"{type(e).__name__}: {e}", 0)], None
        st["exec"] += 1
        st["trans"] += len(seq) + nobj
        kinds = {op[0] for op in seq}
        if ("merge" in kinds or "clear" in kinds) and "add" in kinds and len(seq) >= 3:
            st["nontriv"] += 1
        st["outcomes"].add(h8(out))
        for fp, desc, _i in v:
            cur = st["viol"].get(fp)
            if cur is None or len(cur[1]["seq"]) > len(seq):
                st["viol"][fp] = (desc + "   after " + "; ".join(fmt_op(o) for o in seq)
                                  + ("  [every read-only query called on every object after every operation]" if queried else ""),
                                  {"driver": "ops", "spec": spec, "nobj": nobj, "seq": [list(o) for o in seq],
                                   "queried": queried})
        if not st["samples"] and len(seq) == depth and "merge" in kinds and "clear" in kinds:
            st["samples"].append({"config": fam.label(), "ops": [fmt_op(o) for o in seq]})

    def rec(seq, used):
        visit(seq)
        if len(seq) >= depth:
            return
        for op, u in canonical_ops(nobj, syms, used, True, True):
            seq.append(op)
            rec(seq, u)
            seq.pop()

    if prefix is None:
        visit([])
    else:
        used = 0
        for op in prefix:
            used = max(used, op[1] + 1, (op[2] + 1) if op[0] == "merge" else 0)
        rec(list(prefix), used)
    st["cpu"] = time.process_time() - t0
    return st


def ops_jobs(spec, syms, nobj, depth, queried):
    jobs = [(spec, syms, nobj, depth, queried, None)]
    for op, _u in canonical_ops(nobj, syms, 0, True, True):
        jobs.append((spec, syms, nobj, depth, queried, (op,)))
    return jobs


def ops_plan(tier):
    q = tier == "quick"
    d = 4 if q else 5
    cfgs = []
    wi, wp, winfo = bloom_word_alphabet(128, 2, 0)
    cfgs.append((("BloomFilter", {"m": 128, "h": 2, "seed": 0, "items": wi, "probes": wp}), wi, winfo))
    bi, bp, binfo = L.bloom_alphabet(8, 2, 0, "int", 3)
    cfgs.append((("BloomFilter", {"m": 8, "h": 2, "seed": 0, "items": bi, "probes": bp}), [bi[0], bi[2]], binfo))
    ci, cp, cinfo = L.cms_alphabet(4, 2, 0, "int", 3)
    cfgs.append((("CountMinSketch", {"w": 4, "d": 2, "seed": 0, "items": ci, "probes": cp}), [ci[0], ci[2]], cinfo))
    hi, hp, hinfo, hs = L.hll_alphabet(4, 0, "int", 4)
    cfgs.append((("HyperLogLog", {"p": 4, "seed": 0, "items": hi, "probes": hp, "saturators": hs}), hi[:2], hinfo))
    for k in (1, 2):
        cfgs.append((("ReservoirSampler", {"k": k, "seed": 0, "items": [0, 1]}), [0, 1], {}))
    if not q:
        cfgs.append((("ReservoirSampler", {"k": 3, "seed": 1, "items": [0, 1]}), [0, 1], {}))
    for c in ((5,) if q else (2, 5)):
        cfgs.append((("TDigest", {"c": c, "items": [0.0, 16.0]}), [0.0, 16.0], {}))
    out = []
    for spec, two, info in cfgs:
        syms = [(two[0], 1), (two[1], 1), (two[0], 2)]
        for queried in (False, True):
            out.append((spec, syms, 3, d if not queried else 4, queried, info))
    return out


def run_ops_driver(run, tier, seed, pmap, rotate):
    t0 = time.time()
    plan = ops_plan(tier)
    d = run.driver("ops", {"objects": 3, "operations": "add(obj,item[,2]) x merge(obj,other) all directions x clear(obj)",
                           "symmetry": "objects introduced in order A,B,C (relabellings not re-run)",
                           "configs": [{"sketch": make_family(s).label(), "symbols": [list(x) for x in sy],
                                        "depth": dp, "read_only_queries_after_every_op": qd, "collision_structure": info}
                                       for (s, sy, _n, dp, qd, info) in plan]})
    jobs = []
    for (spec, syms, nobj, depth, queried, _info) in plan:
        jobs += ops_jobs(spec, syms, nobj, depth, queried)
    outcomes, allv, cpu = set(), [], 0.0
    for st in pmap(_ops_work, rotate(jobs, seed), ordered=False):
        cpu += st["cpu"]
        d.executions += st["exec"]
        d.transitions += st["trans"]
        d.nontrivial += st["nontriv"]
        outcomes |= st["outcomes"]
        allv += [(fp, desc, rep) for fp, (desc, rep) in st["viol"].items()]
        if len(d.samples) < 3:
            d.samples.extend(st["samples"])
    for fp, desc, rep in sorted(allv, key=lambda t: (t[0], len(t[2]["seq"]), repr(t[2]))):
        run.violation(fp, desc, rep)
    d.states = d.outcomes = len(outcomes)
    d.extra["nontrivial_rule"] = ("non-trivial = the sequence has >= 3 operations and mixes insertions with a merge or a clear "
                                  "(an object is driven from a non-initial state)")
    d.extra["worker_cpu_s"] = round(cpu, 1)
    d.wall_s = time.time() - t0


def replay_ops(rep):
    spec = (rep["spec"][0], rep["spec"][1])
    fam = make_family(spec)
    seq = [tuple(o) for o in rep["seq"]]
    nobj, queried = rep["nobj"], rep.get("queried")
    print(f"{fam.label()}: {nobj} objects" + ("; every read-only query on every object after every operation" if queried else ""))
    for n in range(1, len(seq) + 1):
        objs, ghosts = run_ops(fam, seq[:n], nobj, queried)
        print(f"  {fmt_op(seq[n - 1])}")
        for i, (o, g) in enumerate(zip(objs, ghosts)):
            brief = [(lab, val) for lab, val in fam.observe(o) if lab in ("item_count", "sample", "cardinality", "fill_ratio")]
            print(f"       {NAMES[i]}: absorbed {g}  {brief}")
    try:
        objs, ghosts = run_ops(fam, seq, nobj, queried)
        v, _out = judge(fam, objs, ghosts, {})
    except Exception as e:
        print(f"  !! raised {type(e).__name__}: {e}")
        return 1
    for fp, desc, _i in v:
        print(f"  !! {fp}: {desc}")
    return 1 if v else 0


# ---------------------------------------------------------------------------
# TopK: stream, clear(), stream
# ---------------------------------------------------------------------------
def _topk_epoch_work(job):
    spec, syms, n1, n2, first = job
    fam = make_family(spec)
    t0 = time.process_time()
    st = {"exec": 0, "trans": 0, "nontriv": 0, "outcomes": set(), "viol": {}, "samples": []}
    k = spec[1]["k"]
    s1s = [()] if first is None else [(first,) + r for n in range(n1) for r in itertools.product(syms, repeat=n)]
    s2s = [t for n in range(n2 + 1) for t in itertools.product(syms, repeat=n)]
    for s1 in s1s:
        for s2 in s2s:
            try:
                sk = fam.new()
                for (x, w) in s1:
                    add(sk, x, w)
                sk.clear()
                for (x, w) in s2:
                    add(sk, x, w)
                v, nt, out = fam.check(sk, list(s2), "after-clear")
            except Exception as e:
                v, nt, out = [(f"TopK/raised-on-valid-operations/{type(e).__name__}", f"{type(e).__name__}: {e}")], False, None
            st["exec"] += 1
            st["trans"] += len(s1) + len(s2) + 2
            if nt and len({x for x, _w in s1}) > k:
                st["nontriv"] += 1
            st["outcomes"].add(h8(out))
            for fp, desc in v:
                cur = st["viol"].get(fp)
                if cur is None or cur[1]["size"] > len(s1) + len(s2):
                    st["viol"][fp] = (f"stream {list(s1)}, clear(), stream {list(s2)}: {desc}",
                                      {"driver": "topk-epochs", "spec": spec, "s1": [list(s) for s in s1],
                                       "s2": [list(s) for s in s2], "size": len(s1) + len(s2)})
    st["cpu"] = time.process_time() - t0
    return st


def run_topk_epochs(run, tier, seed, pmap, rotate):
    t0 = time.time()
    items = [0, 1, "x"]
    syms = [(x, w) for w in (1, 2) for x in items]
    n1, n2 = (3, 4) if tier == "quick" else (4, 5)
    ks = (2, 3) if tier == "quick" else (1, 2, 3)
    d = run.driver("topk-epochs", {"k": list(ks), "symbols": [list(s) for s in syms],
                                   "shape": f"ALL (s1, s2): |s1| <= {n1}, clear(), |s2| <= {n2}",
                                   "oracle": "space-saving clauses against the exact counts of s2 only"})
    jobs = []
    for k in ks:
        spec = ("TopK", {"k": k, "items": items})
        jobs.append((spec, syms, n1, n2, None))
        for s in syms:
            jobs.append((spec, syms, n1, n2, s))
    outcomes, allv, cpu = set(), [], 0.0
    for st in pmap(_topk_epoch_work, rotate(jobs, seed), ordered=False):
        cpu += st["cpu"]
        d.executions += st["exec"]
        d.transitions += st["trans"]
        d.nontrivial += st["nontriv"]
        outcomes |= st["outcomes"]
        allv += [(fp, desc, rep) for fp, (desc, rep) in st["viol"].items()]
    for fp, desc, rep in sorted(allv, key=lambda t: (t[0], t[2]["size"], repr(t[2]))):
        run.violation(fp, desc, rep)
    d.states = d.outcomes = len(outcomes)
    d.samples.append({"k": 2, "s1": [[0, 2], [1, 2], ["x", 1]], "then": "clear()", "s2": [[0, 2], [1, 1], ["x", 1], [0, 1]]})
    d.extra["nontrivial_rule"] = "non-trivial = evictions happened in both epochs (more distinct items than counters before and after clear())"
    d.extra["worker_cpu_s"] = round(cpu, 1)
    d.wall_s = time.time() - t0


def replay_topk_epochs(rep):
    spec = (rep["spec"][0], rep["spec"][1])
    fam = make_family(spec)
    s1 = [tuple(s) for s in rep["s1"]]
    s2 = [tuple(s) for s in rep["s2"]]
    sk = fam.new()
    print(fam.label())
    for (x, w) in s1:
        add(sk, x, w)
        print(f"  add({x!r}, count={w})   top={[(fe.item, fe.count, fe.error) for fe in sk.top(None)]}")
    sk.clear()
    print("  clear()")
    for (x, w) in s2:
        add(sk, x, w)
        print(f"  add({x!r}, count={w})   top={[(fe.item, fe.count, fe.error) for fe in sk.top(None)]}")
    v = fam.check(sk, s2, "after-clear")[0]
    for fp, desc in v:
        print(f"  !! {fp}: {desc}")
    return 1 if v else 0

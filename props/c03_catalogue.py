"""C03 model catalogue: one compact model builder per component family.

Every builder takes the seed, applies it to every ``seed=`` parameter the
components take (``random`` / ``numpy.random`` are seeded by ``run_model``
right before the builder is called) and returns a ``Model``.  Models are
assembled the way /repo/examples and /repo/tests/integration assemble them
(public constructors, ``Simulation(sources=..., entities=...)``, ``sim.schedule``).

``run_model`` executes one model and returns the canonical run digest:
  * the delivery sequence [(time_ns, event_type, target name)] observed through
    ``sim.control.on_event`` (public API), and
  * the canonical form of every entity's public statistics snapshot (``stats``
    property and a few public counters) plus the model's own extra public
    observations, with wall-clock fields removed.
Nothing here reads private attributes of the library.
"""
from __future__ import annotations

import dataclasses
import enum
import hashlib
import json
import random
import re

try:
    import numpy as np
except Exception:  # pragma: no cover
    np = None

from happysimulator import (
    ConstantLatency,
    Entity,
    Event,
    ExponentialLatency,
    Instant,
    Simulation,
    Sink,
    Source,
)
from happysimulator.core.temporal import Duration

MODELS: dict = {}
MAX_EVENTS = 6000  # explicit horizon for every run (deliveries)

_WALL_FIELDS = ("wall",)  # substrings of field names holding wall-clock measurements


EXPLICIT_SEEDS: set = set()


def model(name, explicit_seeds=False):
    """``explicit_seeds=True``: every stochastic component of the model takes its seed through a
    ``seed=`` / ``rng=`` parameter and nothing in it is specified to draw from the module-level
    ``random`` / ``numpy.random`` generators.  For such a model the state of those global
    generators is part of the ENVIRONMENT (whatever ran earlier left it there), not of the model:
    ``run_model`` then does not seed them with the model seed but puts them into the "ambient"
    state the environment answer dictates, so a seeded component that secretly draws from the
    global generator diverges on the prior-activity / rerun dimensions."""
    def deco(fn):
        MODELS[name] = fn
        if explicit_seeds:
            EXPLICIT_SEEDS.add(name)
        return fn
    return deco


class Model:
    def __init__(self, sim, entities, extra=None, max_events=MAX_EVENTS):
        self.sim = sim
        self.entities = list(entities)
        self.extra = extra
        self.max_events = max_events


# ---------------------------------------------------------------------------
# canonical form of public statistics
# ---------------------------------------------------------------------------
_ADDR = re.compile(r"0x[0-9a-fA-F]{6,}")


def canon(o, depth=0):
    """Canonical JSON-able form.  Mapping / set order is NOT part of a statistic
    (two dicts with the same items are equal), sequence order is."""
    if depth > 10:
        return "<deep>"
    if o is None or isinstance(o, (bool, int, str)):
        return o
    if isinstance(o, float):
        return repr(o)
    if isinstance(o, enum.Enum):
        return f"{type(o).__name__}.{o.name}"
    if isinstance(o, Instant):
        try:
            return {"ns": o.nanoseconds}
        except Exception:
            return repr(o)
    if isinstance(o, Duration):
        return {"dns": o.nanoseconds}
    if isinstance(o, Entity):
        return {"entity": o.name}
    if isinstance(o, Event):
        return {"event": [canon(o.time), o.event_type, getattr(o.target, "name", type(o.target).__name__)]}
    if dataclasses.is_dataclass(o) and not isinstance(o, type):
        d = {"__type": type(o).__name__}
        for f in dataclasses.fields(o):
            if f.name.startswith("_") or any(w in f.name for w in _WALL_FIELDS):
                continue
            try:
                d[f.name] = canon(getattr(o, f.name), depth + 1)
            except Exception as e:  # pragma: no cover
                d[f.name] = f"<error {type(e).__name__}>"
        return d
    if isinstance(o, dict):
        items = [[canon(k, depth + 1), canon(v, depth + 1)] for k, v in o.items()]
        items.sort(key=lambda kv: json.dumps(kv[0], sort_keys=True))
        return {"__map": items}
    if isinstance(o, (set, frozenset)):
        items = [canon(x, depth + 1) for x in o]
        items.sort(key=lambda x: json.dumps(x, sort_keys=True))
        return {"__set": items}
    if isinstance(o, (list, tuple)) or type(o).__name__ == "deque":
        return [canon(x, depth + 1) for x in o]
    if np is not None and isinstance(o, np.generic):
        return canon(o.item(), depth + 1)
    if hasattr(o, "to_dict") and callable(o.to_dict):
        try:
            return {"__type": type(o).__name__, "d": canon(o.to_dict(), depth + 1)}
        except Exception:
            pass
    return _ADDR.sub("0x?", repr(o))


_GENERIC_ATTRS = ("stats", "link_stats", "events_received", "latencies_s", "total", "by_type",
                  "events_processed", "generated_count", "events_routed", "events_dropped_no_route",
                  "events_dropped_partition", "stats_accepted", "stats_dropped", "depth")


def entity_snapshot(e):
    snap = {}
    for a in _GENERIC_ATTRS:
        try:
            v = getattr(e, a)
        except AttributeError:
            continue
        except Exception as ex:
            snap[a] = f"<error {type(ex).__name__}>"
            continue
        if callable(v):
            continue
        snap[a] = canon(v)
    return snap


def _dg(obj) -> str:
    return hashlib.blake2b(json.dumps(obj, sort_keys=True, default=repr).encode(), digest_size=12).hexdigest()


def seed_all(seed: int) -> None:
    random.seed(seed)
    if np is not None:
        np.random.seed(seed % (2 ** 32))


def run_model(name: str, seed: int, full: bool = False, ambient: int = 0) -> dict:
    """Build + run one model; returns digests (and the full observation when ``full``).
    ``ambient``: state of the global generators left behind by "earlier activity" (only used for
    explicit-seeds models, see ``model``)."""
    log = []
    outcome = "done"
    stats = None
    try:
        seed_all(987_000 + ambient if name in EXPLICIT_SEEDS else seed)
        m = MODELS[name](seed)
        sim = m.sim
        ctl = sim.control
        cap = m.max_events

        def hook(ev, _log=log):
            t = ev.target
            _log.append((ev.time.nanoseconds, ev.event_type, getattr(t, "name", None) or type(t).__name__))
            if len(_log) >= cap:
                ctl.pause()

        ctl.on_event(hook)
        summary = sim.run()
        if len(log) >= cap:
            outcome = "horizon"
        stats = {"entities": [[getattr(e, "name", type(e).__name__), type(e).__name__, entity_snapshot(e)]
                              for e in m.entities],
                 "summary": canon(summary),
                 "extra": canon(m.extra()) if m.extra else None}
    except Exception as ex:  # an exception is an observable outcome of the run as well
        outcome = _ADDR.sub("0x?", f"exception:{type(ex).__name__}:{ex}")[:300]
    res = {"n": len(log), "log": _dg(log), "stats": _dg(stats), "outcome": outcome}
    if full:
        res["full_log"] = log
        res["full_stats"] = stats
    return res


# ---------------------------------------------------------------------------
# small harness entities (user-side code of the models)
# ---------------------------------------------------------------------------
class Script(Entity):
    """User-side entity whose behaviour is a function ``fn(self, event)`` (may be a generator)."""

    def __init__(self, name, fn):
        super().__init__(name)
        self.fn = fn
        self.calls = 0
        self.notes = []

    def handle_event(self, event):
        self.calls += 1
        return self.fn(self, event)


def at(t_s: float, target, etype="go", **md):
    return Event(time=Instant.from_seconds(t_s), event_type=etype, target=target,
                 context={"metadata": dict(md)})


def keys_for(seed, n, universe=12, prefix="user-", salt=0):
    r = random.Random(seed * 7919 + salt)
    return [f"{prefix}{r.randrange(universe)}" for _ in range(n)]


# ===========================================================================
# 1. sources / queues / servers / sinks
# ===========================================================================
@model("pipeline-const", explicit_seeds=True)
def m_pipeline_const(seed):
    sink = Sink("sink")
    from happysimulator import Server
    srv = Server("server", concurrency=1, service_time=ConstantLatency(0.015), downstream=sink)
    src = Source.constant(rate=50.0, target=srv, stop_after=2.0, name="src")
    sim = Simulation(sources=[src], entities=[srv, sink], end_time=Instant.from_seconds(4.0))
    return Model(sim, [src, srv, sink])


@model("mm1-poisson-exp")
def m_mm1(seed):
    from happysimulator import Server
    sink = Sink("sink")
    srv = Server("server", concurrency=2, service_time=ExponentialLatency(0.03), downstream=sink,
                 queue_capacity=20)
    src = Source.poisson(rate=40.0, target=srv, stop_after=3.0, name="poisson-src")
    sim = Simulation(sources=[src], entities=[srv, sink], end_time=Instant.from_seconds(6.0))
    return Model(sim, [src, srv, sink])


@model("queue-policies")
def m_queue_policies(seed):
    """Same exponential workload through servers with each library queue policy."""
    from happysimulator import LIFOQueue, PriorityQueue, Server
    from happysimulator.components.queue_policies import (AdaptiveLIFO, CoDelQueue, DeadlineQueue, FairQueue,
                                                          REDQueue, WeightedFairQueue)
    sink = Sink("sink")
    r = random.Random(seed)
    servers = []

    def fan(self, event):
        md = {"priority": r.randrange(3), "flow": r.choice(["tenant-a", "tenant-b", "tenant-c"]),
              "deadline": Instant.from_seconds(self.now.to_seconds() + r.choice([0.05, 0.1, 0.5]))}
        return [Event(time=self.now, event_type="Request", target=s,
                      context={"created_at": self.now, "metadata": dict(md)}) for s in servers]

    fanout = Script("fanout", fan)
    now = lambda: fanout.now  # noqa: E731  (simulation clock for the policies that need one)
    pols = {
        "lifo": LIFOQueue(capacity=8),
        "prio": PriorityQueue(key=lambda ev: ev.context.get("metadata", {}).get("priority", 0)),
        "codel": CoDelQueue(target_delay=0.02, interval=0.1, clock_func=now),
        "red": REDQueue(min_threshold=2, max_threshold=6, max_probability=0.5, capacity=10),
        "fair": FairQueue(get_flow_id=lambda ev: ev.context.get("metadata", {}).get("flow", "f")),
        "wfq": WeightedFairQueue(get_flow_id=lambda ev: ev.context.get("metadata", {}).get("flow", "f"),
                                 get_weight=lambda flow: 2 if flow == "tenant-a" else 1),
        "deadline": DeadlineQueue(get_deadline=lambda ev: ev.context.get("metadata", {}).get("deadline"),
                                  clock_func=now),
        "alifo": AdaptiveLIFO(congestion_threshold=3),
    }
    for k, p in pols.items():
        servers.append(Server(f"srv-{k}", concurrency=1, service_time=ExponentialLatency(0.02),
                              queue_policy=p, downstream=sink))
    src = Source.poisson(rate=50.0, target=fanout, stop_after=0.8, name="src")
    sim = Simulation(sources=[src], entities=[fanout, *servers, sink], end_time=Instant.from_seconds(4.0))
    return Model(sim, [src, fanout, *servers, sink])


# ===========================================================================
# 2. network
# ===========================================================================
def _mesh(network, nodes, mk_link):
    for i, a in enumerate(nodes):
        for b in nodes[i + 1:]:
            network.add_bidirectional_link(a, b, mk_link(f"link_{a.name}_{b.name}"))


def _jitter_link(name):
    from happysimulator import NetworkLink
    return NetworkLink(name=name, latency=ConstantLatency(0.002), jitter=ExponentialLatency(0.001),
                       packet_loss_rate=0.05, bandwidth_bps=1_000_000)


@model("network-jitter")
def m_network_jitter(seed):
    """Ping-pong between three hosts over jittered, lossy, bandwidth-limited links + a partition."""
    from happysimulator import Network
    net = Network(name="net")
    hosts = []

    def host_fn(self, event):
        if event.event_type == "tick":
            peer = hosts[(hosts.index(self) + 1 + self.calls % 2) % 3]
            out = [net.send(self, peer, "ping", payload={"size": 200 + 10 * (self.calls % 7)})]
            if self.now.to_seconds() < 1.5:
                out.append(Event(time=self.now + 0.05, event_type="tick", target=self))
            return out
        if event.event_type == "ping":
            src = event.context["metadata"]["source"]
            peer = next(h for h in hosts if h.name == src)
            return [net.send(self, peer, "pong", payload={"size": 64})]
        return None

    hosts.extend(Script(f"host-{c}", host_fn) for c in "abc")
    _mesh(net, hosts, _jitter_link)
    part = {}
    ctl = Script("ctl", lambda self, ev: part.setdefault("p", net.partition([hosts[0]], [hosts[1]]))
                 and None if ev.event_type == "cut" else part["p"].heal())
    sim = Simulation(entities=[net, *hosts, ctl], end_time=Instant.from_seconds(3.0))
    for i, h in enumerate(hosts):
        sim.schedule(at(0.01 * (i + 1), h, "tick"))
    sim.schedule(at(0.6, ctl, "cut"))
    sim.schedule(at(1.0, ctl, "heal"))
    return Model(sim, [net, *hosts], extra=lambda: {"traffic": net.traffic_matrix(),
                                                      "calls": [h.calls for h in hosts]})


# ===========================================================================
# 3. consensus / coordination
# ===========================================================================
def _cluster(cls, n, netname, prefix, **kw):
    from happysimulator import Network, datacenter_network
    net = Network(name=netname)
    nodes = [cls(name=f"{prefix}-{i}", network=net, **kw) for i in range(n)]
    for nd in nodes:
        nd.set_peers([o for o in nodes if o is not nd])
    _mesh(net, nodes, lambda nm: datacenter_network(name=nm))
    return net, nodes


@model("raft")
def m_raft(seed):
    from happysimulator import KVStateMachine, RaftNode
    net, nodes = _cluster(RaftNode, 3, "RaftNet", "raft", election_timeout_min=0.3, election_timeout_max=0.6,
                          heartbeat_interval=0.1)
    sim = Simulation(duration=4.0, entities=[net, *nodes])
    for nd in nodes:
        for ev in nd.start():
            sim.schedule(ev)

    def submit(event):
        for nd in nodes:
            if nd.is_leader:
                nd.submit({"op": "set", "key": f"k{event.context['metadata']['i']}", "value": seed})
                break

    for i in range(5):
        sim.schedule(Event.once(time=Instant.from_seconds(1.5 + 0.3 * i), event_type="Submit", fn=submit,
                                context={"metadata": {"i": i}}))
    return Model(sim, [net, *nodes], extra=lambda: [(n.name, n.state, n.current_term, n.current_leader,
                                                      n.log.last_index if hasattr(n.log, "last_index") else None)
                                                     for n in nodes])


@model("paxos")
def m_paxos(seed):
    from happysimulator import PaxosNode
    net, nodes = _cluster(PaxosNode, 3, "PaxosNet", "paxos", retry_delay=0.2)
    sim = Simulation(duration=5.0, entities=[net, *nodes])

    def mk(node, value):
        def go(event):
            node.propose(value)
            return node.start_phase1()
        return go

    sim.schedule(Event.once(time=Instant.from_seconds(0.1), event_type="ProposeA", fn=mk(nodes[0], "alpha")))
    sim.schedule(Event.once(time=Instant.from_seconds(0.1), event_type="ProposeB", fn=mk(nodes[1], "beta")))
    sim.schedule(Event.once(time=Instant.from_seconds(0.1003), event_type="ProposeC", fn=mk(nodes[2], "gamma")))
    return Model(sim, [net, *nodes], extra=lambda: [(n.name, n.is_decided, n.decided_value) for n in nodes])


def _log_cluster(cls, prefix, **kw):
    net, nodes = _cluster(cls, 3, prefix + "Net", prefix, **kw)
    sim = Simulation(duration=6.0, entities=[net, *nodes])
    for nd in nodes:
        for ev in nd.start():
            sim.schedule(ev)

    def submit(event):
        for nd in nodes:
            if nd.is_leader:
                nd.submit({"op": "set", "key": f"k{event.context['metadata']['i']}", "value": 1})
                break

    for i in range(4):
        sim.schedule(Event.once(time=Instant.from_seconds(3.0 + 0.4 * i), event_type="Submit", fn=submit,
                                context={"metadata": {"i": i}}))
    return Model(sim, [net, *nodes], extra=lambda: [(n.name, n.is_leader, n.leader) for n in nodes])


@model("multi-paxos")
def m_multi_paxos(seed):
    from happysimulator import MultiPaxosNode
    return _log_cluster(MultiPaxosNode, "mpaxos", leader_lease_timeout=1.0, heartbeat_interval=0.25)


@model("flexible-paxos")
def m_flexible_paxos(seed):
    from happysimulator import FlexiblePaxosNode
    return _log_cluster(FlexiblePaxosNode, "fpaxos", phase1_quorum=3, phase2_quorum=1, heartbeat_interval=0.25)


@model("membership")
def m_membership(seed):
    from happysimulator import MembershipProtocol, Network, datacenter_network
    net = Network(name="MemberNet")
    nodes = [MembershipProtocol(name=f"member-{i}", network=net, probe_interval=0.2, suspicion_timeout=0.8,
                                phi_threshold=4.0, indirect_probe_count=2) for i in range(4)]
    for nd in nodes:
        for o in nodes:
            if o is not nd:
                nd.add_member(o)
    _mesh(net, nodes, lambda nm: datacenter_network(name=nm))
    part = {}
    ctl = Script("ctl", lambda self, ev: part.setdefault("p", net.partition([nodes[3]], nodes[:3])) and None)
    sim = Simulation(duration=4.0, entities=[net, *nodes, ctl])
    for nd in nodes:
        for ev in nd.start():
            sim.schedule(ev)
    sim.schedule(at(1.5, ctl, "cut"))
    return Model(sim, [net, *nodes],
                 extra=lambda: [(n.name, sorted(n.alive_members), sorted(n.suspected_members),
                                 sorted(n.dead_members)) for n in nodes])


@model("leader-election")
def m_leader_election(seed):
    from happysimulator import BullyStrategy, LeaderElection, Network, RandomizedStrategy, RingStrategy
    from happysimulator import datacenter_network
    ents, allnodes = [], []
    for label, strat in (("bully", BullyStrategy), ("ring", RingStrategy), ("rand", RandomizedStrategy)):
        net = Network(name=f"net-{label}")
        nodes = [LeaderElection(name=f"{label}-{i}", network=net, strategy=strat(), election_timeout=0.5 + 0.1 * i,
                                heartbeat_interval=0.2) for i in range(3)]
        for nd in nodes:
            for o in nodes:
                nd.add_member(o)
        _mesh(net, nodes, lambda nm: datacenter_network(name=nm))
        ents += [net, *nodes]
        allnodes += nodes
    sim = Simulation(duration=4.0, entities=ents)
    for nd in allnodes:
        for ev in nd.start():
            sim.schedule(ev)
    # keep the run alive (the protocol only schedules daemon events)
    sim.schedule(at(3.9, Script("end", lambda s, e: None), "end"))
    return Model(sim, ents, extra=lambda: [(n.name, n.current_leader, n.current_term) for n in allnodes])


@model("distributed-lock", explicit_seeds=True)
def m_distributed_lock(seed):
    from happysimulator import DistributedLock
    lock = DistributedLock(name="locks", lease_duration=0.5, max_waiters=4)
    r = random.Random(seed)

    def worker(self, event):
        name = f"res-{r.randrange(2)}"
        grant = yield lock.acquire(name, self.name)
        self.notes.append((self.now.nanoseconds, name, getattr(grant, "fencing_token", None)))
        yield r.choice([0.05, 0.2, 0.7])
        if grant is not None and hasattr(grant, "fencing_token"):
            lock.release(name, grant.fencing_token)

    workers = [Script(f"client-{c}", worker) for c in "ABCD"]
    sim = Simulation(duration=6.0, entities=[lock, *workers])
    for i in range(12):
        sim.schedule(at(0.1 + 0.13 * i, workers[i % 4], "work"))
    return Model(sim, [lock, *workers], extra=lambda: [w.notes for w in workers])


# ===========================================================================
# 4. storage engines
# ===========================================================================
def _kv_workload(seed, store_ops, n_writers=2, n_ops=40, universe=18, name="client", gap=0.004):
    """Writers + a reader issuing put/get/delete against ``store_ops`` (generators) with string keys."""
    r = random.Random(seed * 31 + 5)
    keys = [f"key-{r.randrange(universe):03d}" for _ in range(n_ops * n_writers)]
    counters = {"hits": 0, "miss": 0}

    def client(self, event):
        i = event.context["metadata"]["i"]
        k = keys[i]
        op = (i + seed) % 5
        if op in (0, 1, 2):
            yield from store_ops.put(k, f"v{i}")
        elif op == 3:
            v = yield from store_ops.get(k)
            counters["hits" if v is not None else "miss"] += 1
        else:
            if hasattr(store_ops, "delete"):
                yield from store_ops.delete(k)
            else:
                yield from store_ops.get(k)

    clients = [Script(f"{name}-{w}", client) for w in range(n_writers)]
    events = [at(0.001 + gap * j + 0.0007 * w, clients[w], "op", i=j * n_writers + w)
              for j in range(n_ops) for w in range(n_writers)]
    return clients, events, counters


def _lsm_model(seed, strategy, with_wal=True, with_disk=False):
    from happysimulator import LSMTree, SyncOnBatch, WriteAheadLog
    ents = []
    wal = None
    if with_wal:
        wal = WriteAheadLog("wal", sync_policy=SyncOnBatch(batch_size=4))
        ents.append(wal)
    disk = None
    if with_disk:
        from happysimulator import SSD, DiskIO
        disk = DiskIO("disk", profile=SSD())
        ents.append(disk)
    lsm = LSMTree("lsm", memtable_size=6, compaction_strategy=strategy, wal=wal, disk=disk)
    clients, events, counters = _kv_workload(seed, lsm, n_ops=45)
    sim = Simulation(duration=3.0, entities=[lsm, *ents, *clients])
    for ev in events:
        sim.schedule(ev)
    return Model(sim, [lsm, *ents, *clients],
                 extra=lambda: {"levels": lsm.level_summary, "reads": dict(counters)})


@model("lsm-size-tiered", explicit_seeds=True)
def m_lsm_st(seed):
    from happysimulator import SizeTieredCompaction
    return _lsm_model(seed, SizeTieredCompaction(min_sstables=3))


@model("lsm-leveled", explicit_seeds=True)
def m_lsm_lv(seed):
    from happysimulator import LeveledCompaction
    return _lsm_model(seed, LeveledCompaction(level_0_max=2, size_ratio=2, base_size_keys=8), with_disk=True)


@model("lsm-fifo", explicit_seeds=True)
def m_lsm_fifo(seed):
    from happysimulator import FIFOCompaction
    return _lsm_model(seed, FIFOCompaction(max_total_sstables=4), with_wal=False)


@model("btree-txn", explicit_seeds=True)
def m_btree_txn(seed):
    """B-tree behind a transaction manager (snapshot isolation), two conflicting writers."""
    from happysimulator import BTree, IsolationLevel, TransactionManager
    bt = BTree("btree", order=4)
    tm = TransactionManager("txm", store=bt, isolation=IsolationLevel.SNAPSHOT_ISOLATION)
    r = random.Random(seed)
    res = {"commit": 0, "abort": 0}

    def worker(self, event):
        tx = yield from tm.begin()
        for _ in range(3):
            k = f"acct-{r.randrange(6)}"
            v = yield from tx.read(k)
            yield from tx.write(k, (v or 0) + 1)
        ok = yield from tx.commit()
        res["commit" if ok else "abort"] += 1

    ws = [Script(f"worker-{i}", worker) for i in range(3)]
    sim = Simulation(duration=3.0, entities=[bt, tm, *ws])
    for j in range(10):
        for i, w in enumerate(ws):
            sim.schedule(at(0.01 + 0.02 * j + 0.001 * i, w, "txn"))
    return Model(sim, [bt, tm, *ws], extra=lambda: {"res": dict(res), "depth": bt.depth, "size": bt.size})


# ===========================================================================
# 5. caches / datastores
# ===========================================================================
def _cached_model(seed, policy, write_back=False, sharded_backing=True, capacity=5):
    """Cached store in front of a sharded backing store whose shards have different latencies;
    concurrent readers/writers; write-back variant flushes while writers are still active."""
    from happysimulator.components.datastore import CachedStore, KVStore, ShardedStore
    shards = [KVStore(f"shard-{i}", read_latency=0.001 * (i + 1), write_latency=0.002 * (i + 1)) for i in range(3)]
    backing = ShardedStore("sharded", shards=shards)
    cache = CachedStore("cache", backing_store=backing, cache_capacity=capacity, eviction_policy=policy,
                        write_through=not write_back)
    clients, events, counters = _kv_workload(seed, cache, n_ops=40, universe=14)
    ents = [cache, backing, *shards, *clients]
    flushed = []
    if write_back:
        def flusher(self, event):
            n = yield from cache.flush()
            flushed.append((self.now.nanoseconds, n))
        fl = Script("flusher", flusher)
        ents.append(fl)
        events += [at(t, fl, "flush") for t in (0.03, 0.08, 0.13, 0.4)]
    sim = Simulation(duration=2.0, entities=ents)
    for ev in events:
        sim.schedule(ev)
    return Model(sim, ents, extra=lambda: {"reads": dict(counters), "flushed": flushed,
                                           "cached": sorted(cache.get_cached_keys()),
                                           "dirty": sorted(cache.get_dirty_keys()),
                                           "shard_sizes": backing.get_shard_sizes()})


def _reg_cache(name, mk, **kw):
    @model(name, explicit_seeds=True)  # KV stores, eviction policies (seed=) and the workload use no global RNG
    def _b(seed, _mk=mk, _kw=kw):
        return _cached_model(seed, _mk(seed), **_kw)
    return _b


def _policies():
    from happysimulator.components.datastore import eviction_policies as ep
    return ep


_reg_cache("cache-lru", lambda s: _policies().LRUEviction())
_reg_cache("cache-lfu", lambda s: _policies().LFUEviction())
_reg_cache("cache-fifo", lambda s: _policies().FIFOEviction())
_reg_cache("cache-random", lambda s: _policies().RandomEviction(seed=s))
_reg_cache("cache-slru", lambda s: _policies().SLRUEviction(protected_ratio=0.6))
_reg_cache("cache-sampled-lru", lambda s: _policies().SampledLRUEviction(sample_size=3, seed=s))
_reg_cache("cache-clock", lambda s: _policies().ClockEviction())
_reg_cache("cache-2q", lambda s: _policies().TwoQueueEviction(kin_ratio=0.4))
_reg_cache("cache-ttl", lambda s: _policies().TTLEviction(ttl=2.0))
_reg_cache("cache-writeback-lru", lambda s: _policies().LRUEviction(), write_back=True, capacity=8)


# ===========================================================================
# 6. sketches (collectors fed STRING items)
# ===========================================================================
def _customers(n=40):
    return [f"customer-{i:03d}" for i in range(n)]


def _sketch_model(seed, make_collectors, observe, rate=400.0, dur=1.0):
    """Zipf-distributed string customer ids -> fan-out -> sketch collectors."""
    from happysimulator import DistributedFieldProvider, ZipfDistribution, UniformDistribution
    from happysimulator import ConstantArrivalTimeProvider, ConstantRateProfile
    collectors = make_collectors(seed)
    fan = Script("fan", lambda self, ev: [self.forward(ev, c) for c in collectors])
    provider = DistributedFieldProvider(
        target=fan, event_type="Request",
        field_distributions={"customer_id": ZipfDistribution(_customers(), s=1.1, seed=seed),
                             "region": UniformDistribution(["us-east", "us-west", "eu", "ap"], seed=seed + 1)},
        stop_after=Instant.from_seconds(dur))
    src = Source("src", event_provider=provider,
                 arrival_time_provider=ConstantArrivalTimeProvider(ConstantRateProfile(rate=rate),
                                                                   start_time=Instant.Epoch))
    sim = Simulation(sources=[src], entities=[fan, *collectors], end_time=Instant.from_seconds(dur + 0.5))
    return Model(sim, [src, fan, *collectors], extra=lambda: observe(collectors))


@model("sketch-countmin", explicit_seeds=True)
def m_sketch_cms(seed):
    from happysimulator import CountMinSketch, SketchCollector

    def mk(s):
        return [SketchCollector("cms", CountMinSketch(width=16, depth=3, seed=s),
                                value_extractor=lambda e: e.context.get("customer_id")),
                SketchCollector("cms-region", CountMinSketch.from_error_rate(0.2, 0.2, seed=s),
                                value_extractor=lambda e: e.context.get("region"))]

    def obs(cs):
        return {"cms": [(c, cs[0].sketch.estimate(c)) for c in _customers()],
                "region": [(r, cs[1].sketch.estimate(r)) for r in ("us-east", "us-west", "eu", "ap")],
                "n": [c.sketch.item_count for c in cs]}
    return _sketch_model(seed, mk, obs)


@model("sketch-bloom", explicit_seeds=True)
def m_sketch_bloom(seed):
    from happysimulator import BloomFilter, SketchCollector

    def mk(s):
        return [SketchCollector("bloom", BloomFilter(size_bits=128, num_hashes=3, seed=s),
                                value_extractor=lambda e: e.context.get("customer_id"))]

    def obs(cs):
        bf = cs[0].sketch
        return {"member": [bf.contains(c) for c in _customers(60)], "fpr": bf.false_positive_rate,
                "n": bf.item_count}
    return _sketch_model(seed, mk, obs)


@model("sketch-hll", explicit_seeds=True)
def m_sketch_hll(seed):
    from happysimulator import HyperLogLog, SketchCollector

    def mk(s):
        return [SketchCollector("hll", HyperLogLog(precision=6, seed=s),
                                value_extractor=lambda e: e.context.get("customer_id"))]
    return _sketch_model(seed, mk, lambda cs: {"card": cs[0].sketch.cardinality(), "n": cs[0].sketch.item_count})


@model("sketch-topk", explicit_seeds=True)
def m_sketch_topk(seed):
    from happysimulator import TopKCollector

    def mk(s):
        return [TopKCollector("topk", k=6, value_extractor=lambda e: e.context.get("customer_id"), seed=s)]

    def obs(cs):
        return {"top": [(f.item, f.count, f.error) for f in cs[0].top()], "max_error": cs[0].max_error(),
                "total": cs[0].total_count}
    return _sketch_model(seed, mk, obs)


@model("sketch-quantile-reservoir", explicit_seeds=True)
def m_sketch_quant(seed):
    from happysimulator import QuantileEstimator, ReservoirSampler, SketchCollector

    def mk(s):
        return [QuantileEstimator("tdigest", value_extractor=lambda e: float(len(e.context.get("customer_id", ""))
                                                                             + int(e.context["customer_id"][-3:])),
                                  compression=20.0, seed=s),
                SketchCollector("reservoir", ReservoirSampler(size=8, seed=s),
                                value_extractor=lambda e: e.context.get("customer_id"))]

    def obs(cs):
        return {"q": [cs[0].quantile(q) for q in (0.1, 0.5, 0.9, 0.99)], "sample": list(cs[1].sketch.sample())}
    return _sketch_model(seed, mk, obs)


# ===========================================================================
# 7. messaging / streaming
# ===========================================================================
@model("message-queue-dlq")
def m_message_queue(seed):
    from happysimulator.components.messaging import DeadLetterQueue, MessageQueue
    dlq = DeadLetterQueue("dlq", capacity=3)
    mq = MessageQueue("mq", delivery_latency=0.002, redelivery_delay=0.05, max_redeliveries=2,
                      dead_letter_queue=dlq)
    r = random.Random(seed)

    def consume(self, event):
        if event.event_type != "message_delivery":
            return None
        mid = event.context["message_id"]
        roll = r.random()
        if roll < 0.55:
            mq.acknowledge(mid)
        elif roll < 0.8:
            mq.reject(mid, requeue=True)
            return [Event(time=self.now, event_type="poll", target=mq)]
        else:  # no ack: ask for a redelivery
            ev = mq.schedule_redelivery(mid)
            return [ev] if ev is not None else None
        return None

    consumers = [Script(f"consumer-{i}", consume) for i in range(2)]
    for c in consumers:
        mq.subscribe(c)

    def produce(self, event):
        payload = Event(time=self.now, event_type="order", target=consumers[0],
                        context={"metadata": {"order": f"order-{self.calls}"}})
        yield from mq.publish(payload)
        return [Event(time=self.now, event_type="poll", target=mq)]

    prod = Script("producer", produce)
    src = Source.poisson(rate=80.0, target=prod, event_type="new", stop_after=0.6, name="src")
    sim = Simulation(sources=[src], entities=[mq, dlq, prod, *consumers], end_time=Instant.from_seconds(2.0))
    return Model(sim, [src, mq, dlq, prod, *consumers],
                 extra=lambda: {"pending": mq.pending_count, "in_flight": mq.in_flight_count,
                                "dlq": dlq.message_count})


@model("topic-pubsub")
def m_topic(seed):
    from happysimulator.components.messaging import Topic
    topic = Topic("topic", delivery_latency=0.001)
    topic.set_retain_messages(True, max_history=5)
    subs = [Sink(f"sub-{i}") for i in range(3)]
    for s in subs[:2]:
        topic.subscribe(s)

    def pub(self, event):
        msg = Event(time=self.now, event_type="news", target=subs[0], context={"metadata": {"n": self.calls}})
        if self.calls % 3 == 0:
            return topic.publish_sync(msg)
        return [Event(time=self.now, event_type="publish", target=topic, context={"payload": msg})]

    publisher = Script("publisher", pub)
    late = Script("late", lambda self, ev: topic.subscribe(subs[2], replay_history=True)
                  if ev.event_type == "join" else topic.unsubscribe(subs[0]))
    src = Source.poisson(rate=100.0, target=publisher, event_type="tick", stop_after=0.5, name="src")
    sim = Simulation(sources=[src], entities=[topic, publisher, late, *subs], end_time=Instant.from_seconds(1.0))
    sim.schedule(at(0.2, late, "join"))
    sim.schedule(at(0.35, late, "leave"))
    return Model(sim, [src, topic, publisher, *subs])


@model("event-log-consumer-group", explicit_seeds=True)
def m_event_log(seed):
    """Wiring of examples/infrastructure/consumer_group.py (events created after Simulation())."""
    from happysimulator import ConsumerGroup, EventLog, SimFuture, SizeRetention, StickyAssignment
    log = EventLog(name="log", num_partitions=3, retention_policy=SizeRetention(max_records=12),
                   retention_check_interval=0.25)
    group = ConsumerGroup(name="group", event_log=log, assignment_strategy=StickyAssignment(),
                          rebalance_delay=0.05, poll_latency=0.001)
    r = random.Random(seed)

    def produce(self, event):
        rec = yield from log.append(f"user-{r.randrange(15)}", {"seq": self.calls})
        self.notes.append((rec.partition, rec.offset))

    def consume(self, event):
        records = yield from group.poll(self.name, max_records=20)
        if records:
            offsets = {}
            for rec in records:
                offsets[rec.partition] = max(offsets.get(rec.partition, 0), rec.offset + 1)
            yield from group.commit(self.name, offsets)
        self.notes.append((self.now.nanoseconds, len(records or []), sum(group.consumer_lag(self.name).values())))

    producers = [Script(f"producer-{i}", produce) for i in range(2)]
    consumers = [Script(f"consumer-{i}", consume) for i in range(3)]
    sources = [Source.constant(rate=40.0, target=p, event_type="Produce", stop_after=1.5, name=f"src-{i}")
               for i, p in enumerate(producers)]
    sim = Simulation(start_time=Instant.Epoch, duration=2.0, sources=sources,
                     entities=[log, group, *producers, *consumers])
    pre = []
    for i, c in enumerate(consumers[:2]):
        pre.append(Event(time=Instant.from_seconds(0.1 + 0.05 * i), event_type="Join", target=group,
                         context={"consumer_name": c.name, "consumer_entity": c, "reply_future": SimFuture()}))
    pre.append(Event(time=Instant.from_seconds(0.5), event_type="Join", target=group,
                     context={"consumer_name": consumers[2].name, "consumer_entity": consumers[2],
                              "reply_future": SimFuture()}))
    pre.append(Event(time=Instant.from_seconds(1.0), event_type="Leave", target=group,
                     context={"consumer_name": consumers[1].name, "reply_future": SimFuture()}))
    for c in consumers:
        t = 0.25
        while t < 1.5:
            pre.append(Event(time=Instant.from_seconds(t), event_type="PollCycle", target=c))
            t += 0.25
    for e in pre:
        sim.schedule(e)
    return Model(sim, [*sources, log, group, *producers, *consumers],
                 extra=lambda: {"hw": log.high_watermarks(), "assign": group.assignments,
                                "gen": group.generation, "lag": group.total_lag(),
                                "notes": [c.notes for c in consumers]})


@model("stream-processor")
def m_stream_processor(seed):
    from happysimulator import LateEventPolicy, SlidingWindow, StreamProcessor, TumblingWindow
    out, side = Sink("out"), Sink("side")
    procs = [StreamProcessor("tumbling", TumblingWindow(size_s=0.2), aggregate_fn=len, downstream=out,
                             allowed_lateness_s=0.05, late_event_policy=LateEventPolicy.SIDE_OUTPUT,
                             side_output=side, watermark_interval_s=0.1),
             StreamProcessor("sliding", SlidingWindow(size_s=0.3, slide_s=0.1), aggregate_fn=len, downstream=out,
                             watermark_interval_s=0.1)]
    r = random.Random(seed)

    def feed(self, event):
        t = self.now.to_seconds() - r.choice([0.0, 0.0, 0.02, 0.4])
        return [Event(time=self.now, event_type="Process", target=p,
                      context={"key": r.choice(["page-a", "page-b", "page-c"]), "value": 1,
                               "event_time_s": max(0.0, t)}) for p in procs]

    feeder = Script("feeder", feed)
    src = Source.poisson(rate=120.0, target=feeder, event_type="tick", stop_after=1.0, name="src")
    sim = Simulation(sources=[src], entities=[feeder, *procs, out, side], end_time=Instant.from_seconds(2.0))
    return Model(sim, [src, feeder, *procs, out, side])


# ===========================================================================
# 8. replication / CRDTs
# ===========================================================================
def _random_link(name):
    from happysimulator import NetworkLink
    return NetworkLink(name=name, latency=ConstantLatency(0.003), jitter=ExponentialLatency(0.002))


def _writer(target_of, seed, universe=10):
    """Entity turning source ticks into keyed ``Write`` events and awaiting the reply."""
    from happysimulator import SimFuture
    r = random.Random(seed * 13 + 1)

    def fn(self, event):
        reply = SimFuture()
        key = f"key-{r.randrange(universe)}"
        w = Event(time=self.now, event_type="Write", target=target_of(self),
                  context={"metadata": {"key": key, "value": f"{self.name}:{self.calls}", "reply_future": reply}})
        start = self.now
        yield 0.0, [w]
        yield reply
        self.notes.append((self.now - start).nanoseconds)
    return fn


@model("primary-backup")
def m_primary_backup(seed):
    from happysimulator import Network
    from happysimulator.components.datastore import KVStore
    from happysimulator.components.replication.primary_backup import BackupNode, PrimaryNode, ReplicationMode
    ents, srcs, writers = [], [], []
    for mode in (ReplicationMode.ASYNC, ReplicationMode.SEMI_SYNC, ReplicationMode.SYNC):
        tag = mode.name.lower()
        net = Network(name=f"net-{tag}")
        ps = KVStore(f"ps-{tag}", write_latency=0.001, read_latency=0.001)
        bss = [KVStore(f"bs-{tag}-{i}", write_latency=0.001, read_latency=0.001) for i in range(2)]
        backups = []
        primary = PrimaryNode(f"primary-{tag}", store=ps, backups=backups, network=net, mode=mode)
        backups.extend(BackupNode(f"backup-{tag}-{i}", store=bss[i], network=net, primary=primary) for i in range(2))
        for b in backups:
            net.add_bidirectional_link(primary, b, _random_link(f"link-{b.name}"))
        w = Script(f"writer-{tag}", _writer(lambda s, p=primary: p, seed))
        writers.append(w)
        srcs.append(Source.poisson(rate=45.0, target=w, event_type="NewWrite", stop_after=0.5, name=f"src-{tag}"))
        ents += [w, primary, *backups, net, ps, *bss]
    sim = Simulation(start_time=Instant.Epoch, duration=2.0, sources=srcs, entities=ents)
    return Model(sim, [*srcs, *ents], extra=lambda: [w.notes for w in writers])


@model("chain-replication")
def m_chain(seed):
    from happysimulator import Network
    from happysimulator.components.datastore import KVStore
    from happysimulator.components.replication.chain_replication import build_chain
    net = Network(name="net")
    nodes = build_chain([f"node-{i}" for i in range(3)], net,
                        store_factory=lambda n: KVStore(n, write_latency=0.001, read_latency=0.001),
                        craq_enabled=True)
    for i in range(2):
        net.add_bidirectional_link(nodes[i], nodes[i + 1], _random_link(f"link-{i}-{i + 1}"))
    net.add_bidirectional_link(nodes[0], nodes[-1], _random_link("link-head-tail"))
    writer = Script("writer", _writer(lambda s: nodes[0], seed, universe=6))
    from happysimulator import SimFuture
    r = random.Random(seed)

    def read(self, event):
        reply = SimFuture()
        node = nodes[r.randrange(3)]
        yield 0.0, [Event(time=self.now, event_type="Read", target=node,
                          context={"metadata": {"key": f"key-{r.randrange(6)}", "reply_future": reply}})]
        v = yield reply
        self.notes.append((node.name, repr(v)))

    reader = Script("reader", read)
    srcs = [Source.poisson(rate=60.0, target=writer, event_type="NewWrite", stop_after=0.6, name="wsrc"),
            Source.poisson(rate=50.0, target=reader, event_type="NewRead", stop_after=0.6, name="rsrc")]
    ents = [writer, reader, net, *nodes, *[n.store for n in nodes]]
    sim = Simulation(start_time=Instant.Epoch, duration=2.0, sources=srcs, entities=ents)
    return Model(sim, [*srcs, *ents], extra=lambda: {"lat": writer.notes, "reads": reader.notes,
                                                     "dirty": [sorted(n.dirty_keys) for n in nodes]})


@model("multi-leader")
def m_multi_leader(seed):
    """Mirrors examples/distributed/multi_leader_replication.py, three leaders, anti-entropy + partition."""
    from happysimulator import Network
    from happysimulator.components.datastore import KVStore
    from happysimulator.components.replication.conflict_resolver import LastWriterWins, VectorClockMerge
    from happysimulator.components.replication.multi_leader import LeaderNode
    net = Network(name="net")
    regions = ["east", "west", "south"]
    leaders = [LeaderNode(f"leader-{rg}", store=KVStore(f"store-{rg}", write_latency=0.001, read_latency=0.001),
                          network=net, conflict_resolver=LastWriterWins() if i < 2 else VectorClockMerge(),
                          anti_entropy_interval=0.2) for i, rg in enumerate(regions)]
    for ld in leaders:
        ld.add_peers([o for o in leaders if o is not ld])
    _mesh(net, leaders, _random_link)
    r = random.Random(seed)

    def write(self, event):
        ld = leaders[regions.index(self.name.split("-")[1])]
        return [Event(time=self.now, event_type="Write", target=ld,
                      context={"metadata": {"key": f"user-{r.randrange(8)}", "value": f"{self.name}:{self.calls}"}})]

    writers = [Script(f"writer-{rg}", write) for rg in regions]
    srcs = [Source.poisson(rate=40.0, target=w, event_type="NewWrite", stop_after=0.8, name=f"src-{w.name}")
            for w in writers]
    part = {}
    ctl = Script("ctl", lambda self, ev: part.setdefault("p", net.partition([leaders[0]], leaders[1:])) and None
                 if ev.event_type == "cut" else part["p"].heal())
    ents = [*leaders, *writers, net, ctl, *[ld.store for ld in leaders]]
    sim = Simulation(start_time=Instant.Epoch, duration=2.0, sources=srcs, entities=ents)
    for ld in leaders:
        sim.schedule(Event(time=Instant.from_seconds(0.2), event_type="AntiEntropy", target=ld, daemon=True))
    sim.schedule(at(0.3, ctl, "cut"))
    sim.schedule(at(0.6, ctl, "heal"))
    return Model(sim, [*srcs, *ents],
                 extra=lambda: [(ld.name, ld.merkle_tree.root_hash, sorted(ld.store.keys())) for ld in leaders])


@model("crdt-gossip")
def m_crdt(seed):
    """Three gossiping CRDT store clusters (G-counter, PN-counter, OR-set of strings)."""
    from happysimulator import CRDTStore, GCounter, Network, ORSet, PNCounter
    net = Network(name="cluster")
    r = random.Random(seed)
    clusters = []
    for label, cls, ops in (("g", GCounter, [("increment", 1), ("increment", 3)]),
                            ("pn", PNCounter, [("increment", 2), ("decrement", 1)]),
                            ("or", ORSet, [("add", "tag-red"), ("add", "tag-blue"), ("remove", "tag-red"),
                                           ("add", "tag-green")])):
        stores = [CRDTStore(f"{label}-node-{c}", network=net, crdt_factory=lambda nid, _c=cls: _c(nid),
                            gossip_interval=0.1) for c in "abc"]
        for s in stores:
            s.add_peers([o for o in stores if o is not s])
        _mesh(net, stores, _random_link)
        clusters.append((stores, ops))
    allstores = [s for st, _ in clusters for s in st]
    sim = Simulation(start_time=Instant.Epoch, duration=1.5, sources=[], entities=[*allstores, net])
    evs = []
    for stores, ops in clusters:
        for i in range(30):
            op, val = ops[r.randrange(len(ops))]
            evs.append(Event(time=Instant.from_seconds(0.02 + 0.03 * i), event_type="Write",
                             target=stores[r.randrange(3)],
                             context={"metadata": {"key": f"metric-{i % 2}", "operation": op, "value": val}}))
        for i, s in enumerate(stores):
            evs.append(Event(time=Instant.from_seconds(0.1 + 0.03 * i), event_type="GossipTick", target=s))
    sim.schedule(evs)
    return Model(sim, [*allstores, net], extra=lambda: [(s.name, {k: c.value for k, c in s.crdts.items()},
                                                         s.convergence_lag) for s in allstores])


# ===========================================================================
# 9. rate limiters
# ===========================================================================
@model("rate-limiters")
def m_rate_limiters(seed):
    from happysimulator import (AdaptivePolicy, FixedWindowPolicy, Inductor, LeakyBucketPolicy, RateLimitedEntity,
                                SlidingWindowPolicy, TokenBucketPolicy)
    from happysimulator.components.datastore import KVStore
    from happysimulator.components.rate_limiter.distributed import DistributedRateLimiter
    from happysimulator.components.rate_limiter.null import NullRateLimiter
    sinks, limiters = [], []
    pols = {"token": TokenBucketPolicy(capacity=4, refill_rate=40.0),
            "leaky": LeakyBucketPolicy(leak_rate=50.0),
            "sliding": SlidingWindowPolicy(window_size_seconds=0.1, max_requests=5),
            "fixed": FixedWindowPolicy(requests_per_window=6, window_size=0.125),
            "adaptive": AdaptivePolicy(initial_rate=50.0, min_rate=5.0, max_rate=200.0, window_size=0.25)}
    for k, p in pols.items():
        s = Sink(f"sink-{k}")
        sinks.append(s)
        limiters.append(RateLimitedEntity(f"rl-{k}", downstream=s, policy=p, queue_capacity=10))
    s = Sink("sink-inductor")
    sinks.append(s)
    limiters.append(Inductor("inductor", downstream=s, time_constant=0.05, queue_capacity=50))
    s = Sink("sink-null")
    sinks.append(s)
    limiters.append(NullRateLimiter("null", downstream=s))
    store = KVStore("counter-store", read_latency=0.0005, write_latency=0.001)
    s = Sink("sink-dist")
    sinks.append(s)
    dists = [DistributedRateLimiter(f"dist-{i}", downstream=s, backing_store=store, global_limit=8,
                                    window_size=0.1) for i in range(2)]
    adaptive = pols["adaptive"]

    def fan(self, event):
        if self.calls % 9 == 0:
            adaptive.record_failure(self.now)
        elif self.calls % 4 == 0:
            adaptive.record_success(self.now)
        tg = limiters + [dists[self.calls % 2]]
        return [Event(time=self.now, event_type="Request", target=t, context={"created_at": self.now}) for t in tg]

    fanout = Script("fanout", fan)
    src = Source.poisson(rate=90.0, target=fanout, event_type="tick", stop_after=0.8, name="src")
    ents = [fanout, *limiters, *dists, store, *sinks]
    sim = Simulation(sources=[src], entities=ents, end_time=Instant.from_seconds(2.0))
    return Model(sim, [src, *ents], extra=lambda: {"adaptive_rate": adaptive.current_rate})


# ===========================================================================
# 10. load balancers
# ===========================================================================
@model("load-balancer-strategies")
def m_load_balancers(seed):
    from happysimulator import Server
    from happysimulator.components.load_balancer import LoadBalancer
    from happysimulator.components.load_balancer import strategies as st
    from happysimulator.components.load_balancer.health_check import HealthChecker
    strategies = {"rr": st.RoundRobin(), "wrr": st.WeightedRoundRobin(), "random": st.Random(),
                  "least": st.LeastConnections(), "wleast": st.WeightedLeastConnections(),
                  "lrt": st.LeastResponseTime(alpha=0.3), "iphash": st.IPHash(),
                  "chash": st.ConsistentHash(virtual_nodes=8), "p2c": st.PowerOfTwoChoices()}
    ents, lbs = [], []
    for k, strat in strategies.items():
        backends = [Server(f"{k}-backend-{i}", concurrency=2, service_time=ExponentialLatency(0.01 * (i + 1)))
                    for i in range(3)]
        lb = LoadBalancer(f"lb-{k}", backends=backends, strategy=strat)
        if hasattr(strat, "set_weight"):
            for i, b in enumerate(backends):
                strat.set_weight(b, i + 1)
        lbs.append(lb)
        ents += [lb, *backends]
    hc = HealthChecker("health", load_balancer=lbs[0], interval=0.2, timeout=0.05, healthy_threshold=1,
                       unhealthy_threshold=2)
    ents.append(hc)
    r = random.Random(seed)

    def fan(self, event):
        md = {"client_id": f"client-{r.randrange(9)}", "session": f"s{r.randrange(4)}"}
        return [Event(time=self.now, event_type="Request", target=lb,
                      context={"created_at": self.now, "metadata": dict(md)}) for lb in lbs]

    fanout = Script("fanout", fan)
    ctl = Script("ctl", lambda self, ev: [lb.mark_unhealthy(lb.all_backends[0]) for lb in lbs[1:]] and None)
    src = Source.poisson(rate=50.0, target=fanout, event_type="tick", stop_after=0.45, name="src")
    sim = Simulation(sources=[src], entities=[fanout, ctl, *ents], end_time=Instant.from_seconds(1.2))
    sim.schedule(at(0.3, ctl, "degrade"))
    ev0 = hc.start()
    sim.schedule(ev0 if isinstance(ev0, (Event, list)) else [])
    return Model(sim, [src, fanout, *ents])


# ===========================================================================
# 11. resilience wrappers / clients
# ===========================================================================
@model("resilience-stack")
def m_resilience(seed):
    from happysimulator.components.resilience import Bulkhead, CircuitBreaker, Fallback, Hedge, TimeoutWrapper
    r = random.Random(seed)

    def flaky(self, event):
        slow = r.random() < 0.3
        yield 0.2 if slow else ExponentialLatency(0.01).get_latency(self.now).to_seconds()

    servers = [Script(f"server-{i}", flaky) for i in range(5)]
    backup = Script("backup", lambda self, ev: None)
    timeout = TimeoutWrapper("timeout", target=servers[0], timeout=0.05)
    cb = CircuitBreaker("cb", target=TimeoutWrapper("cb-timeout", target=servers[1], timeout=0.05),
                        failure_threshold=3, success_threshold=2, timeout=0.2)
    bulk = Bulkhead("bulkhead", target=servers[2], max_concurrent=2, max_wait_queue=3, max_wait_time=0.05)
    hedge = Hedge("hedge", target=servers[3], hedge_delay=0.02, max_hedges=1)
    fb = Fallback("fallback", primary=servers[4], fallback=backup, timeout=0.05)
    wrappers = [timeout, cb, bulk, hedge, fb]
    inner = [cb._target] if hasattr(cb, "_target") else []

    def fan(self, event):
        return [Event(time=self.now, event_type="request", target=w,
                      context={"created_at": self.now, "metadata": {"request_id": self.calls}}) for w in wrappers]

    fanout = Script("fanout", fan)
    src = Source.poisson(rate=70.0, target=fanout, event_type="tick", stop_after=0.8, name="src")
    ents = [fanout, *wrappers, *servers, backup]
    sim = Simulation(sources=[src], entities=ents, end_time=Instant.from_seconds(2.0))
    return Model(sim, [src, *ents], extra=lambda: {"cb_state": cb.state, "calls": [s.calls for s in servers]})


@model("client-retry-pool")
def m_client_pool(seed):
    from happysimulator.components.client import Client, ConnectionPool, PooledClient
    from happysimulator.components.client.retry import DecorrelatedJitter, ExponentialBackoff
    r = random.Random(seed)

    def flaky(self, event):
        yield 0.3 if r.random() < 0.25 else 0.01

    s1, s2 = Script("server-1", flaky), Script("server-2", flaky)
    c1 = Client("client-backoff", target=s1, timeout=0.05,
                retry_policy=ExponentialBackoff(max_attempts=3, initial_delay=0.01, max_delay=0.1, jitter=0.5))
    c2 = Client("client-decorr", target=s1, timeout=0.05,
                retry_policy=DecorrelatedJitter(max_attempts=3, base_delay=0.01, max_delay=0.1))
    pool = ConnectionPool("pool", target=s2, min_connections=1, max_connections=2, connection_timeout=0.1,
                          idle_timeout=0.2, connection_latency=ExponentialLatency(0.005))
    pc = PooledClient("pooled", connection_pool=pool, timeout=0.05)

    def drive(self, event):
        out = []
        for c in (c1, c2, pc):
            ev = c.send_request(payload={"n": self.calls})
            out.append(ev) if isinstance(ev, Event) else out.extend(ev or [])
        return out

    driver = Script("driver", drive)
    src = Source.poisson(rate=50.0, target=driver, event_type="tick", stop_after=0.8, name="src")
    ents = [driver, c1, c2, pc, pool, s1, s2]
    sim = Simulation(sources=[src], entities=ents, end_time=Instant.from_seconds(2.0))
    return Model(sim, [src, *ents])


# ===========================================================================
# 12. arrival processes / distributions
# ===========================================================================
@model("poisson-profiles")
def m_poisson_profiles(seed):
    """Poisson sources over a constant profile (numpy RNG, closed form) and a tiny spike profile
    (numpy RNG + numeric integration / root finding; kept to ~10 arrivals because the library's
    adaptive integrator is slow across a discontinuity)."""
    from happysimulator import SpikeProfile
    sink = Sink("sink")
    cnt = Script("count", lambda self, ev: [self.forward(ev, sink)])
    srcs = [Source.poisson(rate=400.0, target=cnt, stop_after=0.45, name="poisson-const"),
            Source.poisson(rate=70.0, target=cnt, stop_after=0.45, name="poisson-slow"),
            Source.with_profile(SpikeProfile(baseline_rate=4.0, spike_rate=40.0, warmup_s=0.1,
                                             spike_duration_s=0.1), target=cnt, poisson=True, name="poisson-spike",
                                stop_after=0.45)]
    sim = Simulation(sources=srcs, entities=[cnt, sink], end_time=Instant.from_seconds(0.5))
    return Model(sim, [*srcs, cnt, sink])


@model("distributions")
def m_distributions(seed):
    """Every latency/value distribution drives the service time / routing of a small pipeline."""
    from happysimulator import (PercentileFittedLatency, RandomRouter, Server, UniformDistribution, ZipfDistribution)
    sink = Sink("sink")
    servers = [Server("srv-exp", service_time=ExponentialLatency(0.01), downstream=sink, concurrency=2),
               Server("srv-pfit", service_time=PercentileFittedLatency(p50=0.008, p99=0.05), downstream=sink,
                      concurrency=2),
               Server("srv-const", service_time=ConstantLatency(0.01) + 0.002, downstream=sink, concurrency=2)]
    router = RandomRouter("router", targets=servers)
    zipf = ZipfDistribution([f"item-{i}" for i in range(20)], s=1.2, seed=seed)
    uni = UniformDistribution(["gold", "silver", "bronze"], seed=seed + 3)
    samples = []

    def tag(self, event):
        samples.append((zipf.sample(), uni.sample()))
        return [self.forward(event, router)]

    tagger = Script("tagger", tag)
    src = Source.poisson(rate=150.0, target=tagger, stop_after=0.8, name="src")
    sim = Simulation(sources=[src], entities=[tagger, router, *servers, sink], end_time=Instant.from_seconds(1.5))
    return Model(sim, [src, tagger, router, *servers, sink], extra=lambda: samples)


# ===========================================================================
# 13. assembly style of the repository's own examples: events built BEFORE Simulation()
# ===========================================================================
@model("preconstructed-events", explicit_seeds=True)
def m_preconstructed(seed):
    """examples/distributed/multi_leader_replication.py and examples/infrastructure/consumer_group.py
    create their control / poll events first and construct the Simulation afterwards.  Same here:
    pre-built events share timestamps with source ticks and with run-created events."""
    sink = Sink("sink")
    relay = Script("relay", lambda self, ev: [Event(time=self.now + 0.1, event_type="echo", target=sink)])
    pre = [Event(time=Instant.from_seconds(0.1 * k), event_type="Poll", target=sink) for k in range(1, 11)]
    pre += [Event(time=Instant.from_seconds(0.25), event_type="Control", target=relay)]
    src = Source.constant(rate=10.0, target=relay, event_type="Tick", stop_after=0.8, name="src")
    sim = Simulation(start_time=Instant.Epoch, duration=1.2, sources=[src], entities=[relay, sink])
    for e in pre:
        sim.schedule(e)
    return Model(sim, [src, relay, sink])


# ===========================================================================
# 14. further families: infrastructure, scheduling, behaviour, microservice
# ===========================================================================
@model("infrastructure")
def m_infrastructure(seed):
    from happysimulator import (HDD, AIMD, CPUScheduler, Cubic, DiskIO, DNSRecord, DNSResolver, FairShare,
                                GarbageCollector, GenerationalGC, PageCache, PriorityPreemptive, TCPConnection)
    cpu = CPUScheduler("cpu", policy=PriorityPreemptive(quantum_s=0.005))
    cpu2 = CPUScheduler("cpu-fair", policy=FairShare(quantum_s=0.005))
    disk = DiskIO("hdd", profile=HDD())
    dns = DNSResolver("dns", cache_capacity=3,
                      records={f"svc-{i}.example.com": DNSRecord(hostname=f"svc-{i}.example.com",
                                                                 ip_address=f"10.0.0.{i}", ttl_s=0.2) for i in range(6)})
    from happysimulator import BBR, ConcurrentGC, StopTheWorld
    gc = GarbageCollector("gc", strategy=GenerationalGC(minor_interval_s=0.1), heap_pressure=0.8)
    gcs = [GarbageCollector("gc-stw", strategy=StopTheWorld(base_pause_s=0.004, interval_s=0.2), heap_pressure=0.5),
           GarbageCollector("gc-conc", strategy=ConcurrentGC(pause_s=0.001, interval_s=0.1))]
    pc = PageCache("pagecache", capacity_pages=8, readahead_pages=2)
    tcp = [TCPConnection("tcp-aimd", congestion_control=AIMD(), base_rtt_s=0.01, loss_rate=0.05,
                         retransmit_timeout_s=0.05),
           TCPConnection("tcp-cubic", congestion_control=Cubic(), base_rtt_s=0.01, loss_rate=0.05,
                         retransmit_timeout_s=0.05),
           TCPConnection("tcp-bbr", congestion_control=BBR(), base_rtt_s=0.01, loss_rate=0.05,
                         retransmit_timeout_s=0.05)]
    r = random.Random(seed)

    def work(self, event):
        i = self.calls
        yield from dns.resolve(f"svc-{r.randrange(6)}.example.com")
        yield from (cpu if i % 2 else cpu2).execute(f"task-{i}", 0.004 + 0.002 * (i % 3), priority=i % 3)
        yield from pc.read_page(r.randrange(20))
        if i % 3 == 0:
            yield from pc.write_page(r.randrange(20))
            yield from disk.write(8192)
        else:
            yield from disk.read(4096)
        yield from (gc, *gcs)[i % 3].pause()
        yield from tcp[i % 3].send(20_000)

    worker = Script("worker", work)
    src = Source.poisson(rate=40.0, target=worker, event_type="job", stop_after=0.6, name="src")
    ents = [worker, cpu, cpu2, disk, dns, gc, *gcs, pc, *tcp]
    sim = Simulation(sources=[src], entities=ents, end_time=Instant.from_seconds(3.0))
    return Model(sim, [src, *ents])


@model("default-built-registries", explicit_seeds=True)
def m_default_built_registries(seed):
    """Components built with their DEFAULT container arguments and filled through their public mutators while
    the run goes on (mini round 6): what one instance learns must not reach the instance of the next build
    (rerun / prior-activity dimensions).  DNSResolver without ``records=``: lookups of hosts that are registered
    only later in the run, so the answers depend on exactly the records this instance was given."""
    from happysimulator import DNSRecord, DNSResolver
    dns = DNSResolver("dns", cache_capacity=2)
    r = random.Random(seed)

    def work(self, event):
        i = self.calls
        host = f"svc-{r.randrange(6)}.example.com"
        ip = yield from dns.resolve(host)
        self.notes.append((self.now.nanoseconds, host, ip))
        if i % 3 == 2:
            k = i // 3
            dns.add_record(DNSRecord(hostname=f"svc-{k % 6}.example.com", ip_address=f"10.1.0.{k}", ttl_s=0.15))

    worker = Script("worker", work)
    src = Source.constant(rate=20.0, target=worker, event_type="job", stop_after=1.0, name="src")
    sim = Simulation(sources=[src], entities=[worker, dns], end_time=Instant.from_seconds(3.0))
    return Model(sim, [src, worker, dns], extra=lambda: worker.notes)


@model("scheduling")
def m_scheduling(seed):
    from happysimulator import JobDefinition, JobScheduler, WorkStealingPool
    sink = Sink("sink")
    pool = WorkStealingPool("pool", num_workers=3, downstream=sink, default_processing_time=0.01)
    r = random.Random(seed)

    def submit(self, event):
        return [Event(time=self.now, event_type="Task", target=pool,
                      context={"created_at": self.now,
                               "metadata": {"processing_time": 0.08 if r.random() < 0.2 else 0.01,
                                            "task_id": self.calls}})]

    submitter = Script("submitter", submit)
    workers = [Script(f"{n}-worker", lambda self, ev: (yield 0.03)) for n in ("extract", "transform", "load")]
    sched = JobScheduler("cron", tick_interval=0.1)
    sched.add_job(JobDefinition(name="extract", target=workers[0], event_type="Extract", interval=0.3, priority=10))
    sched.add_job(JobDefinition(name="transform", target=workers[1], event_type="Transform", interval=0.3,
                                priority=5, depends_on=["extract"]))
    sched.add_job(JobDefinition(name="load", target=workers[2], event_type="Load", interval=0.3, priority=1,
                                depends_on=["transform"]))
    src = Source.poisson(rate=120.0, target=submitter, event_type="tick", stop_after=0.8, name="src")
    ents = [submitter, pool, *pool.workers, sink, sched, *workers]
    sim = Simulation(sources=[src], entities=ents, end_time=Instant.from_seconds(2.0))
    ev0 = sched.start()
    sim.schedule(ev0 if isinstance(ev0, (Event, list)) else [])
    return Model(sim, [src, *ents], extra=lambda: [sched.get_job_state(n) for n in ("extract", "transform", "load")])


@model("behavior-population", explicit_seeds=True)
def m_behavior(seed):
    """Mirrors examples/behavior/product_adoption.py at small scale (string-named agents, small-world graph)."""
    from happysimulator import (BehaviorEnvironment, BoundedConfidenceModel, DemographicSegment,
                                NormalTraitDistribution, Population, UtilityModel, influence_propagation,
                                price_change)

    def utility(choice, ctx):
        if choice.action == "buy":
            peers = ctx.social_context.get("peer_actions", {})
            return 0.3 + 0.4 * ctx.traits.get("openness") + min(0.3, peers.get("buy", 0) * 0.05)
        return 0.45 if choice.action == "wait" else 0.15

    segs = [DemographicSegment(name="innovators", fraction=0.3,
                               trait_distribution=NormalTraitDistribution(
                                   means={"openness": 0.8, "conscientiousness": 0.5, "extraversion": 0.7,
                                          "agreeableness": 0.5, "neuroticism": 0.3}),
                               decision_model_factory=lambda: UtilityModel(utility_fn=utility), seed=seed),
            DemographicSegment(name="majority", fraction=0.7,
                               trait_distribution=NormalTraitDistribution(
                                   means={"openness": 0.4, "conscientiousness": 0.55, "extraversion": 0.5,
                                          "agreeableness": 0.6, "neuroticism": 0.45}),
                               decision_model_factory=lambda: UtilityModel(utility_fn=utility), seed=seed + 1)]
    pop = Population.from_segments(total_size=24, segments=segs, graph_type="small_world", seed=seed)
    actions = []
    for ag in pop.agents:
        for act in ("buy", "wait", "switch"):
            ag.on_action(act, lambda a, choice, event, _n=ag.name: actions.append((a.now.nanoseconds, _n,
                                                                                    choice.action)) and None)
    env = BehaviorEnvironment(name="market", agents=pop.agents, social_graph=pop.social_graph,
                              influence_model=BoundedConfidenceModel(epsilon=0.4, self_weight=0.3), seed=seed)
    sim = Simulation(start_time=Instant.Epoch, end_time=Instant.from_seconds(6.0), entities=[env, *pop.agents])
    for t in (1.0, 2.5, 4.0):
        sim.schedule(price_change(t, env, "GadgetX", 100.0, 100.0 - 5 * t))
    for t in range(1, 6):
        sim.schedule(influence_propagation(float(t) + 0.5, env, "product_sentiment"))
    return Model(sim, [env, *pop.agents], extra=lambda: {"actions": actions, "pop": pop.stats})


@model("microservice")
def m_microservice(seed):
    from happysimulator import (APIGateway, IdempotencyStore, OutboxRelay, RouteConfig, Saga, SagaStep, Server,
                                Sidecar, TokenBucketPolicy)
    r = random.Random(seed)
    backends = [Server(f"backend-{i}", concurrency=2, service_time=ExponentialLatency(0.01)) for i in range(3)]
    gw = APIGateway("gateway", routes={"/orders": RouteConfig(name="orders", backends=backends[:2],
                                                              rate_limit_policy=TokenBucketPolicy(5, 60.0)),
                                       "/users": RouteConfig(name="users", backends=backends[2:])},
                    auth_failure_rate=0.1)
    flaky = Script("flaky", lambda self, ev: (yield (0.2 if r.random() < 0.3 else 0.005)))
    sidecar = Sidecar("sidecar", target=flaky, rate_limit_policy=TokenBucketPolicy(4, 50.0),
                      circuit_failure_threshold=3, circuit_timeout=0.2, request_timeout=0.05, max_retries=2,
                      retry_base_delay=0.01)
    idem = IdempotencyStore("idem", target=backends[2], key_extractor=lambda e: e.context.get("metadata", {})
                            .get("idem_key"), ttl=0.3, cleanup_interval=0.1)
    sink = Sink("outbox-sink")
    outbox = OutboxRelay("outbox", downstream=sink, poll_interval=0.05, batch_size=5)
    steps_t = [Script(f"step-{i}", lambda self, ev: (yield 0.01)) for i in range(3)]
    comp_t = [Script(f"comp-{i}", lambda self, ev: (yield 0.005)) for i in range(3)]
    saga = Saga("saga", steps=[SagaStep(name=f"s{i}", action_target=steps_t[i], action_event_type="do",
                                        compensation_target=comp_t[i], compensation_event_type="undo",
                                        timeout=0.05) for i in range(3)])

    def fan(self, event):
        md = {"route": r.choice(["/orders", "/users"]), "idem_key": f"req-{r.randrange(10)}",
              "request_id": self.calls}
        outbox.write({"n": self.calls})
        return [Event(time=self.now, event_type="Request", target=t,
                      context={"created_at": self.now, "metadata": dict(md)}) for t in (gw, sidecar, idem, saga)]

    fanout = Script("fanout", fan)
    src = Source.poisson(rate=60.0, target=fanout, event_type="tick", stop_after=0.6, name="src")
    ents = [fanout, gw, *backends, sidecar, flaky, idem, outbox, sink, saga, *steps_t, *comp_t]
    sim = Simulation(sources=[src], entities=ents, end_time=Instant.from_seconds(2.0))
    ev0 = outbox.prime_poll()
    sim.schedule(ev0 if isinstance(ev0, (Event, list)) else [])
    return Model(sim, [src, *ents])


@model("industrial-line")
def m_industrial(seed):
    """Conveyor -> inspection (random pass/fail, balking queue) -> batch processor, with random breakdowns."""
    from happysimulator import (BalkingQueue, BatchProcessor, BreakdownScheduler, ConveyorBelt, FIFOQueue,
                                InspectionStation, Server)
    good, scrap, done = Sink("good"), Sink("scrap"), Sink("done")
    batch = BatchProcessor("batch", downstream=done, batch_size=4, process_time=0.03, timeout_s=0.2)
    machine = Server("machine", concurrency=1, service_time=ExponentialLatency(0.015), downstream=batch)
    station = InspectionStation("inspect", pass_target=machine, fail_target=scrap, inspection_time=0.01,
                                pass_rate=0.8, policy=BalkingQueue(FIFOQueue(), balk_threshold=3,
                                                                   balk_probability=0.5))
    belt = ConveyorBelt("belt", downstream=station, transit_time=0.05, capacity=6)
    breaker = BreakdownScheduler("breakdowns", target=machine, mean_time_to_failure=0.3, mean_repair_time=0.05)
    from happysimulator import AppointmentScheduler
    appts = AppointmentScheduler("appointments", target=belt, appointments=[0.05 * k for k in range(1, 25)],
                                 no_show_rate=0.3, event_type="Request")
    src = Source.poisson(rate=60.0, target=belt, stop_after=1.0, name="src")
    ents = [belt, station, machine, batch, breaker, appts, good, scrap, done]
    sim = Simulation(sources=[src], entities=ents, end_time=Instant.from_seconds(2.0))
    ev0 = breaker.start_event()
    sim.schedule(ev0 if isinstance(ev0, (Event, list)) else [])
    sim.schedule(appts.start_events())
    return Model(sim, [src, *ents])


@model("datastore-misc")
def m_datastore_misc(seed):
    """Soft-TTL cache, multi-tier cache, quorum-replicated store and a database behind string keys."""
    from happysimulator.components.datastore import (CachedStore, ConsistencyLevel, Database, KVStore,
                                                     LRUEviction, MultiTierCache, ReplicatedStore, SoftTTLCache)
    origin = KVStore("origin", read_latency=0.004, write_latency=0.006)
    soft = SoftTTLCache("soft", backing_store=origin, soft_ttl=0.05, hard_ttl=0.15, cache_capacity=6)
    l1 = KVStore("l1", read_latency=0.0002, write_latency=0.0002, capacity=3)
    l2 = KVStore("l2", read_latency=0.001, write_latency=0.001, capacity=6)
    tiers = MultiTierCache("tiers", tiers=[l1, l2], backing_store=origin)
    replicas = [KVStore(f"replica-{i}", read_latency=0.001 * (i + 1), write_latency=0.002 * (i + 1))
                for i in range(3)]
    repl = ReplicatedStore("replicated", replicas=replicas, read_consistency=ConsistencyLevel.QUORUM,
                           write_consistency=ConsistencyLevel.QUORUM)
    db = Database("db", max_connections=2, query_latency=0.004, connection_latency=0.002)
    from happysimulator.components.datastore import ShardedStore
    from happysimulator.components.datastore.sharded_store import ConsistentHashSharding
    cshards = [KVStore(f"cshard-{i}", read_latency=0.001 * (i + 1), write_latency=0.001 * (i + 1)) for i in range(3)]
    chash = ShardedStore("chash", shards=cshards, sharding_strategy=ConsistentHashSharding(virtual_nodes=8, seed=seed))
    r = random.Random(seed)

    def client(self, event):
        k = f"sku-{r.randrange(10)}"
        which = self.calls % 4
        yield from chash.put(k, self.calls)
        if which == 0:
            if r.random() < 0.4:
                yield from soft.put(k, self.calls)
            else:
                yield from soft.get(k)
        elif which == 1:
            if r.random() < 0.4:
                yield from tiers.put(k, self.calls)
            else:
                yield from tiers.get(k)
        elif which == 2:
            if r.random() < 0.5:
                yield from repl.put(k, self.calls)
            else:
                yield from repl.get(k)
        else:
            tx = yield from db.begin_transaction()
            yield from tx.execute(f"UPDATE stock SET n = n - 1 WHERE sku = '{k}'")
            if r.random() < 0.8:
                yield from tx.commit()
            else:
                yield from tx.rollback()

    clients = [Script(f"client-{i}", client) for i in range(3)]
    fan = Script("fan", lambda self, ev: [self.forward(ev, clients[self.calls % 3])])
    src = Source.poisson(rate=120.0, target=fan, event_type="op", stop_after=0.8, name="src")
    ents = [fan, *clients, origin, soft, l1, l2, tiers, *replicas, repl, db, chash, *cshards]
    sim = Simulation(sources=[src], entities=ents, end_time=Instant.from_seconds(2.0))
    return Model(sim, [src, *ents])


# ===========================================================================
# 15. fault injection + the 'shared arguments' assembly style
# ===========================================================================
# A user may keep plain-data configuration at module level and pass the SAME objects to every
# build of a model: lists of node names, config dicts, frozen fault / profile dataclasses,
# stateless latency objects.  These are immutable by contract (nobody expects a library call to
# write into the list it was handed).  Entities, RNG-carrying distributions, queue / eviction
# policies and FaultSchedule objects are stateful by design and are built freshly every time.
# With these constants the "rerun" and "prior" dimensions also catch a component that mutates
# caller-owned arguments in place.
SHARED_NODES = ["node-a", "node-b", "node-c", "node-d"]
SHARED_GROUP_A = ["node-a", "node-b"]
SHARED_GROUP_B = ["node-c", "node-d"]
SHARED_CUSTOMERS = [f"customer-{i:03d}" for i in range(30)]
SHARED_REGIONS = ["us-east", "us-west", "eu", "ap"]
SHARED_STATIC_FIELDS = {"tenant": "acme", "tier": "gold", "tags": ["a", "b"]}
SHARED_KEYS_TO_WARM = [f"sku-{i}" for i in range(8)]
SHARED_RANGE_BOUNDARIES = ["sku-3", "sku-6"]
SHARED_CHAIN_NAMES = ["chain-0", "chain-1", "chain-2"]
SHARED_DEPENDS_ON = ["extract"]
SHARED_TRAIT_MEANS = {"openness": 0.6, "conscientiousness": 0.5, "extraversion": 0.5, "agreeableness": 0.5,
                      "neuroticism": 0.4}
_SHARED_LAZY: dict = {}


def _shared_objects():
    """Library-typed shared configuration objects (created once per interpreter, on first use)."""
    if not _SHARED_LAZY:
        from happysimulator import ConstantRateProfile, SpikeProfile
        from happysimulator.components.client.retry import ExponentialBackoff, FixedRetry
        from happysimulator.faults import (CrashNode, InjectLatency, InjectPacketLoss, NetworkPartition, PauseNode,
                                           RandomPartition, ReduceCapacity)
        from happysimulator.components.infrastructure.dns_resolver import DNSRecord
        _SHARED_LAZY.update({
            "faults": (
                RandomPartition(nodes=SHARED_NODES, mtbf=0.15, mttr=0.05, seed=11, network_name="net"),
                NetworkPartition(group_a=SHARED_GROUP_A, group_b=SHARED_GROUP_B, start=0.9, end=1.0,
                                 network_name="net"),
                CrashNode("worker-0", at=0.3, restart_at=0.5),
                PauseNode("worker-1", start=0.4, end=0.6),
                InjectLatency("node-a", "node-b", extra_ms=20.0, start=0.2, end=0.7, network_name="net"),
                InjectPacketLoss("node-c", "node-d", loss_rate=0.5, start=0.1, end=0.8, network_name="net"),
                ReduceCapacity("pool", factor=0.5, start=0.25, end=0.65),
            ),
            "latency_const": ConstantLatency(0.004),
            "latency_exp": ExponentialLatency(0.01),
            "profile_const": ConstantRateProfile(rate=80.0),
            "profile_spike": SpikeProfile(baseline_rate=40.0, spike_rate=40.0, warmup_s=10.0, spike_duration_s=1.0),
            "retry_backoff": ExponentialBackoff(max_attempts=3, initial_delay=0.01, max_delay=0.05, jitter=0.01),
            "retry_fixed": FixedRetry(max_attempts=2, delay=0.01),
            "dns_records": {f"svc-{i}.example.com": DNSRecord(hostname=f"svc-{i}.example.com",
                                                              ip_address=f"10.0.0.{i}", ttl_s=0.2) for i in range(4)},
        })
    return _SHARED_LAZY


@model("faults-schedule")
def m_faults(seed):
    """Every fault type of happysimulator.faults through one FaultSchedule (built freshly; the fault
    objects and the node-name lists they carry are module-level constants shared by every build):
    seeded RandomPartition, NetworkPartition, CrashNode / PauseNode on generator workers,
    InjectLatency / InjectPacketLoss on links (loss drawn from the module RNG), ReduceCapacity on a
    Resource; plus a BreakdownScheduler-style stochastic fault on a server."""
    from happysimulator import BreakdownScheduler, FaultSchedule, Network, NetworkLink, Resource, Server
    sh = _shared_objects()
    net = Network(name="net")
    hosts = []

    def host_fn(self, event):
        if event.event_type == "tick":
            peer = hosts[(hosts.index(self) + 1 + self.calls % 3) % 4]
            out = [net.send(self, peer, "ping", payload={"size": 100})]
            if self.now.to_seconds() < 1.1:
                out.append(Event(time=self.now + 0.03, event_type="tick", target=self))
            return out
        if event.event_type == "ping":
            peer = next(h for h in hosts if h.name == event.context["metadata"]["source"])
            return [net.send(self, peer, "pong")]
        return None

    hosts.extend(Script(n, host_fn) for n in ("node-a", "node-b", "node-c", "node-d"))  # own copy of the names
    _mesh(net, hosts, lambda nm: NetworkLink(name=nm, latency=sh["latency_const"], jitter=sh["latency_exp"]))
    pool = Resource("pool", capacity=4)
    sink = Sink("sink")
    machine = Server("machine", concurrency=2, service_time=sh["latency_exp"], downstream=sink)
    breaker = BreakdownScheduler("breakdowns", target=machine, mean_time_to_failure=0.2, mean_repair_time=0.03)

    def work(self, event):
        grant = yield pool.acquire(2)
        yield 0.03
        grant.release()
        yield 0.01
        return [Event(time=self.now, event_type="Request", target=machine, context={"created_at": self.now})]

    workers = [Script(f"worker-{i}", work) for i in range(3)]
    disp = Script("dispatch", lambda self, ev: [self.forward(ev, workers[self.calls % 3])])
    src = Source.poisson(rate=70.0, target=disp, event_type="job", stop_after=1.0, name="src")
    schedule = FaultSchedule("faults")
    for f in sh["faults"]:
        schedule.add(f)
    ents = [net, *hosts, pool, machine, breaker, sink, disp, *workers]
    sim = Simulation(sources=[src], entities=ents, end_time=Instant.from_seconds(1.5), fault_schedule=schedule)
    for i, h in enumerate(hosts):
        sim.schedule(at(0.005 * (i + 1), h, "tick"))
    ev0 = breaker.start_event()
    sim.schedule(ev0 if isinstance(ev0, (Event, list)) else [])
    return Model(sim, [src, schedule, *ents],
                 extra=lambda: {"traffic": net.traffic_matrix(), "calls": [h.calls for h in hosts],
                                "pool": (pool.capacity, pool.available)})


@model("shared-arguments")
def m_shared_arguments(seed):
    """Components across families fed with the module-level shared configuration objects: value
    lists for distributions, static-field dict, profile / latency / retry-policy objects, DNS record
    dict, key lists, sharding boundaries, chain names, job dependency list, trait means."""
    from happysimulator import (ConstantArrivalTimeProvider, DistributedFieldProvider, DNSResolver, JobDefinition,
                                JobScheduler, Network, NormalTraitDistribution, PoissonArrivalTimeProvider, Server,
                                TopKCollector, UniformDistribution, ZipfDistribution)
    from happysimulator.components.client import Client
    from happysimulator.components.datastore import (CachedStore, CacheWarmer, KVStore, LRUEviction, ShardedStore)
    from happysimulator.components.datastore.sharded_store import RangeSharding
    from happysimulator.components.replication.chain_replication import build_chain
    sh = _shared_objects()
    r = random.Random(seed)
    sink = Sink("sink")
    topk = TopKCollector("topk", k=5, value_extractor=lambda e: e.context.get("customer_id"), seed=seed)
    srv = Server("server", concurrency=2, service_time=sh["latency_exp"], downstream=sink)
    dns = DNSResolver("dns", cache_capacity=2, records=sh["dns_records"])
    shards = [KVStore(f"shard-{i}", read_latency=0.001 * (i + 1), write_latency=0.002) for i in range(3)]
    for i, k in enumerate(SHARED_KEYS_TO_WARM):
        shards[RangeSharding(SHARED_RANGE_BOUNDARIES).get_shard(k, 3)].put_sync(k, i)
    sharded = ShardedStore("sharded", shards=shards, sharding_strategy=RangeSharding(boundaries=SHARED_RANGE_BOUNDARIES))
    cache = CachedStore("cache", backing_store=sharded, cache_capacity=5, eviction_policy=LRUEviction())
    warmer = CacheWarmer("warmer", cache=cache, keys_to_warm=SHARED_KEYS_TO_WARM, warmup_rate=200.0)
    net = Network(name="chain-net")
    chain = build_chain(SHARED_CHAIN_NAMES, net, store_factory=lambda n: KVStore(n + "-store", write_latency=0.001,
                                                                                 read_latency=0.001))
    for i in range(2):
        net.add_bidirectional_link(chain[i], chain[i + 1], _random_link(f"clink-{i}"))
    net.add_bidirectional_link(chain[0], chain[-1], _random_link("clink-ht"))
    writer = Script("writer", _writer(lambda s: chain[0], seed, universe=5))
    flaky = Script("flaky", lambda self, ev: (yield (0.2 if r.random() < 0.3 else 0.005)))
    clients = [Client("client-backoff", target=flaky, timeout=0.03, retry_policy=sh["retry_backoff"]),
               Client("client-fixed", target=flaky, timeout=0.03, retry_policy=sh["retry_fixed"])]
    etl = [Script(f"{n}-job", lambda self, ev: (yield 0.01)) for n in ("extract", "transform")]
    sched = JobScheduler("cron", tick_interval=0.1)
    sched.add_job(JobDefinition(name="extract", target=etl[0], event_type="Extract", interval=0.2, priority=2))
    sched.add_job(JobDefinition(name="transform", target=etl[1], event_type="Transform", interval=0.2, priority=1,
                                depends_on=SHARED_DEPENDS_ON))
    traits = NormalTraitDistribution(means=SHARED_TRAIT_MEANS)
    trait_rng = random.Random(seed)
    samples = []

    def fan(self, event):
        out = [self.forward(event, topk), self.forward(event, srv)]
        if self.calls % 4 == 0:
            out.append(Event(time=self.now, event_type="NewWrite", target=writer))
            for c in clients:
                ev = c.send_request(payload={"n": self.calls})
                out.append(ev) if isinstance(ev, Event) else out.extend(ev or [])
        return out

    def lookups(self, event):
        yield from dns.resolve(r.choice(sorted(sh["dns_records"])))
        v = yield from cache.get(r.choice(SHARED_KEYS_TO_WARM))
        samples.append(v)
        if len(samples) % 5 == 0:
            samples.append(repr(traits.sample(trait_rng))[:80] if hasattr(traits, "sample") else None)

    fanout, looker = Script("fan", fan), Script("lookups", lookups)
    provider = DistributedFieldProvider(
        target=fanout, event_type="Request",
        field_distributions={"customer_id": ZipfDistribution(SHARED_CUSTOMERS, s=1.1, seed=seed),
                             "region": UniformDistribution(SHARED_REGIONS, seed=seed + 1)},
        static_fields=SHARED_STATIC_FIELDS, stop_after=Instant.from_seconds(0.8))
    srcs = [Source("src", event_provider=provider,
                   arrival_time_provider=PoissonArrivalTimeProvider(sh["profile_const"], start_time=Instant.Epoch)),
            Source.with_profile(sh["profile_spike"], target=looker, event_type="lookup", poisson=False,
                                name="lookup-src", stop_after=0.2)]
    ents = [fanout, looker, topk, srv, sink, dns, *shards, sharded, cache, warmer, net, *chain,
            *[n.store for n in chain], writer, flaky, *clients, sched, *etl]
    sim = Simulation(sources=srcs, entities=ents, end_time=Instant.from_seconds(0.4))
    sim.schedule(warmer.start_warming())
    ev0 = sched.start()
    sim.schedule(ev0 if isinstance(ev0, (Event, list)) else [])
    return Model(sim, [*srcs, *ents],
                 extra=lambda: {"top": [(f.item, f.count) for f in topk.top()], "samples": samples})


# ===========================================================================
# 16. explicitly seeded components only (the global generators are part of the environment)
# ===========================================================================
@model("sketch-merge", explicit_seeds=True)
def m_sketch_merge(seed):
    """Two SEEDED instances of every sketch with a merge(), each fed half of a seeded Zipf stream of
    string ids through collectors inside a simulation; the merged sketches are queried afterwards."""
    from happysimulator import (BloomFilter, CountMinSketch, HyperLogLog, MerkleTree, QuantileEstimator,
                                ReservoirSampler, SketchCollector, TDigest, TopK, ZipfDistribution)
    from happysimulator import ConstantArrivalTimeProvider, ConstantRateProfile, DistributedFieldProvider
    ids = [f"customer-{i:03d}" for i in range(40)]

    def pair(mk):
        return [mk(), mk()]

    sk = {"cms": pair(lambda: CountMinSketch(width=32, depth=3, seed=seed)),
          "bloom": pair(lambda: BloomFilter(size_bits=256, num_hashes=3, seed=seed)),
          "hll": pair(lambda: HyperLogLog(precision=6, seed=seed)),
          "topk": pair(lambda: TopK(k=6, seed=seed)),
          "reservoir": [ReservoirSampler(size=8, seed=seed), ReservoirSampler(size=8, seed=seed + 1)],
          "tdigest": pair(lambda: TDigest(compression=20.0, seed=seed))}
    cols = []
    for half in (0, 1):
        for k, (a, b) in sk.items():
            ext = (lambda e: float(int(e.context["customer_id"][-3:]))) if k == "tdigest" \
                else (lambda e: e.context.get("customer_id"))
            cols.append(SketchCollector(f"{k}-{half}", (a, b)[half], value_extractor=ext))
    fan = Script("fan", lambda self, ev: [self.forward(ev, c) for c in cols
                                          if c.name.endswith(str(self.calls % 2))])
    provider = DistributedFieldProvider(target=fan, event_type="Request",
                                        field_distributions={"customer_id": ZipfDistribution(ids, s=1.1, seed=seed)},
                                        stop_after=Instant.from_seconds(0.5))
    src = Source("src", event_provider=provider,
                 arrival_time_provider=ConstantArrivalTimeProvider(ConstantRateProfile(rate=300.0),
                                                                   start_time=Instant.Epoch))
    sim = Simulation(sources=[src], entities=[fan, *cols], end_time=Instant.from_seconds(0.6))

    def observe():
        out = {}
        for k, (a, b) in sk.items():
            a.merge(b)
        out["cms"] = [sk["cms"][0].estimate(i) for i in ids]
        out["bloom"] = [sk["bloom"][0].contains(i) for i in ids] + [sk["bloom"][0].false_positive_rate]
        out["hll"] = sk["hll"][0].cardinality()
        out["topk"] = [(f.item, f.count, f.error) for f in sk["topk"][0].top(6)]
        out["reservoir"] = (list(sk["reservoir"][0].sample()), sk["reservoir"][0].item_count)
        out["tdigest"] = [sk["tdigest"][0].quantile(q) for q in (0.1, 0.5, 0.9)]
        ta = MerkleTree.build({i: sk["cms"][0].estimate(i) for i in ids[:16]})
        tb = MerkleTree.build({i: sk["cms"][1].estimate(i) for i in ids[4:20]})
        out["merkle"] = (ta.root_hash, tb.root_hash, [repr(r) for r in ta.diff(tb)])
        return out
    return Model(sim, [src, fan, *cols], extra=observe)


@model("behavior-graphs", explicit_seeds=True)
def m_behavior_graphs(seed):
    """Every Population builder x graph type, every decision / influence model, every stimulus
    helper and every SocialGraph generator, all explicitly seeded."""
    import happysimulator as hs

    def utility(choice, ctx):
        base = {"buy": 0.5, "wait": 0.4, "switch": 0.2}.get(choice.action, 0.1)
        return base + 0.3 * ctx.traits.get("openness") if choice.action == "buy" else base

    segs = [hs.DemographicSegment(name="early", fraction=0.4,
                                  trait_distribution=hs.NormalTraitDistribution(
                                      means={"openness": 0.8, "conscientiousness": 0.5, "extraversion": 0.6,
                                             "agreeableness": 0.5, "neuroticism": 0.3}),
                                  decision_model_factory=lambda: hs.BoundedRationalityModel(utility, aspiration=0.6)),
            hs.DemographicSegment(name="late", fraction=0.6,
                                  trait_distribution=hs.UniformTraitDistribution(
                                      ["openness", "conscientiousness", "extraversion", "agreeableness",
                                       "neuroticism"]),
                                  decision_model_factory=lambda: hs.SocialInfluenceModel(utility, 0.5), seed=seed + 9)]
    composite = hs.CompositeModel([(hs.UtilityModel(utility, temperature=0.5), 0.6),
                                   (hs.RuleBasedModel([hs.Rule(lambda ctx: ctx.traits.get("neuroticism") > 0.6,
                                                               "wait", priority=1)], default_action="buy"), 0.4)])
    pops = {
        "u-complete": (hs.Population.uniform(6, hs.UtilityModel(utility, temperature=0.7), graph_type="complete",
                                             seed=seed, name_prefix="uc"), hs.DeGrootModel(self_weight=0.4)),
        "u-small": (hs.Population.uniform(10, composite, graph_type="small_world", seed=seed + 1,
                                          name_prefix="us"), hs.BoundedConfidenceModel(epsilon=0.5, self_weight=0.3)),
        "u-random": (hs.Population.uniform(12, hs.UtilityModel(utility, temperature=0.7), graph_type="random",
                                           seed=seed + 2, name_prefix="ur"), hs.VoterModel()),
        "s-random": (hs.Population.from_segments(12, segs, graph_type="random", seed=seed + 3, name_prefix="sr"),
                     hs.DeGrootModel(self_weight=0.5)),
        "s-small": (hs.Population.from_segments(10, segs, graph_type="small_world", seed=seed + 4,
                                                name_prefix="ss"), hs.VoterModel()),
    }
    envs, ents, actions = [], [], []
    for label, (pop, infl) in pops.items():
        r = random.Random(seed)
        for ag in pop.agents:
            ag.state.beliefs["product_sentiment"] = r.random()
            for act in ("buy", "wait", "switch"):
                ag.on_action(act, lambda a, choice, event, _n=ag.name: actions.append(
                    (a.now.nanoseconds, _n, choice.action)) and None)
        env = hs.BehaviorEnvironment(name=f"env-{label}", agents=pop.agents, social_graph=pop.social_graph,
                                     influence_model=infl, seed=seed)
        envs.append(env)
        ents += [env, *pop.agents]
    sim = Simulation(start_time=Instant.Epoch, end_time=Instant.from_seconds(5.0), entities=ents)
    for (label, (pop, _)), env in zip(pops.items(), envs):
        names = [a.name for a in pop.agents]
        sim.schedule(hs.broadcast_stimulus(0.5, env, "launch", choices=["buy", "wait", "switch"]))
        sim.schedule(hs.targeted_stimulus(1.0, env, names[:3], "coupon", choices=["buy", "wait"]))
        sim.schedule(hs.price_change(1.5, env, "GadgetX", 100.0, 80.0))
        sim.schedule(hs.policy_announcement(2.0, env, "returns", "free returns", valence=0.4))
        for t in (2.5, 3.0, 3.5):
            sim.schedule(hs.influence_propagation(t, env, "product_sentiment"))
    gnames = [f"n{i}" for i in range(10)]
    graphs = {"er": hs.SocialGraph.random_erdos_renyi(gnames, p=0.3, rng=random.Random(seed)),
              "sw": hs.SocialGraph.small_world(gnames, k=4, p_rewire=0.5, rng=random.Random(seed)),
              "complete": hs.SocialGraph.complete(gnames[:4], rng=random.Random(seed))}

    def observe():
        out = {"actions": actions, "graphs": {k: (g.edge_count, [sorted(g.neighbors(n)) for n in gnames[:4]])
                                              for k, g in graphs.items()}}
        for label, (pop, _) in pops.items():
            g = pop.social_graph
            out[label] = {"edges": g.edge_count,
                          "nbrs": [sorted(g.neighbors(a.name)) for a in pop.agents],
                          "beliefs": [a.state.beliefs.get("product_sentiment") for a in pop.agents],
                          "stats": pop.stats}
        return out
    return Model(sim, ents, extra=observe)


# ===========================================================================
# coverage of the package: every module that takes seed= / rng= or touches random, numpy.random,
# uuid, time or builtin hash() (the parent re-greps the tree on every run and reports modules that
# are missing here).  value: (models exercising it — with every option value that selects another
# code branch —, or None), note / reason
# ===========================================================================
COVERAGE = {
    "components/behavior/agent.py": (["behavior-graphs", "behavior-population"], "Agent(seed=) decisions, action handlers"),
    "components/behavior/decision.py": (["behavior-graphs"], "UtilityModel(temperature>0), RuleBased, BoundedRationality, SocialInfluence, Composite"),
    "components/behavior/environment.py": (["behavior-graphs", "behavior-population"], "Environment(seed=): broadcast, targeted, influence rounds"),
    "components/behavior/influence.py": (["behavior-graphs", "behavior-population"], "DeGroot, BoundedConfidence, Voter"),
    "components/behavior/population.py": (["behavior-graphs", "behavior-population"], "uniform + from_segments x graph_type in {complete, small_world, random}; segment seed given / derived"),
    "components/behavior/social_network.py": (["behavior-graphs"], "complete, random_erdos_renyi, small_world (rewiring) with rng="),
    "components/behavior/traits.py": (["behavior-graphs", "behavior-population", "shared-arguments"], "Normal + Uniform trait distributions"),
    "components/client/retry.py": (["client-retry-pool", "shared-arguments"], "ExponentialBackoff(jitter), DecorrelatedJitter, FixedRetry"),
    "components/consensus/election_strategies.py": (["leader-election"], "Bully, Ring, Randomized"),
    "components/consensus/membership.py": (["membership"], "probe target / indirect probers"),
    "components/consensus/paxos.py": (["paxos"], "retry back-off"),
    "components/consensus/raft.py": (["raft"], "election timeouts"),
    "components/crdt/crdt_store.py": (["crdt-gossip"], "gossip peer choice"),
    "components/datastore/eviction_policies.py": (["cache-lru", "cache-lfu", "cache-fifo", "cache-random", "cache-slru", "cache-sampled-lru", "cache-clock", "cache-2q", "cache-ttl", "cache-writeback-lru"], "all nine policies; TTL default wall clock"),
    "components/datastore/sharded_store.py": (["cache-lru", "shared-arguments", "datastore-misc"], "HashSharding, RangeSharding, ConsistentHashSharding(seed=)"),
    "components/industrial/appointment.py": (["industrial-line"], "no-show draw"),
    "components/industrial/balking.py": (["industrial-line"], "balk draw"),
    "components/industrial/breakdown.py": (["industrial-line", "faults-schedule"], "time to failure / repair"),
    "components/industrial/inspection.py": (["industrial-line"], "pass / fail draw"),
    "components/infrastructure/disk_io.py": (["infrastructure"], "HDD seek jitter (SSD in lsm-leveled)"),
    "components/infrastructure/garbage_collector.py": (["infrastructure"], "GenerationalGC, StopTheWorld, ConcurrentGC pause jitter"),
    "components/infrastructure/tcp_connection.py": (["infrastructure"], "loss draw; AIMD, Cubic, BBR"),
    "components/load_balancer/strategies.py": (["load-balancer-strategies"], "all nine strategies"),
    "components/messaging/message_queue.py": (["message-queue-dlq"], "uuid4 message ids (opaque)"),
    "components/microservice/api_gateway.py": (["microservice"], "auth failure draw"),
    "components/network/link.py": (["network-jitter", "faults-schedule"], "packet loss draw, jitter"),
    "components/queue_policies/red.py": (["queue-policies"], "early drop draw"),
    "components/random_router.py": (["distributions"], "target choice"),
    "components/replication/multi_leader.py": (["multi-leader"], "anti-entropy peer choice"),
    "components/sketching/quantile_estimator.py": (["sketch-quantile-reservoir"], "seed= passed through"),
    "components/sketching/topk_collector.py": (["sketch-topk", "shared-arguments"], "seed= passed through"),
    "core/control/control.py": (["<every model>"], "every run attaches control.on_event (uuid hook ids, wall clock only in get_state)"),
    "core/event.py": (["<every model>", "preconstructed-events"], "creation counter; Event.__hash__"),
    "core/simulation.py": (["<every model>"], "wall clock only feeds summary.wall_clock_seconds (removed from the digest)"),
    "core/temporal.py": (["<every model>"], "Instant / Duration __hash__ of ints"),
    "core/logical_clocks.py": (None, "HLCTimestamp.__hash__ of ints/str tuple, never iterated in a set by the library; C18 owns the clocks"),
    "distributions/exponential.py": (["mm1-poisson-exp", "distributions"], "module RNG"),
    "distributions/percentile_fitted.py": (["distributions"], "module RNG"),
    "distributions/uniform.py": (["distributions", "sketch-countmin", "shared-arguments"], "seed="),
    "distributions/zipf.py": (["distributions", "sketch-countmin", "sketch-merge"], "seed="),
    "faults/network_faults.py": (["faults-schedule"], "RandomPartition(seed=), InjectPacketLoss (module RNG via link)"),
    "load/providers/poisson_arrival.py": (["mm1-poisson-exp", "poisson-profiles"], "numpy global RNG; constant + spike profile"),
    "sketching/__init__.py": (["sketch-merge"], "re-exports"),
    "sketching/base.py": (["sketch-merge"], "abstract bases"),
    "sketching/bloom_filter.py": (["sketch-bloom", "sketch-merge", "lsm-size-tiered"], "add / contains / merge"),
    "sketching/count_min_sketch.py": (["sketch-countmin", "sketch-merge"], "add / estimate / merge, from_error_rate"),
    "sketching/hyperloglog.py": (["sketch-hll", "sketch-merge"], "add / cardinality / merge"),
    "sketching/reservoir.py": (["sketch-quantile-reservoir", "sketch-merge"], "add / sample / merge of two non-empty seeded samplers"),
    "sketching/tdigest.py": (["sketch-quantile-reservoir", "sketch-merge"], "add / quantile / merge"),
    "sketching/topk.py": (["sketch-topk", "sketch-merge"], "add / top / merge"),
    "parallel/coordinator.py": (None, "ParallelSimulation (threads, wall-clock stats) is property C05"),
    "parallel/runner.py": (None, "ParallelRunner spawns worker processes per seed; C05 territory"),
    "parallel/simulation.py": (None, "ParallelSimulation is property C05"),
    "mcp/server.py": (None, "MCP tooling front-end, not a simulation component"),
    "mcp/tools.py": (None, "MCP tooling front-end, not a simulation component"),
    "visual/code_debugger.py": (None, "visual debugger (uuid ids for UI objects), not part of a model run"),
    "visual/dashboard.py": (None, "visual debugger, not part of a model run"),
    "visual/server.py": (None, "visual debugger web server, not part of a model run"),
}

"""C13 — membership: no false deaths on a healthy network, real failures are detected.

Four bounded-exhaustive drivers on the REAL implementation:

(1) ``healthy-n<N>`` (engine E2).  N MembershipProtocol nodes in a real
    ``Simulation`` + ``Network``; every directed link has a ``ChoiceLatency``
    with one-way delay in {1 %, 10 %, 20 %} of the probe interval (round trip
    <= 40 % of the interval, i.e. below the library's ack timeout of 50 %);
    ``random.shuffle`` / ``choice`` / ``sample`` are owned (every shuffle is a
    choice among ALL permutations).  ALL choice sequences with at most k
    deviations from the default answers (smallest delay, identity permutation)
    are executed for 3*N probe rounds, for every parameter set.  Oracle, after
    every delivered event, through ``get_member_state``: no member's view of a
    live member ever becomes DEAD; a view that was DEAD never becomes ALIVE
    again unless a higher incarnation of the subject was announced.

(1b) ``slowlinks-n<N>`` (engine E2).  As (1) but one-way delay in {30 % (default), 10 %, 40 %} of the
    interval: every message still arrives well inside one probe interval and below the ack timeout, but the
    round trip (60-80 %) exceeds the ack timeout, so probes are suspected at the ack timeout and refuted by
    the late ack; suspicion timeouts of 1-2 intervals.  Only the "never DEAD" and "DEAD is not followed by
    ALIVE" clauses are checked (suspicion of a live member is allowed).

(2) ``crash-n<N>`` (engine E2).  Same world; one member stops for good (its
    ``_crashed`` flag is set by a harness event, exactly what ``CrashNode``
    does; its own timers die with it) at every probe-round boundary -1 us /
    +1 us / +30 % of a round.  Oracle: every other live member's view of the
    victim is not ALIVE at any time later than ``BOUND = N + ceil(suspicion /
    interval) + 2`` probe rounds after the crash; bystanders (live members) are
    never marked DEAD; DEAD is never followed by ALIVE without a higher
    incarnation.

(3) ``rejoin-n<N>`` (engine E2).  As (2) but the victim comes back (flag
    cleared, ``start()`` called again, SAME incarnation) after it had time to
    be declared DEAD; run continues for a full probe pass.  Oracle: the
    "DEAD is not followed by ALIVE without a higher incarnation" clause, and
    bystanders are never marked DEAD.

(3b) ``updates`` (engine E3).  One real node, members b and x: ALL sequences of <= 3 (thorough 4) messages from
    {ping/ack from b piggy-backing one update (alive|suspect|dead) x incarnation (0|1|2) about x, ping from x
    announcing incarnation 0|1|2}, each delivered through the real handle_event.  Oracle: once x is reported
    DEAD it is reported ALIVE again only after a strictly higher incarnation than the one of the DEAD report
    was announced; the views agree.

(4) ``phi`` (engine E3).  PhiAccrualDetector as a pure object: ALL heartbeat
    histories of <= 4 intervals over {0.5, 1, 2} x interval (x bootstrap
    interval yes/no x window size 2/200 x interval 0.5/1); ``phi(now)`` is
    sampled on an increasing grid from the last heartbeat to +64 intervals and
    must never decrease (tolerance 1e-9: a last-bit wobble of erfc is not
    reported), and ``is_available`` must never turn True again.

Every public view of a member is a report: after every event a member handles (and for all members at fault
instants and at the end of the run) the oracle reads get_member_state, alive_members / suspected_members /
dead_members and the stats counters.  The never-DEAD, detection-bound and DEAD-not-followed-by-ALIVE clauses
are evaluated on get_member_state AND on the name lists (a list-view finding is reported separately only when
get_member_state does not break the same clause), and the views of one member must agree with each other at
every observation point (``Membership/views-disagree/*``): two contradictory reports cannot both be right.
Reading the views this often also makes lazily cached views get built early and go stale if not invalidated.

What the statement does not say is not checked: how fast a member is declared
DEAD (only "stops reporting it ALIVE"), what SUSPECT views do on a healthy
network, whether suspicion is disseminated to everybody.
"""
from __future__ import annotations

import itertools
import math
import random as _random
import time

from mc.choice import Chooser, explore
from mc.evidence import Run, digest
from mc.harness import (ChoiceLatency, Entity, Event, Holder, Instant, Simulation,
                        owned_random, pmap, rotate, run_guarded)

from happysimulator.components.consensus.membership import (  # noqa: E402
    MembershipProtocol)
from happysimulator.components.consensus.phi_accrual_detector import (  # noqa: E402
    PhiAccrualDetector)
from happysimulator.components.network.link import NetworkLink  # noqa: E402
from happysimulator.components.network.network import Network  # noqa: E402

PID = "C13"
SEC = 1_000_000_000
EPS_NS = 1_000  # 1 us: far from every message arrival (delays are multiples of 5 ms)
LAT_FRACTIONS = (0.01, 0.1, 0.2)
SLOW_FRACTIONS = (0.3, 0.1, 0.4)  # default answer first
PHI_TOL = 1e-9

_PERMS: dict[int, list[tuple[int, ...]]] = {}


def perms(n):
    p = _PERMS.get(n)
    if p is None:
        p = _PERMS[n] = list(itertools.permutations(range(n)))
    return p


# ---------------------------------------------------------------------------
# owned environment
# ---------------------------------------------------------------------------
class owned_env:
    """``random`` module owned by the chooser; ``shuffle`` = any permutation."""

    def __init__(self, chooser):
        self.chooser = chooser
        self.cm = owned_random(chooser)

    def __enter__(self):
        self.cm.__enter__()
        chooser = self.chooser

        def r_shuffle(x):
            n = len(x)
            if n > 1:
                p = perms(n)[chooser.choose(math.factorial(n), "shuffle")]
                x[:] = [x[i] for i in p]

        _random.shuffle = r_shuffle
        return self

    def __exit__(self, *a):
        return self.cm.__exit__(*a)


class Forced:
    """Chooser adapter: answers a fixed prefix, then defers to the inner chooser.
    Used to split one exploration into independent sub-spaces by first deviation."""

    def __init__(self, inner, prefix):
        self.inner = inner
        self.prefix = prefix
        self.k = 0
        self.head: list[int] = []

    def choose(self, n, tag=None):
        i = self.k
        self.k += 1
        if i < len(self.prefix):
            c = self.prefix[i]
            if c >= n:
                raise RuntimeError(f"forced prefix choice {c} out of range {n} at point {i} ({tag})")
            self.head.append(c)
            return c
        return self.inner.choose(n, tag)

    def pick(self, options, tag=None):
        return options[self.choose(len(options), tag)]


class Fault(Entity):
    """Harness entity: stops / restarts a member the way CrashNode does (the ``_crashed`` flag)."""

    def __init__(self, victim):
        super().__init__("fault-driver")
        self.victim = victim
        self.down_since = None
        self.up_since = 0

    def handle_event(self, event):
        if event.event_type == "crash":
            self.victim._crashed = True
            self.down_since = self.now.nanoseconds
            return None
        if event.event_type == "restart":
            self.victim._crashed = False
            self.down_since = None
            self.up_since = self.now.nanoseconds
            return list(self.victim.start())
        return None


# ---------------------------------------------------------------------------
# one execution
# ---------------------------------------------------------------------------
def name_of(i):
    return f"m{i}"


def run_cluster(chooser, cfg, fault=None, trace=None):
    """cfg = (N, interval_s, suspicion_s, phi).  fault = None | (victim_idx, crash_ns, restart_ns|None).
    Returns a dict with the per-pair view timeline and the oracle's findings."""
    N, I, S, PHI, rounds = cfg[:5]
    fractions = tuple(cfg[5]) if len(cfg) > 5 and cfg[5] is not None else LAT_FRACTIONS
    ipc = cfg[6] if len(cfg) > 6 else None  # indirect_probe_count (None = library default)
    I_ns = int(round(I * SEC))
    holder = Holder()
    holder.chooser = chooser
    with owned_env(chooser):
        net = Network(name="net")
        extra = {} if ipc is None else {"indirect_probe_count": int(ipc)}
        nodes = [MembershipProtocol(name=name_of(i), network=net, probe_interval=I,
                                    suspicion_timeout=S, phi_threshold=PHI, **extra) for i in range(N)]
        for a in nodes:
            for b in nodes:
                if a is not b:
                    a.add_member(b)
        menu = [f * I for f in fractions]
        for a in nodes:
            for b in nodes:
                if a is not b:
                    net.add_link(a, b, NetworkLink(name=f"l_{a.name}_{b.name}",
                                                   latency=ChoiceLatency(menu, holder, "lat")))
        ents = [net, *nodes]
        fd = None
        victim = None
        if fault is not None:
            victim = nodes[fault[0]]
            fd = Fault(victim)
            ents.append(fd)
        sim = Simulation(end_time=Instant(rounds * I_ns + EPS_NS), entities=ents)
        for n in nodes:
            for e in n.start():
                sim.schedule(e)
        if fault is not None:
            sim.schedule(Event(time=Instant(fault[1]), event_type="crash", target=fd, daemon=True))
            if fault[2] is not None:
                sim.schedule(Event(time=Instant(fault[2]), event_type="restart", target=fd, daemon=True))

        names = [n.name for n in nodes]
        node_set = set(map(id, nodes))
        view: dict[tuple[str, str], str] = {}
        timeline: list[tuple[int, str, str, str, str]] = []  # (t, observer, subject, state, via)
        timeline_lists: list[tuple[int, str, str, str, str]] = []  # same, as read from the name lists
        announced = {nm: 0 for nm in names}  # highest incarnation announced about a member so far
        dead_inc: dict[tuple[str, str], int] = {}
        heard: set[tuple[str, str]] = set()  # (observer, sender): a heartbeat-bearing message arrived
        seen_fp: set[str] = set()
        n_node_events = [0]

        by_name = {n.name: n for n in nodes}

        def inc_of(nm):
            """Highest incarnation of ``nm`` known to exist: announced in a delivered message, or (fallback,
            private, only ever makes the check more lenient) the member's own counter."""
            own = getattr(by_name[nm], "_incarnation", 0)
            return max(announced[nm], own if isinstance(own, int) else 0)

        def is_live(nm, t):
            if victim is None or nm != victim.name:
                return True
            return fd.down_since is None

        views = {"state": view, "lists": {}}
        timelines = {"state": timeline, "lists": timeline_lists}
        dead_incs = {"state": dead_inc, "lists": {}}
        found_by = {"state": [], "lists": [], "consistency": []}

        def note(channel, fp, desc):
            if fp not in seen_fp:
                seen_fp.add(fp)
                found_by[channel].append((fp, desc))

        def apply(channel, an, bn, s, t, via):
            """One reported state of one public view ('state' = get_member_state, 'lists' = alive_members /
            suspected_members / dead_members); clauses 1 and 3 are evaluated on every view."""
            key = (an, bn)
            vw = views[channel]
            if vw.get(key) == s:
                return
            vw[key] = s
            timelines[channel].append((t, an, bn, s, via))
            dinc = dead_incs[channel]
            how = "get_member_state" if channel == "state" else "the alive/suspected/dead_members lists"
            if s == "DEAD":
                dinc.setdefault(key, inc_of(bn))
                # clause 1: no member ever marks a live member DEAD
                ever_down = victim is not None and bn == victim.name and (
                    fd.down_since is not None or fd.up_since > 0)
                if is_live(bn, t) and not ever_down:
                    fp = (f"Membership/false-dead/via-{via}" if channel == "state"
                          else f"Membership/false-dead/listed-in-dead_members/via-{via}")
                    note(channel, fp, f"N={N} interval={I}s suspicion={S}s phi={PHI}: at t={t / SEC:.6f}s {an} "
                                      f"marks the live member {bn} DEAD in {how} (while handling {via})")
            elif s == "ALIVE" and key in dinc:
                # clause 3: DEAD is not followed by ALIVE without a higher incarnation
                if inc_of(bn) <= dinc[key]:
                    fp = (f"Membership/dead-then-alive-same-incarnation/via-{via}" if channel == "state"
                          else f"Membership/dead-then-alive-same-incarnation/listed-views/via-{via}")
                    note(channel, fp, f"N={N} interval={I}s suspicion={S}s phi={PHI}: {an} had reported {bn} DEAD "
                                      f"(incarnation {dinc[key]}) in {how} and at t={t / SEC:.6f}s reports it ALIVE "
                                      f"again although no higher incarnation of {bn} was ever announced "
                                      f"(while handling {via})")
                else:
                    del dinc[key]

        def observe_node(a, t, via):
            """Read EVERY public view of one member (all of them are reports): get_member_state, the three
            name lists and the stats counters."""
            an = a.name
            if victim is not None and a is victim and fd.down_since is not None:
                return  # a stopped member reports nothing
            sts = {}
            for bn in names:
                if bn == an:
                    continue
                st = a.get_member_state(bn)
                if st is None:
                    continue
                sts[bn] = st.name
                apply("state", an, bn, st.name, t, via)
            try:
                al, su, de = list(a.alive_members), list(a.suspected_members), list(a.dead_members)
            except AttributeError:
                return  # views renamed by a refactor: nothing to read
            for bn, s0 in sts.items():
                ls = "ALIVE" if bn in al else "DEAD" if bn in de else "SUSPECT" if bn in su else "ABSENT"
                apply("lists", an, bn, ls, t, via)
                if ls != s0:
                    note("consistency", "Membership/views-disagree/lists-vs-get_member_state",
                         f"N={N} interval={I}s suspicion={S}s phi={PHI}: at t={t / SEC:.6f}s (after {via}) {an} "
                         f"reports {bn} as {s0} through get_member_state but as {ls} through alive_members="
                         f"{al} suspected_members={su} dead_members={de}")
            try:
                stt = a.stats
                counts = (stt.alive_count, stt.suspect_count, stt.dead_count)
            except AttributeError:
                return
            vals = list(sts.values())
            want = (vals.count("ALIVE"), vals.count("SUSPECT"), vals.count("DEAD"))
            if counts != want:
                note("consistency", "Membership/views-disagree/stats-vs-get_member_state",
                     f"N={N} interval={I}s suspicion={S}s phi={PHI}: at t={t / SEC:.6f}s (after {via}) {an}.stats "
                     f"counts (alive, suspect, dead)={counts} but get_member_state gives {want} ({sts})")

        def observe(t, via, only=None):
            # a member's views can only change while it handles an event: read the handling member after each
            # event, everybody at fault instants and at the end of the run
            if only is not None:
                observe_node(only, t, via)
            else:
                for a in nodes:
                    observe_node(a, t, via)

        def hook(ev):
            tgt = ev.target
            if id(tgt) not in node_set and tgt is not fd:
                return
            n_node_events[0] += 1
            t = ev.time.nanoseconds
            if tgt is not fd and not getattr(tgt, "_crashed", False):
                md = ev.context.get("metadata") or {}
                frm = md.get("from")
                if frm in announced:
                    inc = md.get("incarnation")
                    if isinstance(inc, int) and inc > announced[frm]:
                        announced[frm] = inc
                    if ev.event_type in ("MembershipPing", "MembershipAck", "MembershipIndirectAck"):
                        heard.add((tgt.name, frm))
                for u in md.get("updates") or ():
                    try:
                        m, inc = u.get("member"), u.get("incarnation", 0)
                    except AttributeError:
                        continue
                    if m in announced and isinstance(inc, int) and u.get("state") == "alive" and inc > announced[m]:
                        announced[m] = inc
            n_before = len(timeline)
            observe(t, ev.event_type, only=None if tgt is fd else tgt)
            if trace is not None:
                md = ev.context.get("metadata") or {}
                trace.append((t, ev.event_type, getattr(tgt, "name", "?"),
                              {k: v for k, v in md.items() if k not in ("source", "destination")},
                              [f"{a} now reports {b} {s}" for (_t, a, b, s, _v) in timeline[n_before:]]))

        res = run_guarded(sim, max_events=400 * rounds * N + 1000, storm=5000, on_event=hook)
        observe(rounds * I_ns + EPS_NS, "end-of-run")

    def phi_of(observer, subject, t_ns):
        """Fingerprint attribution only (private state, silently unavailable after a refactor):
        (phi the observer's detector for the subject gives at t, its threshold)."""
        try:
            det = nodes[names.index(observer)]._members[subject].detector
            return float(det.phi(t_ns / SEC)), float(det.threshold)
        except Exception:
            return None

    # a clause broken in the list views is reported separately only when get_member_state does not break it too
    clauses = {fp.split("/")[1] for fp, _d in found_by["state"]}
    findings = (found_by["state"] + [x for x in found_by["lists"] if x[0].split("/")[1] not in clauses]
                + found_by["consistency"])
    return {"timeline": timeline, "timeline_lists": timeline_lists, "findings": findings, "heard": heard,
            "res": res, "node_events": n_node_events[0], "names": names, "phi_of": phi_of}


def bound_rounds(N, I, S):
    return N + math.ceil(S / I - 1e-9) + 2


def check_detection(out, cfg, fault):
    """clause 2: every other live member stops reporting the victim ALIVE within BOUND rounds."""
    N, I, S, PHI, rounds = cfg[:5]
    I_ns = int(round(I * SEC))
    v = name_of(fault[0])
    deadline = fault[1] + bound_rounds(N, I, S) * I_ns
    found = []
    lat = {}
    flagged = set()
    for channel, src in (("state", out["timeline"]), ("lists", out.get("timeline_lists", []))):
      for an in out["names"]:
        if an == v or an in flagged:
            continue
        tl = [(t, s) for (t, a, b, s, _via) in src if a == an and b == v]
        # state during [t_i, t_{i+1}) is s_i ; last state holds until the end of the run
        bad_at = None
        for i, (t, s) in enumerate(tl):
            t_next = tl[i + 1][0] if i + 1 < len(tl) else None
            if s == "ALIVE" and (t_next is None or t_next > deadline):
                bad_at = max(t, deadline)
                break
        last_alive_end = None
        for i, (t, s) in enumerate(tl):
            if s == "ALIVE":
                last_alive_end = tl[i + 1][0] if i + 1 < len(tl) else None
        if channel == "state":
            lat[an] = ("never" if (tl and tl[-1][1] == "ALIVE") else
                       (None if last_alive_end is None else round((last_alive_end - fault[1]) / I_ns, 2)))
        if bad_at is not None:
            flagged.add(an)
            if channel == "lists":
                shape = "still-listed-in-alive_members"
            elif (an, v) not in out["heard"]:
                shape = "observer-never-heard-victim"
            else:
                # one full round before the deadline: a probe tick lies in between, so a detector that was
                # already over its threshold there has been consulted (or should have been) in time
                pv = out["phi_of"](an, v, deadline - I_ns)
                if pv is None:
                    shape = "observer-had-heartbeats"
                elif pv[0] >= pv[1]:
                    shape = "phi-over-threshold-ignored"
                else:
                    shape = "phi-still-below-threshold"
            still = tl[-1][1] == "ALIVE"
            how = "get_member_state" if channel == "state" else "alive_members"
            found.append((f"Membership/undetected/{shape}",
                          f"N={N} interval={I}s suspicion={S}s phi={PHI}: {v} stopped for good at "
                          f"t={fault[1] / SEC:.6f}s; {an} still reports it ALIVE ({how}) later than "
                          f"{bound_rounds(N, I, S)} probe rounds after the stop "
                          f"({'still ALIVE at the end of the run, ' + str(rounds) + ' rounds' if still else 'left ALIVE only at t=' + str(last_alive_end / SEC) + 's'})"))
    return found, lat


# ---------------------------------------------------------------------------
# exploration jobs
# ---------------------------------------------------------------------------
def _explore_job(job):
    """job = (kind, cfg, fault, bound, part, nparts).  Explores the sub-space of choice sequences
    whose FIRST deviation has index == part (mod nparts) in the list of first deviations (part 0 also
    runs the all-default sequence)."""
    kind, cfg, fault, bound, part, nparts = job
    st = {"exec": 0, "trans": 0, "points_max": 0, "outcomes": set(), "nontriv": 0, "viol": {},
          "samples": [], "unfinished": 0, "lat": {}, "dead_reached": 0, "maxdev": 0}

    def one(ch):
        return run_cluster(ch, cfg, fault)

    def account(choices, out):
        st["exec"] += 1
        st["trans"] += out["node_events"]
        st["points_max"] = max(st["points_max"], len(choices))
        ndev = sum(1 for c in choices if c)
        st["maxdev"] = max(st["maxdev"], ndev)
        tl = out["timeline"]
        dg = digest([(t, a, b, s) for (t, a, b, s, _v) in tl])
        st["outcomes"].add(dg)
        if out["res"]["outcome"] != "done":
            st["unfinished"] += 1
        f = list(out["findings"])
        nontriv = False
        states = {s for (_t, _a, _b, s, _v) in tl}
        if kind == "healthy":
            nontriv = "SUSPECT" in states
        else:
            v = name_of(fault[0])
            if kind == "crash":
                f2, lat = check_detection(out, cfg, fault)
                f += f2
                for val in lat.values():
                    k = str(val)
                    st["lat"][k] = st["lat"].get(k, 0) + 1
                vals = set(map(str, lat.values()))
                nontriv = len(vals) > 1 or "never" in vals
            else:
                # rejoin: some observer had declared the victim DEAD before it came back
                dead_before = any(s == "DEAD" and b == v and t < fault[2] for (t, _a, b, s, _v) in tl)
                nontriv = dead_before
            if any(s == "DEAD" for s in states):
                st["dead_reached"] += 1
        if nontriv:
            st["nontriv"] += 1
        for fp, desc in f:
            if fp not in st["viol"]:
                # re-run the violating case from its replay data before reporting it
                again = run_cluster(Chooser(prefix=list(choices)), cfg, fault)
                f_again = list(again["findings"])
                if kind == "crash":
                    f_again += check_detection(again, cfg, fault)[0]
                if fp not in [x[0] for x in f_again] or again["timeline"] != out["timeline"]:
                    raise RuntimeError(f"C13 harness: violation {fp} did not reproduce from its choice list "
                                       f"(unowned nondeterminism) cfg={cfg} fault={fault} choices={choices}")
                st["viol"][fp] = (desc, {"driver": kind, "cfg": list(cfg), "fault": fault,
                                         "choices": list(choices), "deviations": ndev})
        if len(st["samples"]) < 1 and nontriv:
            st["samples"].append({"cfg": list(cfg), "fault": fault, "deviations": [(i, c) for i, c in enumerate(choices) if c],
                                  "view_changes_after_first_round": [(t / SEC, a, b, s) for (t, a, b, s, _v) in tl
                                                                     if t > int(round(cfg[1] * SEC))][:12]})

    base = Chooser()
    out0 = one(base)
    if part == 0:
        account(base.choices, out0)
        # determinism self-check: same choice list, same observation
        if one(Chooser())["timeline"] != out0["timeline"]:
            raise RuntimeError(f"C13 harness: two default executions differ (unowned nondeterminism) cfg={cfg}")
    if bound >= 1:
        firsts = [(i, alt) for i, (n, _tag) in enumerate(base.points) for alt in range(1, n)]
        for idx, (i, alt) in enumerate(firsts):
            if idx % nparts != part:
                continue
            prefix = [0] * i + [alt]

            def sub(ch, prefix=prefix):
                return run_cluster(Forced(ch, prefix), cfg, fault)

            for choices, _points, out in explore(sub, bound=bound - 1):
                account(prefix + list(choices), out)
    st["outcomes"] = list(st["outcomes"])
    return st


def _merge(d, stats, run, outcomes):
    for st in stats:
        d.executions += st["exec"]
        d.transitions += st["trans"]
        d.nontrivial += st["nontriv"]
        outcomes.update(st["outcomes"])
        d.extra["max_choice_points"] = max(d.extra.get("max_choice_points", 0), st["points_max"])
        d.extra["max_deviations_in_one_execution"] = max(d.extra.get("max_deviations_in_one_execution", 0), st["maxdev"])
        d.extra["executions_reaching_DEAD"] = d.extra.get("executions_reaching_DEAD", 0) + st["dead_reached"]
        if st["lat"]:
            agg = d.extra.setdefault("detection_latency_rounds_histogram", {})
            for k, v in st["lat"].items():
                agg[k] = agg.get(k, 0) + v
        if st["unfinished"]:
            d.exhaustive = False
            d.caps.append(f"{st['unfinished']} executions hit the event horizon / storm guard")
        for fp, (desc, rep) in st["viol"].items():
            run.violation(fp, desc, rep)
        if len(d.samples) < 3:
            d.samples.extend(st["samples"])


def configs(N, intervals, suspicions, phis):
    return [(N, I, S, P, 3 * N) for I in intervals for S in suspicions for P in phis]


def crash_points(N, I, kmax):
    I_ns = int(round(I * SEC))
    pts = []
    for k in range(0, kmax + 1):
        for off in (-EPS_NS, EPS_NS, int(0.3 * I_ns)):
            t = k * I_ns + off
            if t > 0:
                pts.append(t)
    return pts


def run_family(run, name, kind, jobs, bounds, seed):
    t0 = time.time()
    d = run.driver(name, bounds)
    outcomes: set[str] = set()
    stats = pmap(_explore_job, rotate(jobs, seed))
    _merge(d, stats, run, outcomes)
    d.states = d.outcomes = len(outcomes)
    d.wall_s = time.time() - t0


# ---------------------------------------------------------------------------
# phi-accrual detector as a pure object
# ---------------------------------------------------------------------------
def phi_history_check(I, init, window, intervals, t0):
    det_kw = {"threshold": 8.0, "max_sample_size": window}
    if init:
        det_kw["initial_interval"] = I
    det = PhiAccrualDetector(**det_kw)
    det3 = PhiAccrualDetector(**{**det_kw, "threshold": 3.0})
    t = t0
    for dd in (det, det3):
        dd.heartbeat(t0)
    for m in intervals:
        t += m * I
        for dd in (det, det3):
            dd.heartbeat(t)
    step = I / 8.0
    prev = None
    prev_t = None
    avail = {8.0: True, 3.0: True}
    n = 0
    vals = []
    # increasing grid: 1/8-interval steps up to +16 intervals, then 1/2-interval steps up to +64
    grid = ([t + k * step for k in range(0, 16 * 8 + 1)] + [t + 16 * I + k * (I / 2.0) for k in range(1, 96 + 1)]
            + [t + m * I for m in (100, 200, 1000, 10000)])  # far into the silence: erfc has underflowed, phi = inf
    # every public reader of the suspicion level: phi(), is_available(), stats_at().current_phi / .is_suspected,
    # stats (documented to carry no time-dependent level; read anyway)
    prev_r = {}
    susp = {}
    hist = f"interval={I} bootstrap={init} window={window} heartbeats at t0={t0} then gaps {[m * I for m in intervals]}"
    for g in grid:
        p = det.phi(g)
        n += 1
        vals.append(p)
        if prev is not None and (p != p or p < prev - PHI_TOL):
            return n, vals, ("PhiAccrualDetector/phi-decreased/no-heartbeat-between",
                             f"interval={I} bootstrap={init} window={window} heartbeats at t0={t0} then gaps "
                             f"{[m * I for m in intervals]}: phi({prev_t})={prev!r} but phi({g})={p!r} with no "
                             f"heartbeat in between")
        for thr, dd in ((8.0, det), (3.0, det3)):
            a = dd.is_available(g)
            if a and not avail[thr]:
                return n, vals, ("PhiAccrualDetector/available-again/no-heartbeat-between",
                                 f"interval={I} bootstrap={init} window={window} gaps {[m * I for m in intervals]}: "
                                 f"is_available (threshold {thr}) turned True again at {g} with no heartbeat")
            avail[thr] = a
        for thr, dd in ((8.0, det), (3.0, det3)):
            for reader, get in (("stats_at", lambda d: d.stats_at(g)), ("stats", lambda d: d.stats)):
                try:
                    snap = get(dd)
                    lvl, sus = snap.current_phi, snap.is_suspected
                except AttributeError:
                    continue
                n += 1
                k = (reader, thr)
                if k in prev_r and (lvl != lvl or lvl < prev_r[k][1] - PHI_TOL):
                    return n, vals, (f"PhiAccrualDetector/phi-decreased/{reader}-reader",
                                     f"{hist}: {reader}.current_phi was {prev_r[k][1]!r} at {prev_r[k][0]} but is "
                                     f"{lvl!r} at {g} with no heartbeat in between (phi() itself gives {dd.phi(g)!r})")
                if susp.get(k) and not sus:
                    return n, vals, (f"PhiAccrualDetector/suspected-cleared/{reader}-reader",
                                     f"{hist}: {reader}.is_suspected (threshold {thr}) went back to False at {g} "
                                     f"with no heartbeat in between (current_phi={lvl!r})")
                prev_r[k] = (g, lvl)
                susp[k] = bool(sus)
        prev, prev_t = p, g
    return n, vals, None


def _phi_job(job):
    I, init, window, maxlen = job
    st = {"exec": 0, "trans": 0, "outcomes": set(), "nontriv": 0, "viol": {}, "samples": []}
    for L in range(0, maxlen + 1):
        for intervals in itertools.product((0.5, 1.0, 2.0), repeat=L):
            for t0 in (0.0, I):
                n, vals, v = phi_history_check(I, init, window, intervals, t0)
                st["exec"] += 1
                st["trans"] += n
                st["outcomes"].add(digest([round(x, 9) if x != float("inf") else "inf" for x in vals[:40]]))
                # non-trivial: phi actually rose from below threshold 3 to above threshold 8 on the grid
                if vals and min(vals) < 3.0 and max(vals) >= 8.0:
                    st["nontriv"] += 1
                if v is not None and v[0] not in st["viol"]:
                    st["viol"][v[0]] = (v[1], {"driver": "phi", "interval": I, "bootstrap": init,
                                               "window": window, "gaps": list(intervals), "t0": t0})
                if len(st["samples"]) < 1 and L == 2:
                    st["samples"].append({"interval": I, "bootstrap": init, "window": window, "gaps": intervals,
                                          "phi_on_grid_first8": vals[:8]})
    st["outcomes"] = list(st["outcomes"])
    return st


def run_phi(run, tier, seed):
    t0 = time.time()
    maxlen = 4 if tier == "quick" else 5
    d = run.driver("phi", {"intervals_s": [0.5, 1.0], "gap_multipliers": [0.5, 1, 2], "max_gaps": maxlen,
                           "bootstrap_interval": [False, True], "window_sizes": [2, 200],
                           "first_heartbeat_at": ["0", "interval"],
                           "grid": "1/8-interval steps to +16 intervals, 1/2-interval steps to +64"})
    jobs = [(I, init, w, maxlen) for I in (0.5, 1.0) for init in (False, True) for w in (2, 200)]
    outcomes: set[str] = set()
    for st in pmap(_phi_job, rotate(jobs, seed)):
        d.executions += st["exec"]
        d.transitions += st["trans"]
        d.nontrivial += st["nontriv"]
        outcomes.update(st["outcomes"])
        for fp, (desc, rep) in st["viol"].items():
            run.violation(fp, desc, rep)
        if len(d.samples) < 2:
            d.samples.extend(st["samples"])
    d.states = d.outcomes = len(outcomes)
    d.wall_s = time.time() - t0


# ---------------------------------------------------------------------------
# piggy-backed update table: every short sequence of gossip updates through the real handlers
# ---------------------------------------------------------------------------
UPD_STATES = ("alive", "suspect", "dead")
UPD_INCS = (0, 1, 2)
# ops: ("upd", carrier event type, state, incarnation)  gossip about x carried by a ping / ack from b
#      ("hb", incarnation)                              a ping from x itself announcing that incarnation
UPD_OPS = ([("upd", c, st, i) for c in ("MembershipPing", "MembershipAck") for st in UPD_STATES for i in UPD_INCS]
           + [("hb", i) for i in UPD_INCS])


def run_update_sequence(ops, trace=None):
    """A real MembershipProtocol node ``a`` (members ``b`` and ``x``) receives the ops one after the other
    through handle_event, each message built the way the library builds it (Network.send + the copy a
    NetworkLink forwards).  After every op all public views of ``a`` about ``x`` are read.  Oracle (statement):
    once x was reported DEAD, it is reported ALIVE again only after an incarnation strictly higher than the
    one of the report that made it DEAD has been announced (an 'alive' update about x, or a message from x)."""
    net = Network(name="net")
    a, b, x = (MembershipProtocol(name=nm, network=net, probe_interval=1.0, suspicion_timeout=2.0) for nm in "abx")
    for m in (a, b, x):
        for o in (a, b, x):
            if o is not m:
                m.add_member(o)
    Simulation(end_time=Instant(10 * SEC), entities=[net, a, b, x])  # injects the clock; never run
    findings = []
    dead_ref = None      # incarnation of the report that made x DEAD (None: not reported DEAD so far)
    announced = None     # highest incarnation announced about x since then
    views_log = []
    prev = ("ALIVE", "ALIVE")
    for j, op in enumerate(ops):
        if op[0] == "upd":
            _k, carrier, st, inc = op
            payload = {"from": "b", "incarnation": 0, "updates": [{"member": "x", "state": st, "incarnation": inc}]}
            if carrier == "MembershipAck":
                payload["ack_for"] = "a"
            sent = net.send(source=b, destination=a, event_type=carrier, payload=payload, daemon=True)
            ann = inc if st == "alive" else None
        else:
            inc = op[1]
            sent = net.send(source=x, destination=a, event_type="MembershipPing",
                            payload={"from": "x", "incarnation": inc, "updates": []}, daemon=True)
            ann = inc
        ev = Event(time=a.now, event_type=sent.event_type, target=a, daemon=True, context=sent.context.copy())
        a.handle_event(ev)
        if ann is not None and dead_ref is not None:
            announced = ann if announced is None else max(announced, ann)
        st0 = a.get_member_state("x")
        s0 = st0.name if st0 is not None else "ABSENT"
        try:
            al, su, de = list(a.alive_members), list(a.suspected_members), list(a.dead_members)
            ls = "ALIVE" if "x" in al else "DEAD" if "x" in de else "SUSPECT" if "x" in su else "ABSENT"
        except AttributeError:
            ls = s0
        views_log.append((op, s0, ls))
        if trace is not None:
            trace.append(f"op {j}: {op} -> get_member_state(x)={s0}, name lists say {ls}")
        if ls != s0:
            findings.append(("Membership/views-disagree/lists-vs-get_member_state",
                             f"update table: after ops {list(ops[:j + 1])} get_member_state(x)={s0} but the name "
                             f"lists say {ls}"))
        for rep_state, was, how in ((s0, prev[0], "get_member_state"), (ls, prev[1], "alive_members")):
            if rep_state == "ALIVE" and was != "ALIVE" and dead_ref is not None:
                if announced is None or announced <= dead_ref:
                    what = f"piggybacked-{op[2]}-update" if op[0] == "upd" else "message-from-the-member"
                    findings.append((f"Membership/dead-then-alive-same-incarnation/{what}",
                                     f"update table: node a reported x DEAD (report carried incarnation {dead_ref}); "
                                     f"after ops {list(ops[:j + 1])} it reports x ALIVE again ({how}) although the "
                                     f"highest incarnation announced since is {announced}"))
                    break
        if s0 == "DEAD" or ls == "DEAD":
            if dead_ref is None:
                dead_ref = op[3] if op[0] == "upd" else 0
                announced = None
        elif s0 == "ALIVE" and ls == "ALIVE" and dead_ref is not None and announced is not None and announced > dead_ref:
            dead_ref, announced = None, None  # legitimately alive again at a higher incarnation
        prev = (s0, ls)
    return views_log, findings


def _upd_job(job):
    first_ops, depth = job
    st = {"exec": 0, "trans": 0, "outcomes": set(), "nontriv": 0, "viol": {}, "samples": []}
    for first in first_ops:
        for L in range(0, depth):
            for rest in itertools.product(UPD_OPS, repeat=L):
                ops = (first,) + rest
                log, f = run_update_sequence(ops)
                st["exec"] += 1
                st["trans"] += len(ops)
                st["outcomes"].add(digest([(s0, ls) for (_o, s0, ls) in log]))
                seen = [s0 for (_o, s0, _l) in log]
                # non-trivial: x was reported DEAD and a later op tried to bring it back ('alive' gossip / own ping)
                if "DEAD" in seen[:-1] and any(o[0] == "hb" or o[2] == "alive" for o in ops[seen.index("DEAD") + 1:]):
                    st["nontriv"] += 1
                for fp, desc in f:
                    if fp not in st["viol"]:
                        st["viol"][fp] = (desc, {"driver": "updates", "ops": [list(o) for o in ops]})
                if len(st["samples"]) < 1 and len(ops) == 3 and "DEAD" in seen and seen[-1] == "ALIVE":
                    st["samples"].append({"ops": ops, "views_after_each_op": [(s0, ls) for (_o, s0, ls) in log]})
    st["outcomes"] = list(st["outcomes"])
    return st


def run_updates(run, tier, seed):
    t0 = time.time()
    depth = 3 if tier == "quick" else 4
    d = run.driver("updates", {"node": "a (members b, x)", "ops": [list(o) for o in UPD_OPS],
                               "max_sequence_length": depth,
                               "delivery": "real handle_event, messages built by Network.send + link-style copy"})
    jobs = [([op], depth) for op in UPD_OPS]
    outcomes: set[str] = set()
    for st in pmap(_upd_job, rotate(jobs, seed)):
        d.executions += st["exec"]
        d.transitions += st["trans"]
        d.nontrivial += st["nontriv"]
        outcomes.update(st["outcomes"])
        for fp, (desc, rep) in st["viol"].items():
            run.violation(fp, desc, rep)
        if len(d.samples) < 2:
            d.samples.extend(st["samples"])
    d.states = d.outcomes = len(outcomes)
    d.wall_s = time.time() - t0


# ---------------------------------------------------------------------------
# main
# ---------------------------------------------------------------------------
ALL_I = (0.5, 1.0)
ALL_S = (2.0, 5.0)
ALL_P = (3.0, 8.0)


def with_rounds_for_crash(cfg, fault):
    N, I, S, P, _r = cfg[:5]
    I_ns = int(round(I * SEC))
    rounds = -(-fault[1] // I_ns) + bound_rounds(N, I, S) + 2
    return (N, I, S, P, rounds) + tuple(cfg[5:])


def crash_jobs(Ns_cfgs, kmax_of, bound, nparts):
    jobs = []
    for cfg in Ns_cfgs:
        N, I = cfg[0], cfg[1]
        for t in crash_points(N, I, kmax_of(N)):
            fault = (0, t, None)
            c2 = with_rounds_for_crash(cfg, fault)
            for part in range(nparts):
                jobs.append(("crash", c2, fault, bound, part, nparts))
    return jobs


REJOIN_STOPS_DOC = "k*interval + off for (k, off) in the family's stop list (off: +1us / +0.3*interval)"


def rejoin_jobs(Ns_cfgs, bound, nparts, stops):
    jobs = []
    for cfg in Ns_cfgs:
        N, I, S, P, _r = cfg
        I_ns = int(round(I * SEC))
        down = 2 * (N - 1) + math.ceil(S / I) + 2  # rounds the victim stays away
        for (k, frac) in stops:
            tc = k * I_ns + (EPS_NS if frac == 0 else int(frac * I_ns))
            tr = tc + down * I_ns + int(0.5 * I_ns)
            rounds = -(-tr // I_ns) + N
            for part in range(nparts):
                jobs.append(("rejoin", (N, I, S, P, rounds), (0, tc, tr), bound, part, nparts))
    return jobs


def main(tier, seed, only=None):
    run = Run(PID, tier, seed, "model_checking",
              rule=("an execution = one complete run of the real MembershipProtocol nodes + Network + Simulation for a "
                    "parameter set, a fault (none / stop at a given ns / stop + return) and one sequence of answers "
                    "to every link-delay sample and every random.shuffle; ALL sequences with at most the stated "
                    "number of deviations from the default answers are executed; states = distinct timelines of "
                    "(time, observer, subject, reported state); non-trivial: healthy = some live member was "
                    "reported SUSPECT at some point (a suspicion that must not escalate); crash = the live "
                    "observers disagreed on when the victim stopped being ALIVE or one never noticed; rejoin = the "
                    "victim had been declared DEAD by somebody before it came back; phi = phi rose from < 3 to >= 8 "
                    "on the sampled grid"),
              assumptions=["views are read through get_member_state after every event delivered to a member",
                           "a stopped member is modelled by the _crashed flag, the mechanism CrashNode uses",
                           "incarnations are read from the 'incarnation' fields of delivered membership messages; "
                           "if the message format changes the check falls back to 'no higher incarnation announced'",
                           "BOUND = N + ceil(suspicion/interval) + 2 probe rounds after the stop"])

    def want(n):
        return not only or n in only

    quick = tier == "quick"
    fams = []
    # -- healthy --------------------------------------------------------
    if quick:
        # (interval 0.5, suspicion 5) is left to the thorough tier: its suspicion timeout (10.5 rounds) cannot
        # expire inside the 9-round horizon, so at N=3 it behaves like (0.5, 2) unless a timeout is armed early
        fams.append(("healthy-n3", "healthy",
                     configs(3, (1.0,), ALL_S, ALL_P) + configs(3, (0.5,), (2.0,), ALL_P), 2, 8))
        fams.append(("healthy-n4", "healthy", configs(4, ALL_I, ALL_S, ALL_P), 1, 1))
        fams.append(("healthy-n4-dev2", "healthy", [(4, 1.0, 2.0, 3.0, 12)], 2, 32))
    else:
        fams.append(("healthy-n3", "healthy", configs(3, ALL_I, ALL_S, ALL_P), 2, 8))
        fams.append(("healthy-n3-dev3", "healthy", [(3, 1.0, 2.0, 3.0, 9), (3, 0.5, 5.0, 8.0, 9)], 3, 128))
        fams.append(("healthy-n4", "healthy", configs(4, ALL_I, ALL_S, ALL_P), 2, 32))
        fams.append(("healthy-n5", "healthy", configs(5, ALL_I, ALL_S, ALL_P), 1, 1))
        fams.append(("healthy-n5-dev2", "healthy", [(5, 1.0, 2.0, 3.0, 15)], 2, 128))
    # slow links: one-way delay up to 40 % of the interval (still below the ack timeout and the probe interval),
    # DEFAULT answer 30 %, so that round trips (60-80 %) exceed the ack timeout: every probe is suspected at the
    # ack timeout and refuted by the late ack; short suspicion timeouts.  Suspicion is allowed, death is not.
    def slow(N, sets):
        return [(N, I, S, P, 3 * N, SLOW_FRACTIONS) for (I, S, P) in sets]

    slow_sets = [(1.0, 1.0, 8.0), (1.0, 2.0, 3.0), (0.5, 1.0, 3.0)]
    if quick:
        fams.append(("slowlinks-n3", "healthy", slow(3, slow_sets), 1, 1))
        fams.append(("slowlinks-n4", "healthy", slow(4, slow_sets), 1, 1))
    else:
        fams.append(("slowlinks-n3", "healthy", slow(3, slow_sets), 2, 16))
        fams.append(("slowlinks-n4", "healthy", slow(4, slow_sets), 1, 1))
        fams.append(("slowlinks-n4-dev2", "healthy", slow(4, slow_sets[:1]), 2, 128))
        fams.append(("slowlinks-n5", "healthy", slow(5, slow_sets[:2]), 1, 4))
    for name, kind, cfgs, bound, nparts in fams:
        if not want(name):
            continue
        jobs = [(kind, cfg, None, bound, part, nparts) for cfg in cfgs for part in range(nparts)]
        run_family(run, name, kind, jobs,
                   {"cluster_size": cfgs[0][0], "parameter_sets(interval,suspicion,phi)": [c[1:4] for c in cfgs],
                    "one_way_delay_fraction_of_interval(default first)": cfgs[0][5] if len(cfgs[0]) > 5 else LAT_FRACTIONS,
                    "shuffle": "all permutations",
                    "probe_rounds": cfgs[0][4], "deviation_bound": bound}, seed)
    # -- crash ----------------------------------------------------------
    I1 = (1.0,)
    cf = []
    if quick:
        # suspicion 1 s at interval 1 s: suspicion timeout SHORTER than a probe pass ((N-1) intervals), so news of the
        # death travels by gossip before the local suspicion matures; crash-n4 (suspicion 2 < 3) has the same relation
        cf.append(("crash-n3", configs(3, I1, ALL_S, ALL_P) + configs(3, (0.5,), (2.0,), ALL_P)
                   + configs(3, I1, (1.0,), (8.0,)), lambda N: 4, 1, 1))
        cf.append(("crash-n4", configs(4, I1, (2.0,), ALL_P), lambda N: 4, 1, 1))
    else:
        cf.append(("crash-n3", configs(3, ALL_I, ALL_S, ALL_P) + configs(3, I1, (1.0,), ALL_P),
                   lambda N: 2 * (N - 1) + 1, 1, 1))
        cf.append(("crash-n3-dev2", configs(3, I1, (2.0,), ALL_P), lambda N: 3, 2, 8))
        cf.append(("crash-n4", configs(4, ALL_I, ALL_S, ALL_P), lambda N: 2 * (N - 1) + 1, 1, 1))
        cf.append(("crash-n5", configs(5, I1, (2.0,), ALL_P), lambda N: 2 * (N - 1) + 1, 1, 2))
    # few / no delegates for the indirect probe: 2-member cluster, indirect_probe_count 0 and 1 (default is 3);
    # stop instants start at 1 us, i.e. before the first contact
    def fewdel(sets):
        return [(N, 1.0, S, 8.0, 3 * N, None, ipc) for (N, S, ipc) in sets]

    fd_sets = [(2, 1.0, None), (2, 2.0, 0), (3, 1.0, 0), (3, 2.0, 1), (4, 2.0, 0)]
    cf.append(("crash-fewdelegates", fewdel(fd_sets if quick else fd_sets + [(2, 5.0, 1), (3, 2.0, 0), (4, 2.0, 1)]),
               lambda N: 2 if quick else 4, 1, 1))
    for name, cfgs, kmax_of, bound, nparts in cf:
        if not want(name):
            continue
        jobs = crash_jobs(cfgs, kmax_of, bound, nparts)
        run_family(run, name, "crash", jobs,
                   {"cluster_sizes": sorted({c[0] for c in cfgs}),
                    "parameter_sets(N,interval,suspicion,phi,indirect_probe_count)":
                        [(c[0],) + tuple(c[1:4]) + ((c[6],) if len(c) > 6 else ("default",)) for c in cfgs],
                    "victim": "m0", "stop_instants": "k*interval + {-1us, +1us, +0.3*interval}, k=0..%d" % kmax_of(cfgs[0][0]),
                    "probe_rounds": "ceil(stop/interval) + BOUND + 2",
                    "BOUND_rounds": {str((c[0],) + tuple(c[1:3])): bound_rounds(c[0], c[1], c[2]) for c in cfgs},
                    "one_way_delay_fraction_of_interval": LAT_FRACTIONS, "shuffle": "all permutations",
                    "deviation_bound": bound}, seed)
    # -- rejoin ---------------------------------------------------------
    rf = []
    if quick:
        rf.append(("rejoin-n3", configs(3, I1, (2.0,), (3.0,)), 1, 1, [(2, 0), (2, 0.3)]))
        rf.append(("rejoin-n4", configs(4, I1, (2.0,), ALL_P), 1, 1, [(2, 0), (2, 0.3), (3, 0)]))
    else:
        st4 = [(2, 0), (2, 0.3), (3, 0), (3, 0.3)]
        rf.append(("rejoin-n3", configs(3, ALL_I, (2.0,), ALL_P), 1, 1, st4))
        rf.append(("rejoin-n3-dev2", configs(3, I1, (2.0,), (3.0,)), 2, 16, [(2, 0), (2, 0.3)]))
        rf.append(("rejoin-n4", configs(4, ALL_I, (2.0,), ALL_P), 1, 1, st4))
        rf.append(("rejoin-n4-dev2", configs(4, I1, (2.0,), (3.0,)), 2, 64, [(2, 0)]))
    for name, cfgs, bound, nparts, stops in rf:
        if not want(name):
            continue
        jobs = rejoin_jobs(cfgs, bound, nparts, stops)
        run_family(run, name, "rejoin", jobs,
                   {"cluster_size": cfgs[0][0], "parameter_sets(interval,suspicion,phi)": [c[1:4] for c in cfgs],
                    "victim": "m0", "stop_instants": REJOIN_STOPS_DOC,
                    "away_rounds": "2(N-1) + ceil(suspicion/interval) + 2.5",
                    "stop_list(k,off)": stops, "rounds_after_return": "N", "deviation_bound": bound}, seed)
    if want("updates"):
        run_updates(run, tier, seed)
    if want("phi"):
        run_phi(run, tier, seed)
    return run.finish()


# ---------------------------------------------------------------------------
# replay
# ---------------------------------------------------------------------------
def replay(data):
    rep = data["replay"]
    if rep["driver"] == "updates":
        trace = []
        _log, f = run_update_sequence(tuple(tuple(o) for o in rep["ops"]), trace=trace)
        print("node a (members b, x) receives, through handle_event:")
        for line in trace:
            print("  " + line)
        want = data.get("fingerprint")
        hit = False
        for fp, desc in f:
            print(f"  !! {fp}: {desc}")
            hit = hit or want is None or fp == want
        return 1 if hit else 0
    if rep["driver"] == "phi":
        n, vals, v = phi_history_check(rep["interval"], rep["bootstrap"], rep["window"],
                                       tuple(rep["gaps"]), rep["t0"])
        print(f"detector interval={rep['interval']} bootstrap={rep['bootstrap']} window={rep['window']} "
              f"first heartbeat at {rep['t0']} then gaps (x interval) {rep['gaps']}")
        for i, p in enumerate(vals):
            print(f"  grid[{i}] phi={p!r}")
        if v:
            print(f"  !! {v[0]}: {v[1]}")
        return 1 if v else 0
    cfg = tuple(rep["cfg"])
    cfg = (int(cfg[0]), float(cfg[1]), float(cfg[2]), float(cfg[3]), int(cfg[4])) + (
        ((tuple(float(x) for x in cfg[5]) if cfg[5] is not None else None),) if len(cfg) > 5 else ()) + (
        (cfg[6],) if len(cfg) > 6 else ())
    fault = tuple(rep["fault"]) if rep.get("fault") else None
    trace = []
    ch = Chooser(prefix=rep["choices"])
    out = run_cluster(ch, cfg, fault, trace=trace)
    print(f"driver={rep['driver']} cfg(N,interval,suspicion,phi,rounds)={cfg} fault(victim,stop_ns,return_ns)={fault}")
    print("deviations (choice index, answer, kind):",
          [(i, c, ch.points[i][1]) for i, c in enumerate(ch.choices) if c])
    for (t, et, tgt, md, changed) in trace:
        print(f"  t={t / SEC:.6f}s {et} -> {tgt} {md}")
        for line in changed:
            print(f"      => {line}")
    print("view changes:")
    for (t, a, b, s, via) in out["timeline"]:
        print(f"  t={t / SEC:.6f}s {a} reports {b} {s} (while handling {via})")
    if out["timeline_lists"] != out["timeline"]:
        print("view changes as read from alive_members / suspected_members / dead_members (differ from the above):")
        for (t, a, b, s, via) in out["timeline_lists"]:
            print(f"  t={t / SEC:.6f}s {a} lists {b} as {s} (while handling {via})")
    f = list(out["findings"])
    if rep["driver"] == "crash":
        f2, lat = check_detection(out, cfg, fault)
        f += f2
        print("rounds after the stop until each observer left ALIVE for the last time:", lat)
    want = data.get("fingerprint")
    hit = False
    for fp, desc in f:
        print(f"  !! {fp}: {desc}")
        if want is None or fp == want:
            hit = True
    return 1 if hit else 0

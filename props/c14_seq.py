"""C14 helper — sequential operation sequences (engine E3).

Breadth-first enumeration of ALL sequences of writes over a tiny key space on
the real storage engines, with the complete read image (every get variant of
every key + every range scan) compared against a dict after every step.  Reads
are not BFS moves: they are executed in *every* reached state (and the canonical
state is re-computed afterwards to confirm that reading changed nothing), so all
sequences "writes interleaved with any reads" are covered.

Dedup is on the canonical engine contents (memtable + level shape + table
contents, values rank-compressed: the engines never look inside a value) joined
with the reference dict.  Private attributes are used only for that canonical
form and for cheap snapshots; if they are missing the canon falls back to the
operation trace itself (no dedup, still sound) and snapshots fall back to
re-executing the trace.
"""
from __future__ import annotations

import io
import itertools
import pickle
import time

from mc.evidence import digest
from mc import harness as _h  # noqa: F401  (installs VERIF_REPO import root)

from happysimulator.components.datastore.kv_store import KVStore
from happysimulator.components.storage import lsm_tree as _lt
from happysimulator.components.storage.btree import BTree
from happysimulator.components.storage.lsm_tree import LSMTree
from happysimulator.components.storage.sstable import SSTable

ABSENT = None
_TOMB = getattr(_lt, "_TOMBSTONE", None)


class HandDriveLimit(RuntimeError):
    pass


def drive(gen, max_steps=100000):
    """Run a library generator to completion with nothing in between (sequential use)."""
    n = 0
    try:
        while True:
            next(gen)
            n += 1
            if n > max_steps:
                raise HandDriveLimit(f"generator did not finish within {max_steps} steps")
    except StopIteration as e:
        return e.value


# ---------------------------------------------------------------------------
# engines
# ---------------------------------------------------------------------------
def strategy_catalogue():
    """Every CompactionStrategy subclass present, with small thresholds so that a handful
    of writes reaches multi-level compactions.  Unknown subclasses are taken with their
    default constructor (and reported)."""
    known = {
        "SizeTieredCompaction": [("st2", lambda c: c(min_sstables=2)), ("st3", lambda c: c(min_sstables=3))],
        "LeveledCompaction": [("lv2", lambda c: c(level_0_max=2, size_ratio=2, base_size_keys=1)),
                              ("lv3", lambda c: c(level_0_max=3, size_ratio=2, base_size_keys=1))],
        "FIFOCompaction": [("fifo2", lambda c: c(max_total_sstables=2)), ("fifo3", lambda c: c(max_total_sstables=3))],
    }
    out = {}
    unknown = []
    for cls in _lt.CompactionStrategy.__subclasses__():
        if cls.__name__ in known:
            for tag, mk in known[cls.__name__]:
                out[tag] = (cls, mk)
        else:
            unknown.append(cls.__name__)
            out["x-" + cls.__name__] = (cls, lambda c: c())
    return out, unknown


def make_engine(cfg, wal=None, lat=None, clock=False):
    eng = _make_engine(cfg, wal, lat)
    if clock:
        # hand-driven (sequential) use outside a Simulation: give the entity a clock at t=0 so that
        # an implementation that consults ``self.now`` keeps working
        try:
            from happysimulator.core.clock import Clock
            from happysimulator.core.temporal import Instant
            eng.set_clock(Clock(Instant(0)))
        except Exception:
            pass
    return eng


def _make_engine(cfg, wal=None, lat=None):
    kind = cfg[0]
    if kind == "lsm":
        _, stag, mem, levels = cfg[:4]
        cat, _unk = strategy_catalogue()
        cls, mk = cat[stag]
        kw = {}
        if lat:
            kw = {"sstable_read_latency": lat["sst_read"], "sstable_write_latency": lat["sst_write"]}
        return LSMTree("lsm", memtable_size=mem, compaction_strategy=mk(cls), max_levels=levels, wal=wal, **kw)
    if kind == "btree":
        kw = {}
        if lat:
            kw = {"page_read_latency": lat["page_read"], "page_write_latency": lat["page_write"]}
        return BTree("btree", order=cfg[1], **kw)
    if kind == "kv":
        kw = {}
        if lat:
            kw = {"read_latency": lat["kv_read"], "write_latency": lat["kv_write"]}
        return KVStore("kv", **kw)
    raise AssertionError(cfg)


def engine_name(cfg):
    return {"lsm": "LSMTree", "btree": "BTree", "kv": "KVStore"}[cfg[0]]


# ---------------------------------------------------------------------------
# snapshots (tombstone sentinel must keep its identity)
# ---------------------------------------------------------------------------
class _P(pickle.Pickler):
    def persistent_id(self, obj):
        return "T" if (_TOMB is not None and obj is _TOMB) else None


class _U(pickle.Unpickler):
    def persistent_load(self, pid):
        return _TOMB


def snapshot(obj) -> bytes:
    b = io.BytesIO()
    _P(b, protocol=pickle.HIGHEST_PROTOCOL).dump(obj)
    return b.getvalue()


def restore(blob):
    return _U(io.BytesIO(blob)).load()


# ---------------------------------------------------------------------------
# canonical forms (private attributes; fallback = None -> caller uses the trace)
# ---------------------------------------------------------------------------
def _v(x):
    return "T" if (_TOMB is not None and x is _TOMB) else x


def raw_canon(eng, cfg):
    try:
        if cfg[0] == "lsm":
            mem = tuple(sorted((k, _v(v)) for k, v in eng._memtable._data.items()))
            imm = tuple(tuple(sorted((k, _v(v)) for k, v in m._data.items())) for m in eng._immutable_memtables)
            lv = tuple(tuple(tuple((k, _v(v)) for k, v in t._data) for t in level) for level in eng._levels)
            return ("lsm", mem, imm, lv)
        if cfg[0] == "btree":
            def node(n):
                if n.leaf:
                    return ("L", tuple(n.keys), tuple(n.values))
                return ("I", tuple(n.keys), tuple(node(c) for c in n.children))
            return ("bt", eng._depth, node(eng._root))
        if cfg[0] == "kv":
            return ("kv", tuple(sorted(eng._data.items())), tuple(eng._insertion_order))
    except AttributeError:
        return None
    raise AssertionError(cfg)


def _collect_ints(x, acc):
    if isinstance(x, bool):
        return
    if isinstance(x, int):
        if x != 0:  # 0 is one of the falsy values, never a fresh value: keep it as it is
            acc.add(x)
    elif isinstance(x, tuple):
        for i in x:
            _collect_ints(i, acc)


def _rename(x, m):
    if isinstance(x, bool):
        return x
    if isinstance(x, int):
        return m.get(x, x)
    if isinstance(x, tuple):
        return tuple(_rename(i, m) for i in x)
    return x


def canon(eng, cfg, model, trace):
    """Rank-compress the (fresh, increasing) values jointly over engine and model."""
    rc = raw_canon(eng, cfg)
    if rc is None:
        return ("trace", trace)
    mod = tuple(sorted(model.items()))
    # BTree depth is an int too: keep it out of the renaming
    body = (rc[2:] if rc[0] == "bt" else rc[1:], mod)
    acc = set()
    _collect_ints(body, acc)
    m = {v: -(i + 1) for i, v in enumerate(sorted(acc))}
    return (rc[0], rc[1] if rc[0] == "bt" else None, _rename(body, m))


# ---------------------------------------------------------------------------
# write alphabet and read image
# ---------------------------------------------------------------------------
# Falsy payloads: a stored 0 / "" / False / empty collection is a value, not a miss.  (None is the
# engines' documented "absent" answer and is not used as a payload.)
FALSY = (0, "", False, (), 0.0, [], {})


def write_labels(cfg, keys, falsy=False):
    if cfg[0] == "kv":
        kinds = ("put_sync", "put", "del_sync", "del")
    else:
        kinds = ("put_sync", "put", "del")
    if falsy:
        kinds = kinds + ("putf_sync", "putf")
    return [(kd, k) for kd in kinds for k in keys]


def apply_write(eng, model, lab, val):
    """Apply one write; returns the payload written (None for a delete).  ``val`` is the fresh step
    number; the putf* kinds write the falsy payload FALSY[val % len(FALSY)] instead."""
    kd, k = lab
    if kd.startswith("putf"):
        val = FALSY[val % len(FALSY)]
        val = type(val)() if isinstance(val, (list, dict)) else val
    if kd in ("put_sync", "putf_sync"):
        eng.put_sync(k, val)
        model[k] = val
        return val
    if kd in ("put", "putf"):
        drive(eng.put(k, val))
        model[k] = val
        return val
    if kd == "del":
        drive(eng.delete(k))
        model.pop(k, None)
        return None
    if kd == "del_sync":
        eng.delete_sync(k)
        model.pop(k, None)
        return None
    raise AssertionError(lab)


def ranges(keys):
    pts = list(keys) + [chr(ord(max(keys)) + 1)]
    return [(pts[i], pts[j]) for i in range(len(pts)) for j in range(i + 1, len(pts))]


def classify_value(key, got, model, history_vals):
    """clause for a wrong point read."""
    exp = model.get(key, ABSENT)
    if got is ABSENT:
        return "lost-write"
    if got not in history_vals.get(key, ()):
        return "phantom"
    if exp is ABSENT:
        return "resurrected"
    return "stale-read"


def check_image(eng, cfg, model, keys, hist):
    """Full read image vs the dict.  Returns [(clause, description)]."""
    out = []
    name = engine_name(cfg)
    for k in keys:
        exp = model.get(k, ABSENT)
        reads = [("get_sync", eng.get_sync(k)), ("get", drive(eng.get(k)))]
        if cfg[0] == "kv":
            reads.append(("contains", k if eng.contains(k) else ABSENT))
        for api, got in reads:
            if api == "contains":
                if (got is ABSENT) != (exp is ABSENT):
                    out.append(("resurrected" if exp is ABSENT else "lost-write",
                                f"{name}.contains({k!r}) = {got is not ABSENT}, dict says {exp is not ABSENT}"))
                continue
            if got != exp:
                out.append((classify_value(k, got, model, hist),
                            f"{name}.{api}({k!r}) returned {got!r}, latest write is {exp!r}"))
    if cfg[0] == "kv":
        got = eng.keys()
        if sorted(got) != sorted(model) or len(got) != len(set(got)):
            out.append(("scan-keys", f"{name}.keys() = {got!r}, live keys are {sorted(model)!r}"))
        return out
    for (s, e) in ranges(keys):
        got = drive(eng.scan(s, e))
        exp = sorted((k, v) for k, v in model.items() if s <= k < e)
        gk = [k for k, _ in got]
        if gk != [k for k, _ in exp]:
            if gk != sorted(gk) or len(gk) != len(set(gk)):
                cl = "scan-order"
            elif set(gk) - set(k for k, _ in exp):
                cl = "scan-extra-key"
            else:
                cl = "scan-missing-key"
            out.append((cl, f"{name}.scan({s!r},{e!r}) returned keys {gk!r}, live keys of the range are "
                            f"{[k for k, _ in exp]!r}"))
        elif list(map(tuple, got)) != exp:
            out.append(("scan-stale-value", f"{name}.scan({s!r},{e!r}) returned {got!r}, expected {exp!r}"))
    return out


def shape_class(eng, cfg):
    """Deepest mechanism the history has exercised so far (public stats)."""
    try:
        st = eng.stats
        if cfg[0] == "lsm":
            if st.compactions > 0:
                return "sequential-after-compaction"
            if st.memtable_flushes > 0:
                return "sequential-after-flush"
            return "sequential-memtable"
        if cfg[0] == "btree":
            return "sequential-after-split" if st.node_splits > 0 else "sequential-single-leaf"
    except AttributeError:
        pass
    return "sequential"


def public_shape(eng, cfg):
    if cfg[0] == "lsm":
        try:
            return tuple((d["level"], d["sstables"], d["total_keys"]) for d in eng.level_summary)
        except AttributeError:
            return ()
    if cfg[0] == "btree":
        return (eng.depth, eng.size)
    return (eng.size,)


# ---------------------------------------------------------------------------
# BFS per configuration
# ---------------------------------------------------------------------------
def explore_cfg(job):
    cfg, keys, depth, max_states = job[:4]
    falsy = bool(job[4]) if len(job) > 4 else False
    t0 = time.process_time()
    labels = write_labels(cfg, keys, falsy)
    st = {"cfg": cfg, "states": 0, "transitions": 0, "nontriv": 0, "images": set(), "shapes": set(),
          "viol": {}, "exhaustive": True, "caps": [], "levels": [], "samples": [], "reads_mutate": 0,
          "canon_fallback": False, "snapshots": _TOMB is not None or cfg[0] != "lsm"}
    use_snap = st["snapshots"]
    eng0 = make_engine(cfg, clock=True)
    c0 = canon(eng0, cfg, {}, ())
    st["canon_fallback"] = c0[0] == "trace"
    seen = {digest(c0)}
    frontier = [(snapshot(eng0) if use_snap else None, {}, (), {}, False)]
    st["states"] = 1
    name = engine_name(cfg)

    def rebuild(trace):
        e = make_engine(cfg, clock=True)
        m = {}
        for i, lab in enumerate(trace):
            apply_write(e, m, lab, i + 1)
        return e

    for d in range(depth):
        st["levels"].append(len(frontier))
        nxt = []
        for blob, model, trace, hist, shadow in frontier:
            for lab in labels:
                eng = restore(blob) if use_snap else rebuild(trace)
                m = dict(model)
                h = {k: v for k, v in hist.items()}
                val = d + 1
                tr = trace + (lab,)
                sh = shadow or (lab[1] in hist)
                try:
                    wrote = apply_write(eng, m, lab, val)
                    if lab[0].startswith("put"):
                        h[lab[1]] = h.get(lab[1], ()) + (wrote,)
                    else:
                        h.setdefault(lab[1], ())
                    st["transitions"] += 1
                    c_before = canon(eng, cfg, m, tr)
                    key = digest(c_before)
                    if key in seen:
                        continue
                    seen.add(key)
                    st["states"] += 1
                    viol = check_image(eng, cfg, m, keys, h)
                    if digest(canon(eng, cfg, m, tr)) != key:
                        st["reads_mutate"] += 1
                    shp = shape_class(eng, cfg)
                except Exception as exc:  # a crash of the engine is a finding of its own
                    import traceback
                    fp = f"{name}/crash-{type(exc).__name__}/sequential"
                    st["viol"].setdefault(fp, (f"{name} raised {type(exc).__name__}: {exc} | " +
                                               traceback.format_exc().splitlines()[-3].strip(),
                                               {"driver": "seq", "cfg": cfg, "keys": keys, "trace": tr}))
                    continue
                for clause, desc in viol:
                    fp = f"{name}/{clause}/{shp}"
                    if fp not in st["viol"]:
                        st["viol"][fp] = (desc + f"  [after {len(tr)} writes: {tr}]",
                                          {"driver": "seq", "cfg": cfg, "keys": keys, "trace": tr})
                st["images"].add(digest(tuple(sorted(m.items()))))
                st["shapes"].add(public_shape(eng, cfg))
                if sh and shp not in ("sequential-memtable", "sequential-single-leaf"):
                    st["nontriv"] += 1
                elif sh and cfg[0] == "kv":
                    st["nontriv"] += 1
                if len(st["samples"]) < 2 and st["states"] % 997 == 5:
                    st["samples"].append({"cfg": cfg, "trace": tr, "model": dict(m),
                                          "shape": public_shape(eng, cfg)})
                nxt.append((snapshot(eng) if use_snap else None, m, tr, h, sh))
                if max_states and st["states"] >= max_states:
                    break
            if max_states and st["states"] >= max_states:
                break
        if max_states and st["states"] >= max_states:
            st["exhaustive"] = False
            st["caps"].append(f"{cfg}: max_states={max_states} at depth {d + 1}")
            break
        frontier = nxt
        if not frontier:
            break
    st["images"] = len(st["images"])
    st["shapes"] = len(st["shapes"])
    st["wall"] = time.process_time() - t0
    return st


def replay_seq(rep):
    cfg = _thaw(rep["cfg"])
    keys = list(rep["keys"])
    trace = [_thaw(x) for x in rep["trace"]]
    eng = make_engine(cfg, clock=True)
    model, hist = {}, {}
    bad = 0
    print(f"engine {cfg}, keys {keys}")
    for i, lab in enumerate(trace):
        try:
            wrote = apply_write(eng, model, lab, i + 1)
        except Exception as exc:
            print(f"  step {i}: {lab} value={i + 1} RAISED {type(exc).__name__}: {exc}")
            return 1
        if lab[0].startswith("put"):
            hist[lab[1]] = hist.get(lab[1], ()) + (wrote,)
        else:
            hist.setdefault(lab[1], ())
        v = check_image(eng, cfg, model, keys, hist)
        print(f"  step {i}: {lab} value={i + 1}  dict={model}  shape={public_shape(eng, cfg)} "
              f"[{shape_class(eng, cfg)}]")
        for clause, desc in v:
            print(f"    !! {clause}: {desc}")
            bad = 1
    return bad


def _thaw(x):
    return tuple(_thaw(i) for i in x) if isinstance(x, list) else x


# ---------------------------------------------------------------------------
# SSTable / bloom filter read path in isolation (sparse index boundaries)
# ---------------------------------------------------------------------------
def explore_sstable(job):
    universe, intervals = job
    st = {"tables": 0, "reads": 0, "viol": {}, "outcomes": set(), "nontriv": 0}
    for n in range(0, len(universe) + 1):
        for subset in itertools.combinations(universe, n):
            for iv in intervals:
                data = [(k, i + 1) for i, k in enumerate(subset)]
                # constructor must sort: hand the pairs over in reverse order
                t = SSTable(list(reversed(data)), index_interval=iv)
                st["tables"] += 1
                if n > iv:
                    st["nontriv"] += 1  # more than one sparse-index block
                ref = dict(data)
                for k in universe:
                    st["reads"] += 1
                    got = t.get(k)
                    if got != ref.get(k):
                        st["viol"].setdefault(
                            "SSTable/" + ("lost-write" if got is None else "stale-read") + "/sparse-index",
                            (f"SSTable({sorted(ref)}, index_interval={iv}).get({k!r}) = {got!r}, "
                             f"expected {ref.get(k)!r}", {"driver": "sstable", "keys": list(subset),
                                                          "index_interval": iv, "get": k}))
                    if k in ref and not t.contains(k):
                        st["viol"].setdefault(
                            "SSTable/bloom-false-negative/contains",
                            (f"SSTable({sorted(ref)}).contains({k!r}) is False for a stored key",
                             {"driver": "sstable", "keys": list(subset), "index_interval": iv, "get": k}))
                pts = [None] + list(universe)
                for s in pts:
                    for e in pts:
                        st["reads"] += 1
                        got = t.scan(s, e)
                        exp = sorted((k, v) for k, v in ref.items()
                                     if (s is None or k >= s) and (e is None or k < e))
                        if list(map(tuple, got)) != exp:
                            st["viol"].setdefault(
                                "SSTable/scan-keys/range",
                                (f"SSTable({sorted(ref)}).scan({s!r},{e!r}) = {got!r}, expected {exp!r}",
                                 {"driver": "sstable", "keys": list(subset), "index_interval": iv,
                                  "scan": [s, e]}))
                st["outcomes"].add((subset, iv))
    st["outcomes"] = len(st["outcomes"])
    return st


def replay_sstable(rep):
    keys = rep["keys"]
    iv = rep["index_interval"]
    data = [(k, i + 1) for i, k in enumerate(keys)]
    t = SSTable(list(reversed(data)), index_interval=iv)
    ref = dict(data)
    bad = 0
    print(f"SSTable({data}, index_interval={iv})")
    if "get" in rep:
        k = rep["get"]
        got = t.get(k)
        print(f"  get({k!r}) = {got!r} expected {ref.get(k)!r}; contains = {t.contains(k)}")
        bad |= got != ref.get(k) or (k in ref and not t.contains(k))
    if "scan" in rep:
        s, e = rep["scan"]
        got = t.scan(s, e)
        exp = sorted((k, v) for k, v in ref.items() if (s is None or k >= s) and (e is None or k < e))
        print(f"  scan({s!r},{e!r}) = {got!r} expected {exp!r}")
        bad |= list(map(tuple, got)) != exp
    return int(bad)

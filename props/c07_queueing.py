"""C07 registry: core queueing (Queue, QueueDriver, QueuedResource, RandomRouter, Sink, Counter) and servers
(Server with every queue policy / concurrency model, AsyncServer, ThreadPool)."""
from __future__ import annotations

from props.c07_core import Drv, Entity, Event, P, R

from happysimulator.components.common import Counter, Sink
from happysimulator.components.queue import Queue
from happysimulator.components.queue_driver import QueueDriver
from happysimulator.components.queue_policies import (AdaptiveLIFO, CoDelQueue, DeadlineQueue, FairQueue, REDQueue,
                                                      WeightedFairQueue)
from happysimulator.components.queue_policy import FIFOQueue, LIFOQueue, PriorityQueue
from happysimulator.components.queued_resource import QueuedResource
from happysimulator.components.random_router import RandomRouter
from happysimulator.components.server import (AsyncServer, DynamicConcurrency, FixedConcurrency, Server, ThreadPool,
                                              WeightedConcurrency)
from happysimulator.core.temporal import Duration


class _Worker(Entity):
    """Capacity-1 worker behind a QueueDriver (takes L per item, forwards to out)."""

    def __init__(self, name, L, out):
        super().__init__(name)
        self.L, self.out, self.busy = L, out, 0

    def has_capacity(self):
        return self.busy < 1

    def handle_event(self, event):
        self.busy += 1
        try:
            yield self.L
        finally:
            self.busy -= 1
        return [self.forward(event, self.out)]


class QueueDrv(Drv):
    contention = True
    """Explicit Queue + QueueDriver + worker wiring; ops arrive directly or through one more hop."""
    family = "queueing"
    covers = ("Queue", "QueueDriver", "FIFOQueue")
    ops = ("enqueue", "enqueue_hop")

    def build(self, cfg):
        self.worker = _Worker("worker", cfg.L, self.h.out)
        self.q = Queue(name="q", egress=None, policy=FIFOQueue(capacity=2))
        self.drv = QueueDriver(name="drv", queue=self.q, target=self.worker)
        self.q.egress = self.drv
        self.router = RandomRouter("hop", targets=[self.q])
        return [self.worker, self.q, self.drv, self.router]

    def request(self, i, op):
        tgt = self.q if op == "enqueue" else self.router
        return [self.h.ev(tgt, "work", {"metadata": {"i": i}})]


class _DocServer(QueuedResource):
    """The documented QueuedResource pattern (CLAUDE.md)."""

    def __init__(self, name, downstream, L, concurrency=1, policy=None):
        super().__init__(name, policy=policy if policy is not None else FIFOQueue())
        self.downstream, self.concurrency, self._in_flight, self.L = downstream, concurrency, 0, L

    def has_capacity(self):
        return self._in_flight < self.concurrency

    def handle_queued_event(self, event):
        self._in_flight += 1
        try:
            yield self.L
        finally:
            self._in_flight -= 1
        return [Event(time=self.now, event_type="Done", target=self.downstream, context=event.context)]


class QueuedResourceDrv(Drv):
    contention = True
    family = "queueing"
    covers = ("QueuedResource", "LIFOQueue")
    ops = ("work", "work_hop")

    def build(self, cfg):
        self.s = _DocServer("doc", self.h.out, cfg.L, policy=LIFOQueue(capacity=2))
        self.router = RandomRouter("hop", targets=[self.s])
        return [self.s, self.router]

    def request(self, i, op):
        tgt = self.s if op == "work" else self.router
        return [self.h.ev(tgt, "work", {"metadata": {"i": i}})]


class RandomRouterDrv(Drv):
    family = "queueing"
    covers = ("RandomRouter", "Sink", "Counter")
    ops = ("route",)

    def build(self, cfg):
        self.sink = Sink("sink")
        self.counter = Counter("counter")
        self.s = _DocServer("doc", self.sink, cfg.L, concurrency=2)
        self.r = RandomRouter("router", targets=[self.s, self.sink, self.counter])
        return [self.sink, self.counter, self.s, self.r]

    def request(self, i, op):
        return [self.h.ev(self.r, "route", {"metadata": {"i": i}})]


class _ServerDrv(Drv):
    family = "server"
    ops = ("request", "request_heavy")

    def policy(self):
        return None

    def concurrency(self):
        return 1

    def build(self, cfg):
        pol = self.policy()
        self.s = Server("srv", concurrency=self.concurrency(), service_time=cfg.lat(), queue_policy=pol,
                        queue_capacity=None if pol is not None else 2, downstream=self.h.out)
        if pol is not None and hasattr(pol, "set_clock"):
            pol.set_clock(lambda: self.s.now)
        return [self.s]

    def request(self, i, op):
        heavy = op == "request_heavy"
        md = {"i": i, "weight": 2 if heavy else 1, "priority": 0 if heavy else 1, "flow": "a" if heavy else "b"}
        ctx = {"metadata": md, "deadline": self.h.now + Duration.from_seconds(P(0.75) if heavy else P(3.0))}
        return [self.h.ev(self.s, "Request", ctx)]


class ServerFifoDrv(_ServerDrv):
    contention = True
    covers = ("Server", "FixedConcurrency", "FIFOQueue")


class ServerPriorityDrv(_ServerDrv):
    covers = ("Server", "PriorityQueue", "DynamicConcurrency")

    def policy(self):
        return PriorityQueue(capacity=2, key=lambda e: e.context["metadata"]["priority"])

    def concurrency(self):
        return DynamicConcurrency(initial=1, min_limit=1, max_limit=2)


class ServerWeightedDrv(_ServerDrv):
    contention = True
    covers = ("Server", "WeightedConcurrency", "LIFOQueue")

    def policy(self):
        return LIFOQueue(capacity=3)

    def concurrency(self):
        return WeightedConcurrency(total_capacity=2)


class ServerCoDelDrv(_ServerDrv):
    covers = ("Server", "CoDelQueue")

    def policy(self):
        return CoDelQueue(target_delay=P(0.25), interval=P(0.5), capacity=3)


class ServerREDDrv(_ServerDrv):
    covers = ("Server", "REDQueue")

    def policy(self):
        return REDQueue(min_threshold=1, max_threshold=2, max_probability=0.5, capacity=3)


class ServerFairDrv(_ServerDrv):
    covers = ("Server", "FairQueue")

    def policy(self):
        return FairQueue(get_flow_id=lambda e: e.context["metadata"]["flow"], per_flow_capacity=2)


class ServerWFQDrv(_ServerDrv):
    covers = ("Server", "WeightedFairQueue")

    def policy(self):
        return WeightedFairQueue(get_flow_id=lambda e: e.context["metadata"]["flow"],
                                 get_weight=lambda f: 2 if f == "a" else 1, capacity=3)


class ServerDeadlineDrv(_ServerDrv):
    covers = ("Server", "DeadlineQueue")

    def policy(self):
        return DeadlineQueue(get_deadline=lambda e: e.context["deadline"], capacity=3)


class ServerAdaptiveLifoDrv(_ServerDrv):
    covers = ("Server", "AdaptiveLIFO")

    def policy(self):
        return AdaptiveLIFO(congestion_threshold=1, capacity=3)


class AsyncServerDrv(Drv):
    contention = True
    """CPU phase (serialized) + generator I/O phase (concurrent), both taking cfg.L; max_connections 2."""
    family = "server"
    covers = ("AsyncServer",)
    ops = ("request",)

    def build(self, cfg):
        def io(event):
            yield cfg.L
            return [Event(time=self.s.now, event_type="io_done", target=self.h.out, context=event.context)]

        self.s = AsyncServer("async", max_connections=3, cpu_work_distribution=cfg.lat(), io_handler=io)
        return [self.s]

    def request(self, i, op):
        return [self.h.ev(self.s, "Request", {"metadata": {"i": i}})]


class AsyncServerPlainDrv(Drv):
    """No I/O handler / immediate-events I/O handler, connection limit 1 (rejections)."""
    family = "server"
    covers = ("AsyncServer",)
    ops = ("request", "request_io")

    def build(self, cfg):
        def io(event):
            if event.event_type == "request_io":
                return [Event(time=self.s.now, event_type="io_done", target=self.h.out, context=event.context)]
            return None

        self.s = AsyncServer("async", max_connections=2, cpu_work_distribution=cfg.lat(), io_handler=io)
        return [self.s]

    def request(self, i, op):
        return [self.h.ev(self.s, op, {"metadata": {"i": i}})]


class ThreadPoolDrv(Drv):
    contention = True
    family = "server"
    covers = ("ThreadPool",)
    ops = ("task", "task_long")

    def build(self, cfg):
        self.p = ThreadPool("pool", num_workers=2, queue_capacity=2, default_processing_time=cfg.L)
        return [self.p]

    def request(self, i, op):
        md = {"i": i}
        if op == "task_long":
            md["processing_time"] = 2 * self.cfg.L
        return [self.p.submit(self.h.ev(self.h.out, "task", {"metadata": md}))]


DRIVERS = [QueueDrv, QueuedResourceDrv, RandomRouterDrv, ServerFifoDrv, ServerPriorityDrv, ServerWeightedDrv,
           ServerCoDelDrv, ServerREDDrv, ServerFairDrv, ServerWFQDrv, ServerDeadlineDrv, ServerAdaptiveLifoDrv,
           AsyncServerDrv, AsyncServerPlainDrv, ThreadPoolDrv]

"""C14 — storage engines behave like a map under any flushes, compactions and overlap.

Three groups of drivers, all on the REAL engines (LSMTree under every compaction
strategy present, BTree, KVStore without capacity, TransactionManager):

1. ``seq-*``      (E3) exhaustive BFS over write sequences, full read image vs a dict in every state
                  (props/c14_seq.py); ``sstable-index``: SSTable/bloom read path over all key subsets.
2. ``overlap*-*`` (E2) 2-3 client processes in a real Simulation, every start offset on a grid finer
                  than the engines' latencies, interval-register oracle (props/c14_overlap.py).
3. ``txn-*``      (E2) all interleavings of 2-3 transactions (incl. reader + two writers of one key) at every isolation level, brute-force
                  serial-order / single-snapshot oracles (props/c14_txn.py).
"""
from __future__ import annotations

import contextlib
import io
import itertools
import time

from mc.evidence import Run
from mc.harness import pmap, rotate

from props import c14_overlap as OV
from props import c14_seq as SQ
from props import c14_txn as TX

PID = "C14"

PUT_A, PUT_B, DEL_A, DEL_B = ("put", "a"), ("put", "b"), ("del", "a"), ("del", "b")


# ---------------------------------------------------------------------------
# job dispatch (one pool for all drivers: every job is an independent sub-space)
# ---------------------------------------------------------------------------
def _job(j):
    driver, kind, payload = j
    if kind == "seq":
        return driver, kind, SQ.explore_cfg(payload)
    if kind == "sst":
        return driver, kind, SQ.explore_sstable(payload)
    if kind == "ov":
        return driver, kind, OV.work(payload)
    if kind == "tx":
        return driver, kind, TX.work(payload)
    if kind == "txo":
        return driver, "tx", TX.work_overlap(payload)
    raise AssertionError(kind)


def _lsm_cfgs(tags, mems=(1, 2), levels=(2, 3)):
    return [("lsm", s, m, lv) for s in tags for m in mems for lv in levels]


def plan(tier):
    """Returns (jobs, bounds_by_driver, notes)."""
    quick = tier == "quick"
    cat, unknown = SQ.strategy_catalogue()
    notes = []
    if unknown:
        notes.append(f"compaction strategies without a small-threshold recipe, run with defaults: {unknown}")
    base_tags = [t for t in cat if t.endswith("2") or t.startswith("x-")]
    all_tags = list(cat)
    jobs = []
    bounds = {}

    # ---- 1. sequential ---------------------------------------------------
    depth = 7 if quick else 9
    tags = base_tags if quick else all_tags
    keys3 = ("a", "b", "c")
    def lsm_depth(cfg):
        # FIFO with memtable_size=1 never collapses states (x6 per level): one level less in thorough
        fifo1 = cat[cfg[1]][0].__name__ == "FIFOCompaction" and cfg[2] == 1
        return depth - 1 if (fifo1 and not quick) else depth

    for cfg in _lsm_cfgs(tags):
        jobs.append(("seq-lsm", "seq", (cfg, keys3, lsm_depth(cfg), 400000)))
    bounds["seq-lsm"] = {"keys": keys3, "depth(writes)": depth if quick else f"{depth} ({depth - 1} for FIFO with memtable_size=1)", "write_alphabet": "put_sync/put/delete per key",
                         "strategies": {t: cat[t][0].__name__ for t in tags}, "memtable_size": [1, 2],
                         "max_levels": [2, 3], "reads": "get_sync + get of every key, scan of every range, in every state"}
    bkeys = ("a", "b", "c", "d", "e")
    bdepth = 7 if quick else 9
    for order in (3, 4):
        jobs.append(("seq-btree", "seq", (("btree", order), bkeys, bdepth, 400000)))
    bounds["seq-btree"] = {"keys": bkeys, "depth(writes)": bdepth, "orders": [3, 4],
                           "write_alphabet": "put_sync/put/delete per key"}
    jobs.append(("seq-kv", "seq", (("kv",), keys3, depth, 400000)))
    bounds["seq-kv"] = {"keys": keys3, "depth(writes)": depth,
                        "write_alphabet": "put_sync/put/delete_sync/delete per key", "capacity": None}
    uni = tuple("abcdef") if quick else tuple("abcdefgh")
    ivs = (1, 2, 3, 16)
    jobs.append(("sstable-index", "sst", (uni, ivs)))
    bounds["sstable-index"] = {"key_universe": uni, "index_interval": ivs,
                               "tables": "every subset of the universe", "reads": "get of every key, every range scan"}

    # falsy payloads (0, "", False, (), 0.0, [], {}) through every write/read API of every engine
    fkeys = ("a", "b")
    fdepth = 5 if quick else 6
    fcfgs = [("lsm", t, m, lv) for t in base_tags for (m, lv) in ((1, 2), (2, 3))] + \
            [("btree", 3), ("btree", 4), ("kv",)]
    for cfg in fcfgs:
        jobs.append(("seq-falsy", "seq", (cfg, fkeys, fdepth, 400000, True)))
    bounds["seq-falsy"] = {"keys": fkeys, "depth(writes)": fdepth, "engines": fcfgs,
                           "write_alphabet": "put_sync/put with a fresh truthy payload, put_sync/put with a falsy "
                                             "payload (cycling 0, '', False, (), 0.0, [], {}), delete",
                           "reads": "full image in every state (get_sync, get, scans / contains, keys)"}

    # ---- 2. overlap --------------------------------------------------------
    keys2 = ("a", "b")
    cap = 400_000
    lsm_pref_q = [(), (PUT_A,), (PUT_A, PUT_B), (PUT_A, DEL_A)]
    bt_pref = [(), (PUT_A,), (PUT_A, PUT_B), (PUT_A, PUT_B, PUT_A)]
    kv_pref = [(), (PUT_A,), (PUT_A, PUT_B), (PUT_A, DEL_A)]
    if quick:
        sub = [(c, None) for c in _lsm_cfgs(base_tags, (1, 2), (2,))]
        sub += [(("lsm", base_tags[0], 1, 3), None), (("lsm", base_tags[0], 1, 2), "every"),
                (("lsm", base_tags[min(1, len(base_tags) - 1)], 2, 2), "every")]
        for (cfg, wal) in sub:
            for pre in lsm_pref_q:
                jobs.append(("overlap-lsm", "ov", (cfg, wal, pre, keys2, 2, 3, 3, cap, 0, 1)))
        bounds["overlap-lsm"] = {"clients": 2, "ops_per_client": "<=3", "total_ops": "<=3", "keys": keys2,
                                 "op_alphabet": "put/delete/get per key + scan", "prefixes": lsm_pref_q,
                                 "engine x wal": sub, "offset_grid_ns": OV.GRID_NS,
                                 "offset_walk": f"0,G,2G,.. until no overlap (cap {cap} ns)",
                                 "latencies_s": OV.LAT}
        o3 = [(("lsm", "st2", 2, 2), None, (PUT_A,)), (("lsm", "st2", 1, 2), "every", (PUT_A,)),
              (("btree", 3), None, (PUT_A, PUT_B))]
        g3 = 40_000
        nch = 4
    else:
        pre2 = OV.prefixes(keys2, 2)
        sub = [(c, w) for c in _lsm_cfgs(base_tags) for w in (None, "every", "batch")]
        for (cfg, wal) in sub:
            for pre in (pre2 if wal is None else lsm_pref_q):
                jobs.append(("overlap-lsm", "ov", (cfg, wal, pre, keys2, 2, 3, 3, cap, 0, 1)))
        sub4 = [(c, w) for c in _lsm_cfgs(base_tags, (1, 2), (2,)) for w in (None, "every")]
        for (cfg, wal) in sub4:
            for pre in lsm_pref_q:
                for ch in range(8):
                    jobs.append(("overlap-lsm-4ops", "ov", (cfg, wal, pre, keys2, 2, 3, 4, cap, ch, 8)))
        bounds["overlap-lsm"] = {"clients": 2, "ops_per_client": "<=3", "total_ops": "<=3", "keys": keys2,
                                 "op_alphabet": "put/delete/get per key + scan",
                                 "prefixes": {"wal=None": "all sequences of <=2 puts/deletes on the keys",
                                              "wal=every|batch": lsm_pref_q},
                                 "engine x wal": sub, "offset_grid_ns": OV.GRID_NS,
                                 "offset_walk": f"0,G,2G,.. until no overlap (cap {cap} ns)",
                                 "latencies_s": OV.LAT}
        bounds["overlap-lsm-4ops"] = {"clients": 2, "ops_per_client": "<=3", "total_ops": "<=4", "keys": keys2,
                                      "prefixes": lsm_pref_q, "engine x wal": sub4,
                                      "offset_grid_ns": OV.GRID_NS, "latencies_s": OV.LAT}
        o3 = [(c, w, p) for c in _lsm_cfgs(base_tags, (1, 2), (2,)) for w in (None, "every")
              for p in [(PUT_A,), (PUT_A, PUT_B)]]
        o3 += [(("btree", o), None, p) for o in (3, 4) for p in bt_pref[1:]]
        g3 = 60_000
        nch = 4
    tot_b = 3 if quick else 4
    for order in (3, 4):
        for pre in bt_pref:
            for ch in range(1 if quick else 4):
                jobs.append(("overlap-btree", "ov", (("btree", order), None, pre, keys2, 2, 3, tot_b, cap,
                                                    ch, 1 if quick else 4)))
    bounds["overlap-btree"] = {"clients": 2, "ops_per_client": "<=3", "total_ops": f"<={tot_b}", "keys": keys2,
                               "orders": [3, 4], "prefixes": bt_pref, "offset_grid_ns": OV.GRID_NS,
                               "latencies_s": OV.LAT}
    for pre in kv_pref:
        for ch in range(1 if quick else 4):
            jobs.append(("overlap-kv", "ov", (("kv",), None, pre, keys2, 2, 3, tot_b, cap, ch, 1 if quick else 4)))
    bounds["overlap-kv"] = {"clients": 2, "ops_per_client": "<=3", "total_ops": f"<={tot_b}", "keys": keys2,
                            "op_alphabet": "put/delete/get per key", "prefixes": kv_pref,
                            "offset_grid_ns": OV.GRID_NS, "latencies_s": OV.LAT}
    for (cfg, wal, pre) in o3:
        for ch in range(nch):
            jobs.append(("overlap3", "ov", (cfg, wal, pre, keys2, 3, 1, 3, g3, ch, nch)))
    # write bursts: three writes in flight in different memtables while a get/scan runs
    if quick:
        ob = [(("lsm", t, 2, 2), None, p) for t in base_tags for p in [(PUT_A,), ()]]
        ob += [(("lsm", base_tags[0], 1, 2), None, (PUT_A,))]
        gb, full = 40_000, 0
    else:
        ob = [(("lsm", t, m, 2), w, p) for t in base_tags for m in (1, 2, 3) for w in (None, "every")
              for p in [(PUT_A,), (), (PUT_A, PUT_B)]]
        gb, full = 50_000, 1
    for (cfg, wal, pre) in ob:
        for ch in range(1 if quick else 4):
            jobs.append(("overlap-burst", "ov", (cfg, wal, pre, keys2, "burst", 0, full, gb, ch, 1 if quick else 4)))
    bounds["overlap-burst"] = {"clients": 3, "programs": "clients 1,2: one put" + ("/delete" if full else "")
                               + " each; client 3: put/delete then get(a)|get(b)|scan", "keys": keys2,
                               "sub_spaces": ob,
                               "offsets": f"full product of 0..{gb} ns step {OV.GRID_NS} for clients 2 and 3",
                               "latencies_s": OV.LAT}
    bounds["overlap3"] = {"clients": 3, "ops_per_client": 1, "keys": keys2, "sub_spaces": o3,
                          "offsets": f"full product of 0..{g3} ns step {OV.GRID_NS} for clients 2 and 3"}

    # ---- 3. transactions ------------------------------------------------------
    lv = list(TX.LEVELS)
    p2 = TX.txn_programs(2)
    # transaction identities are interchangeable (all interleavings are run): unordered program sets
    sets2 = list(itertools.combinations_with_replacement(p2, 2))
    for store in TX.STORES:
        for level in lv:
            for ch in range(4):
                jobs.append(("txn-2x2", "tx", (store, level, sets2[ch::4])))
    bounds["txn-2x2"] = {"transactions": 2, "ops_per_txn": "<=2 of r/w on x,y", "stores": dict(TX.STORES),
                         "levels": lv, "interleavings": "all merges of begin/ops/commit",
                         "begin": "T0 passes its level to begin(), T1 relies on the manager default (same level)",
                         "program_sets": "unordered (transaction identities are interchangeable)"}
    p1 = TX.txn_programs(1)
    sets3 = list(itertools.combinations_with_replacement(p1, 3))
    stores3 = ["kv"] if quick else list(TX.STORES)
    levels3 = ["SERIALIZABLE", "SNAPSHOT_ISOLATION"] if quick else lv
    for store in stores3:
        for level in levels3:
            for ch in range(10):
                jobs.append(("txn-3x1", "tx", (store, level, sets3[ch::10])))
    bounds["txn-3x1"] = {"transactions": 3, "ops_per_txn": 1, "stores": stores3, "levels": levels3,
                         "interleavings": "all merges of begin/op/commit (1680 per program set)"}
    # isolation level given per transaction (begin(isolation=L) / begin_sync(isolation=L)) on a manager whose
    # DEFAULT level is a different one; every transaction is judged by the level it was begun with
    ov_levels = [f"{d}>{lvl}" for lvl in lv for d in lv if d != lvl]
    ov_stores = ["kv"] if quick else list(TX.STORES)
    for store in ov_stores:
        for level in ov_levels:
            for ch in range(2):
                jobs.append(("txn-override", "tx", (store, level, sets2[ch::2])))
    bounds["txn-override"] = {"transactions": 2, "ops_per_txn": "<=2", "stores": ov_stores,
                              "manager_default>per_txn_level": ov_levels,
                              "begin": "T0 via begin(isolation=L), T1 via begin_sync(isolation=L)",
                              "interleavings": "all merges of begin/ops/commit"}

    # one reader with two reads + two writers: the reader's snapshot must survive SEVERAL later commits
    # on the same key (a key overwritten twice after the snapshot has an intermediate before-image)
    readers = list(itertools.product([("r", "x"), ("r", "y")], repeat=2))
    w1 = [(("w", "x"),), (("w", "y"),)]
    wpairs = list(itertools.combinations_with_replacement(w1, 2))  # the two writers are interchangeable
    sets211 = [(rd, a, b) for rd in readers for (a, b) in wpairs]
    stores211 = ["kv"] if quick else list(TX.STORES)
    # (at SERIALIZABLE a reader that overlaps writers of its keys always aborts: thorough only)
    levels211 = ["SNAPSHOT_ISOLATION"] if quick else ["SERIALIZABLE", "SNAPSHOT_ISOLATION"]
    for store in stores211:
        for level in levels211:
            for ps in sets211:
                jobs.append(("txn-3x211", "tx", (store, level, [ps])))
    bounds["txn-3x211"] = {"transactions": 3, "programs": "reader: every 2-read program on x,y; two writers with "
                           "one write each (unordered)", "stores": stores211,
                           "levels": levels211,
                           "interleavings": "all merges of begin/ops/commit (4200 per program set)"}
    if not quick:
        w2 = [tuple(p) for p in itertools.product([("w", "x"), ("w", "y")], repeat=2)]
        sets221 = [(rd, a, b) for rd in readers for a in w2 for b in w1]
        for level in ("SERIALIZABLE", "SNAPSHOT_ISOLATION"):
            for ps in sets221:
                jobs.append(("txn-3x221", "tx", ("kv", level, [ps])))
        bounds["txn-3x221"] = {"transactions": 3, "programs": "reader: every 2-read program; one writer with two "
                               "writes, one writer with one write", "stores": ["kv"],
                               "levels": ["SERIALIZABLE", "SNAPSHOT_ISOLATION"],
                               "interleavings": "all merges (11550 per program set)"}

    # transactions as separate processes overlapping in simulated time (reads suspended across commits)
    osets = list(itertools.product(p2, repeat=2))
    ostores = ["kv", "btree"] if quick else list(TX.STORES)
    for store in ostores:
        for level in ("SERIALIZABLE", "SNAPSHOT_ISOLATION"):
            for ch in range(4):
                jobs.append(("txn-overlap", "txo", (store, level, osets[ch::4], 200_000)))
    bounds["txn-overlap"] = {"transactions": 2, "ops_per_txn": "<=2", "stores": ostores,
                             "levels": ["SERIALIZABLE", "SNAPSHOT_ISOLATION"],
                             "offsets": f"T1 at 0, T2 at 0,{TX.TX_GRID_NS},.. ns until lifetimes no longer overlap",
                             "program_sets": "ordered pairs"}
    if not quick:
        p3 = TX.txn_programs(3)
        sets23 = [s for s in itertools.combinations_with_replacement(p3, 2) if max(len(s[0]), len(s[1])) == 3]
        for level in lv:
            for ch in range(64):
                jobs.append(("txn-2x3", "tx", ("kv", level, sets23[ch::64])))
        bounds["txn-2x3"] = {"transactions": 2, "ops_per_txn": "<=3, at least one with 3", "stores": ["kv"],
                             "levels": lv, "interleavings": "all merges"}
    return jobs, bounds, notes


# ---------------------------------------------------------------------------
def _confirm(rep):
    """Re-execute a violating case from its replay data (no explorer) before reporting it."""
    buf = io.StringIO()
    try:
        with contextlib.redirect_stdout(buf):
            return replay({"replay": rep}) == 1
    except Exception:
        return True  # a crash while replaying is itself reproducible evidence of the crash fingerprints


def main(tier, seed, only=None):
    run = Run(PID, tier, seed, "model_checking",
              rule=("seq-*: states = distinct canonical (engine contents + dict) states, every one checked with the full "
                    "read image; non-trivial = state reached after an overwrite/delete of an already written key AND "
                    "at least one flush (LSM) / split (BTree). overlap*: one execution = one (engine, wal, prefix, "
                    "client programs, offsets) on the real Simulation; states = distinct observation logs; "
                    "non-trivial = a read was invoked or completed while a put/delete of another client was in "
                    "flight. txn-*: one execution = one interleaving; non-trivial = two transactions with a "
                    "read-write or write-write conflict on a key and overlapping lifetimes."),
              assumptions=[
                  "values are opaque to the engines (rank-compressed in the canonical state)",
                  "reads do not change engine contents (re-checked: canonical state is recomputed after every read image)",
                  "order of invocations/completions = order observed by the harness in the single-threaded run",
                  "Memtable write latency is the library default 10 us (not configurable through LSMTree); every other "
                  "latency is set to 10 or 20 us so that the 5 us offset grid is finer than all of them",
                  "two-client offset walk stops at the first execution without overlap (engines have no background "
                  "activity outside operations and do not depend on absolute time)",
              ])
    jobs, bounds, notes = plan(tier)
    run.notes.extend(notes)
    if only:
        jobs = [j for j in jobs if j[0] in only]
        run.notes.append(f"partial run: only={sorted(only)}")
    jobs = rotate(jobs, seed)
    t0 = time.time()
    results = pmap(_job, jobs)
    agg = {}
    for driver, kind, st in results:
        d = run.driver(driver, bounds.get(driver))
        a = agg.setdefault(driver, {"outcomes": set(), "images": 0, "shapes": 0, "unfinished": 0, "cap_hits": 0,
                                    "max_offset": 0, "aborts": 0, "reads_mutate": 0, "fallback": 0, "grid_ok": True})
        d.wall_s += st.get("wall", 0.0)
        for fp, (desc, rep) in st["viol"].items():
            if fp in run.violations or _confirm(rep):
                run.violation(fp, desc, rep)
            else:
                run.notes.append(f"violation {fp} did not reproduce from its replay data; dropped: {rep}")
        if kind == "seq":
            d.states += st["states"]
            d.transitions += st["transitions"]
            d.executions += st["transitions"]
            d.nontrivial += st["nontriv"]
            a["images"] += st["images"]
            a["shapes"] += st["shapes"]
            a["reads_mutate"] += st["reads_mutate"]
            a["fallback"] += int(st["canon_fallback"])
            d.outcomes += st["images"]
            if not st["exhaustive"]:
                d.exhaustive = False
                d.caps.extend(st["caps"])
            d.samples.extend(st["samples"][:1])
            d.extra.setdefault("frontier_sizes", {})[str(st["cfg"])] = st["levels"]
        elif kind == "sst":
            d.states += st["tables"]
            d.transitions += st["reads"]
            d.executions += st["tables"]
            d.nontrivial += st["nontriv"]
            d.outcomes += st["outcomes"]
        elif kind == "ov":
            d.transitions += st["ops"]
            d.executions += st["exec"]
            d.nontrivial += st["nontriv"]
            a["outcomes"] |= st["outcomes"]
            a["unfinished"] += st["unfinished"]
            a["cap_hits"] += st["cap_hits"]
            a["max_offset"] = max(a["max_offset"], st["max_offset"])
            if st["times"] - {0}:
                a["grid_ok"] = False
            d.samples.extend(st["samples"][:1])
        elif kind == "tx":
            d.transitions += st["steps"]
            d.executions += st["exec"]
            d.nontrivial += st["nontriv"]
            a["outcomes"] |= st["outcomes"]
            a["unfinished"] += st["unfinished"]
            a["aborts"] += st["aborts"]
            a["cap_hits"] += st.get("cap_hits", 0)
            d.samples.extend(st["samples"][:1])
    for driver, a in agg.items():
        d = run.drivers[driver]
        d.extra["wall_s_is"] = "summed worker CPU seconds (all drivers share one fork pool)"
        if a["outcomes"]:
            d.states = len(a["outcomes"])
            d.outcomes = len(a["outcomes"])
        if driver.startswith("seq"):
            d.extra["distinct_dict_images"] = a["images"]
            d.extra["distinct_public_shapes"] = a["shapes"]
            d.extra["states_where_reading_changed_the_canon"] = a["reads_mutate"]
            if a["reads_mutate"]:
                d.exhaustive = False
                d.caps.append("reads changed the canonical state; read moves are not interleaved as BFS moves")
            if a["fallback"]:
                d.extra["canon_fallback_to_trace"] = a["fallback"]
        if driver.startswith("overlap"):
            d.extra["executions_not_finished_at_horizon"] = a["unfinished"]
            d.extra["max_offset_walked_ns"] = a["max_offset"]
            d.extra["all_op_start_times_on_grid"] = a["grid_ok"]
            if a["cap_hits"]:
                d.exhaustive = False
                d.caps.append(f"offset walk hit the cap in {a['cap_hits']} program sets")
            if a["unfinished"]:
                d.exhaustive = False
                d.caps.append(f"{a['unfinished']} executions reached the event horizon")
        if driver.startswith("txn"):
            d.extra["aborted_commits"] = a["aborts"]
            d.extra["unfinished"] = a["unfinished"]
            if a["cap_hits"]:
                d.exhaustive = False
                d.caps.append(f"offset walk hit the cap in {a['cap_hits']} program sets")
    run.notes.append(f"pool wall for all jobs: {time.time() - t0:.1f}s over {len(jobs)} jobs")
    return run.finish()


def replay(data):
    rep = data["replay"]
    drv = rep.get("driver")
    if drv == "seq":
        return SQ.replay_seq(rep)
    if drv == "sstable":
        return SQ.replay_sstable(rep)
    if drv == "overlap":
        return OV.replay_overlap(rep)
    if drv == "txn":
        return TX.replay_txn(rep)
    if drv == "txn-overlap":
        return TX.replay_txn_overlap(rep)
    print(f"unknown replay driver {drv!r}")
    return 0

"""C08 group 1 — queue policies as data structures.

Every sequence of push / pop / peek (/ tick / purge) operations up to a depth,
over a tiny item alphabet, is applied to the REAL policy object; a list-based
reference model is stepped in lock-step and an oracle runs after every
operation:

  order      the popped item is the one the policy documents (FIFO, LIFO, stable
             priority, deadline with expiry, adaptive LIFO, per-flow FIFO +
             (weighted) round-robin share)
  capacity   len(policy) <= policy.capacity
  conserve   accepted pushes = pops + drops + held   (observed AND through the
             policy's public ``stats`` where it has them); nothing popped that
             was not accepted, nothing popped twice, pop() is None only when
             nothing (valid) is held
  counted    rejection / drop counters equal the rejections / drops observed

Only public API is used (push/pop/peek/len/is_empty/capacity/stats/...).
Snapshots for the depth-first enumeration are pickles of (policy, clock, ref).
"""
from __future__ import annotations

import pickle
import random as _random

from mc.evidence import digest
from mc.harness import Instant  # noqa: F401  (also sets VERIF_REPO import root)

from happysimulator.components.industrial.balking import BalkingQueue
from happysimulator.components.queue_policies import (
    AdaptiveLIFO,
    CoDelQueue,
    DeadlineQueue,
    FairQueue,
    REDQueue,
    WeightedFairQueue,
)
from happysimulator.components.queue_policy import FIFOQueue, LIFOQueue, PriorityQueue

SEC = 1_000_000_000
INF = float("inf")


# ---------------------------------------------------------------------------
# items, clock, key functions (module level: picklable by reference)
# ---------------------------------------------------------------------------
class Item:
    __slots__ = ("id", "a", "deadline_ns")

    def __init__(self, id_, a, deadline_ns=0):
        self.id = id_
        self.a = a  # priority / flow / relative deadline, by policy kind
        self.deadline_ns = deadline_ns

    def __getstate__(self):
        return (self.id, self.a, self.deadline_ns)

    def __setstate__(self, s):
        self.id, self.a, self.deadline_ns = s

    def __repr__(self):
        return f"#{self.id}({self.a})"


class PItem(Item):
    """Item that knows its own priority (``Prioritized`` protocol)."""

    __slots__ = ()

    @property
    def priority(self):
        return float(self.a)


class Clk:
    def __init__(self):
        self.t = 0

    def __call__(self):
        return Instant(self.t)


def key_prio(item):
    return item.a


def key_deadline(item):
    return Instant(item.deadline_ns)


def key_flow(item):
    return item.a


WEIGHTS = {"a": 2, "b": 1, "c": 1}


def flow_weight(flow_id):
    return WEIGHTS[flow_id]


class Script:
    """Owner of ``random.random()`` answers (the op label carries the answer)."""

    ans = 0.0


def _scripted_random():
    return Script.ans


# ---------------------------------------------------------------------------
# configurations: name -> (kind, factory(clk), push attribute alphabet, extra ops, params)
# ---------------------------------------------------------------------------
RAND = (0.0, 0.999999)


def _configs():
    c = {}
    c["FIFO-cap2"] = ("fifo", lambda k: FIFOQueue(capacity=2), ("x",), (), {})
    c["LIFO-cap2"] = ("lifo", lambda k: LIFOQueue(capacity=2), ("x",), (), {})
    c["Priority-key-cap3"] = ("prio", lambda k: PriorityQueue(capacity=3, key=key_prio), (0, 1), (), {})
    c["Priority-protocol"] = ("prio", lambda k: PriorityQueue(), (0, 1), (), {"item": "P"})
    c["Deadline-cap3"] = ("deadline", lambda k: DeadlineQueue(get_deadline=key_deadline, capacity=3, clock_func=k),
                          (0, 2), ("tick", "purge"), {})
    c["Fair-2flows-per2"] = ("fair", lambda k: FairQueue(get_flow_id=key_flow, max_flows=2, per_flow_capacity=2),
                             ("a", "b"), (), {"weights": {"a": 1, "b": 1, "c": 1}})
    c["Fair-3flows-max2"] = ("fair", lambda k: FairQueue(get_flow_id=key_flow, max_flows=2, per_flow_capacity=1),
                             ("a", "b", "c"), (), {"weights": {"a": 1, "b": 1, "c": 1}})
    c["WeightedFair-cap3"] = ("fair", lambda k: WeightedFairQueue(get_flow_id=key_flow, get_weight=flow_weight,
                                                                 capacity=3, per_flow_capacity=2),
                              ("a", "b"), (), {"weights": WEIGHTS})
    c["WeightedFair-3flows"] = ("fair", lambda k: WeightedFairQueue(get_flow_id=key_flow, get_weight=flow_weight),
                                ("a", "b", "c"), (), {"weights": WEIGHTS})
    # two flows (weights 2 and 1), unbounded: small alphabet, so the quick tier reaches the depth at which a
    # flow has spent its credits while it and another flow are still backlogged (push x4, pop x2, peek, pop)
    c["WeightedFair-2flows"] = ("fair", lambda k: WeightedFairQueue(get_flow_id=key_flow, get_weight=flow_weight),
                                ("a", "b"), (), {"weights": WEIGHTS, "min_depth": 8})
    c["AdaptiveLIFO-thr2-cap3"] = ("adaptive", lambda k: AdaptiveLIFO(congestion_threshold=2, capacity=3),
                                   ("x",), (), {"thr": 2})
    c["CoDel-cap4"] = ("codel", lambda k: CoDelQueue(target_delay=1.0, interval=1.0, capacity=4, clock_func=k),
                       ("x",), ("tick",), {})
    # persistent congestion: 5 items are queued at t=0 before the enumerated operations start (pushed through the
    # real push(), so they are in the reference too).  With target = interval = 1 tick the sequence
    # tick,pop / tick,pop / tick,pop reaches: sojourn above target -> a whole interval above -> DROPPING state
    # (first drop) -> the next pop at drop_next = entry + interval/sqrt(1) -> a SECOND drop in the same episode
    c["CoDel-backlog5"] = ("codel", lambda k: CoDelQueue(target_delay=1.0, interval=1.0, capacity=6, clock_func=k),
                           ("x",), ("tick",), {"prefill": 5})
    c["RED-1-3-cap3"] = ("red", lambda k: REDQueue(min_threshold=1, max_threshold=3, max_probability=0.5,
                                                  capacity=3, weight=0.5),
                         ("x",), (), {"rand": True})
    c["Balking-FIFO-thr1-p.5"] = ("balk-fifo", lambda k: BalkingQueue(FIFOQueue(), balk_threshold=1,
                                                                      balk_probability=0.5),
                                  ("x",), (), {"rand": True, "exact_balk": True})
    c["Balking-LIFO-cap2-thr2"] = ("balk-lifo", lambda k: BalkingQueue(LIFOQueue(capacity=2), balk_threshold=2,
                                                                       balk_probability=1.0),
                                   ("x",), (), {"rand": True})
    return c


CONFIGS = _configs()


def alphabet(name):
    kind, _f, attrs, extra, params = CONFIGS[name]
    ops = []
    for a in attrs:
        if params.get("rand"):
            ops += [("push", a, r) for r in RAND]
        else:
            ops.append(("push", a))
    ops += [("pop",), ("peek",)]
    ops += [(e,) for e in extra]
    return ops


def describe(name):
    w = World(name)
    return f"{type(w.pol).__name__}(capacity={w.pol.capacity})"


def depth_for(name, budget):
    n = len(alphabet(name))
    d, tot = 0, 1
    while tot + n ** (d + 1) <= budget:
        d += 1
        tot += n ** d
    return max(d, CONFIGS[name][4].get("min_depth", 0))


# ---------------------------------------------------------------------------
# world = real policy + clock + reference model + ghost counters
# ---------------------------------------------------------------------------
class World:
    def __init__(self, name):
        kind, factory, _attrs, _extra, params = CONFIGS[name]
        self.name = name
        self.kind = kind
        self.params = params
        self.clk = Clk()
        self.pol = factory(self.clk)
        self.held = []  # accepted, not yet popped/dropped, in push order
        self.gone = set()  # ids popped or dropped
        self.next_id = 0
        self.accepted = 0
        self.rejected = 0
        self.popped = 0
        self.dropped = 0
        self.purged = 0
        self.since = {}  # fairness ghost: flow f -> {flow g: served while f backlogged and unserved}
        self.peeked = None  # (item or None,) seen by a peek() with no operation since
        # fair kinds: set of possible round-robin states ((flow, credits), ...) - see _rr_pop
        self.rr = {()}
        self.sig = ()  # outcome signature of the path: rejections, pop ranks, drops
        self.nontrivial = False
        for _ in range(params.get("prefill", 0)):
            self.apply(("push", _attrs[0]))
        self.nontrivial = False

    # -- public-stats accessors (None when the policy has no such statistic) --
    def _stats(self):
        st = getattr(self.pol, "stats", None)
        k = self.kind
        if k == "adaptive":
            return dict(enq=st.enqueued, deq=st.dequeued_fifo + st.dequeued_lifo, drop=0, rej=st.capacity_rejected)
        if k == "codel":
            return dict(enq=st.enqueued, deq=st.dequeued, drop=st.dropped, rej=st.capacity_rejected)
        if k == "deadline":
            return dict(enq=st.enqueued, deq=st.dequeued, drop=st.expired, rej=st.capacity_rejected)
        if k == "fair":
            if hasattr(st, "rejected_capacity"):
                rej = st.rejected_capacity
            else:
                rej = st.rejected_flow_capacity + st.rejected_max_flows
            return dict(enq=st.enqueued, deq=st.dequeued, drop=0, rej=rej)
        if k == "red":
            return dict(enq=st.enqueued, deq=st.dequeued, drop=0,
                        rej=st.dropped_probabilistic + st.dropped_forced + st.capacity_rejected)
        return None

    def _drop_counter(self):
        s = self._stats()
        return s["drop"] if s else 0

    def describe(self):
        return (f"t={self.clk.t // SEC}s held={self.held} len={len(self.pol)} accepted={self.accepted} "
                f"rejected={self.rejected} popped={self.popped} dropped={self.dropped}")

    # -- one operation on the real policy + oracle --------------------------
    def apply(self, op):
        v = []
        C = self.name.split("-")[0]
        pol = self.pol
        kind = self.kind
        now = self.clk.t
        if op[0] == "push":
            a = op[1]
            if len(op) > 2:
                Script.ans = op[2]
            cls = PItem if self.params.get("item") == "P" else Item
            it = cls(self.next_id, a, now + (a * SEC if kind == "deadline" else 0))
            self.next_id += 1
            res = pol.push(it)
            self.peeked = None
            if res is True:
                if kind == "fair" and None not in self.rr and not any(h.a == a for h in self.held):
                    w = max(1, self.params["weights"][a])
                    self.rr = {st + ((a, w),) for st in self.rr}  # a new flow joins the end of the round
                self.held.append(it)
                self.accepted += 1
                if kind == "fair" and sum(1 for h in self.held if h.a == a) == 1:
                    self.since[a] = {}
            else:
                self.rejected += 1
                self.nontrivial = True
                self.sig += ("R",)
        elif op[0] == "pop":
            before_drop = self._drop_counter()
            n_held = len(self.held)
            got = pol.pop()
            ndrop = self._drop_counter() - before_drop
            if self.peeked is not None and self.peeked[0] is not got:
                # QueuePolicy.peek: "Return the next item without removing it ... the next item according to the
                # policy"; consumers (Queue.dispatch_guard) decide on the peeked item and then pop
                v.append((f"{C}/order/peek-is-not-next-pop",
                          f"peek() named {self.peeked[0]!r} as the next item, the pop() right after it returned "
                          f"{got!r} (held in push order: {self.held})"))
            self.peeked = None
            if kind == "fair" and None not in self.rr and got is not None and any(got is h for h in self.held):
                v += self._rr_pop(C, got)
            v += self._check_pop(C, got, ndrop, now)
            if n_held >= 2 or ndrop:
                self.nontrivial = True
        elif op[0] == "peek":
            got = pol.peek()
            self.peeked = (got,)
            if got is not None and not any(got is h for h in self.held):
                v.append((f"{C}/conserve/peek-returns-item-not-held",
                          f"peek() returned {got!r} which is not held (held={self.held})"))
        elif op[0] == "tick":
            self.peeked = None
            self.clk.t += SEC
        elif op[0] == "purge":
            self.peeked = None
            n = pol.purge_expired()
            exp = [h for h in self.held if h.deadline_ns < self.clk.t]
            if n != len(exp):
                v.append((f"{C}/counted/purge-count",
                          f"purge_expired() returned {n}, {len(exp)} held items were expired"))
            for h in exp:
                self.held.remove(h)
                self.gone.add(h.id)
            self.dropped += len(exp)
            self.sig += (("g", n),)
        else:
            raise AssertionError(op)
        v += self._check_invariants(C)
        return v

    def _expected(self, now):
        """Items the documented order allows as the next pop (list; empty = nothing valid)."""
        h = self.held
        k = self.kind
        if not h:
            return []
        if k in ("fifo", "codel", "red", "balk-fifo"):
            return [h[0]]
        if k in ("lifo", "balk-lifo"):
            return [h[-1]]
        if k == "prio":
            return [min(h, key=lambda i: (i.a, i.id))]
        if k == "deadline":
            valid = [i for i in h if i.deadline_ns >= now]
            return [min(valid, key=lambda i: (i.deadline_ns, i.id))] if valid else []
        if k == "adaptive":
            thr = self.params["thr"]
            if len(h) > thr:
                return [h[-1]]
            if len(h) < thr:
                return [h[0]]
            return [h[0], h[-1]] if len(h) > 1 else [h[0]]  # the boundary is documented both ways
        if k == "fair":
            heads = {}
            for i in h:
                heads.setdefault(i.a, i)
            return list(heads.values())  # per-flow FIFO; the share bound is checked separately
        raise AssertionError(k)

    def _rr_pop(self, C, got):
        """Exact reference of the documented (weighted) round robin: flows are visited in round order, a
        flow is served up to ``weight`` items per visit (its credits), then goes to the back of the round with
        fresh credits; a new flow joins the back; an emptied flow leaves (and later re-joins as new).  The
        docstrings do not say WHEN a flow that has just spent its last credit gives up the front - at once or
        when the next pop finds it without credits - which only matters for a flow created in between.  Both
        readings are kept as possible states; the pop must agree with at least one."""
        left = {}
        for h in self.held:
            left.setdefault(h.a, []).append(h)
        nxt = set()
        for st in self.rr:
            st = list(st)
            while st and st[0][1] == 0:  # lazily rotated flow: refill, go to the back
                f, _c = st.pop(0)
                st.append((f, max(1, self.params["weights"][f])))
            if not st or st[0][0] != got.a or left[got.a][0] is not got:
                continue
            f, c = st[0]
            if len(left[f]) == 1:
                nxt.add(tuple(st[1:]))  # flow emptied: leaves the round
            elif c - 1 > 0:
                nxt.add(tuple([(f, c - 1)] + st[1:]))
            else:
                w = max(1, self.params["weights"][f])
                nxt.add(tuple(st[1:] + [(f, w)]))  # gives up the front at once
                nxt.add(tuple([(f, 0)] + st[1:]))  # ... or when the next pop finds it without credits
        if not nxt:
            v = [(f"{C}/order/not-round-robin",
                  f"pop() served {got!r}; no reading of the documented round robin allows it here: possible "
                  f"(flow, credits) rounds were {sorted(self.rr)} (held in push order: {self.held})")]
            self.rr = {None}  # reference lost: stay silent for the rest of this sequence
            return v
        self.rr = nxt
        return []

    def _check_pop(self, C, got, ndrop, now):
        v = []
        exp = self._expected(now)
        if got is None:
            self.sig += (("p", None, ndrop),)
            if exp:
                v.append((f"{C}/conserve/pop-none-while-held",
                          f"pop() returned None although {exp} is held and valid (held={self.held})"))
            if self.kind == "deadline":
                # everything held was expired and has been dropped by this pop
                if ndrop != len(self.held) and not exp:
                    pass  # items may stay until purged; the identity check below decides
                dropped = sorted(self.held, key=lambda i: (i.deadline_ns, i.id))[:ndrop]
                for d in dropped:
                    self.held.remove(d)
                    self.gone.add(d.id)
                self.dropped += ndrop
            return v
        if not any(got is h for h in self.held):
            what = "again" if getattr(got, "id", None) in self.gone else "although it was never accepted"
            v.append((f"{C}/conserve/pop-returns-item-not-held", f"pop() returned {got!r} {what} (held={self.held})"))
            self.sig += (("p", "?", ndrop),)
            return v
        rank = next(i for i, h in enumerate(self.held) if h is got)
        self.sig += (("p", rank, ndrop),)
        if self.kind == "deadline":
            # expired items (all earlier deadlines) are dropped before the valid one is returned
            dropped = [i for i in sorted(self.held, key=lambda i: (i.deadline_ns, i.id)) if i is not got][:ndrop]
            bad = [d for d in dropped if d.deadline_ns >= now]
            if bad:
                v.append((f"{C}/conserve/dropped-unexpired",
                          f"pop() at t={now // SEC}s counted {ndrop} expired but {bad} had not expired"))
            if got.deadline_ns < now:
                v.append((f"{C}/order/expired-item-served",
                          f"pop() at t={now // SEC}s returned {got!r} whose deadline {got.deadline_ns // SEC}s passed"))
            for d in dropped:
                self.held.remove(d)
                self.gone.add(d.id)
            self.dropped += ndrop
            exp = self._expected(now) or [got]
        if not any(got is e for e in exp):
            tie = ""
            if self.kind in ("prio", "deadline") and exp:
                e = exp[0]
                same = (e.a == got.a) if self.kind == "prio" else (e.deadline_ns == got.deadline_ns)
                tie = "/unstable-tie" if same else ""
            v.append((f"{C}/order/wrong-item{tie}",
                      f"pop() returned {got!r}, the policy defines {exp} (held in push order: {self.held})"))
        if self.kind == "fair":
            w = self.params["weights"]
            g = got.a
            for f, cnt in self.since.items():
                if f == g:
                    continue
                cnt[g] = cnt.get(g, 0) + 1
                if cnt[g] > max(1, w[g]):
                    v.append((f"{C}/order/fair-share-exceeded",
                              f"flow {g!r} (weight {w[g]}) was served {cnt[g]} times while flow {f!r} "
                              f"stayed backlogged and unserved"))
            self.since[g] = {}
        self.held.remove(got)
        self.gone.add(got.id)
        self.popped += 1
        if self.kind == "fair" and not any(h.a == got.a for h in self.held):
            self.since.pop(got.a, None)
        if self.kind == "codel" and ndrop:
            # head-of-line drops
            for d in self.held[:ndrop]:
                self.gone.add(d.id)
            del self.held[:ndrop]
            self.dropped += ndrop
        return v

    def _check_invariants(self, C):
        v = []
        pol = self.pol
        n = len(pol)
        if n > pol.capacity:
            v.append((f"{C}/capacity/exceeded", f"len(policy)={n} > capacity={pol.capacity}"))
        if n != len(self.held):
            v.append((f"{C}/conserve/held-count",
                      f"len(policy)={n} but accepted-popped-dropped leaves {len(self.held)} "
                      f"(accepted={self.accepted} popped={self.popped} dropped={self.dropped})"))
        if pol.is_empty() != (n == 0):
            v.append((f"{C}/conserve/is-empty", f"is_empty()={pol.is_empty()} with len={n}"))
        st = self._stats()
        if st is not None:
            if st["enq"] != st["deq"] + st["drop"] + n:
                v.append((f"{C}/counted/identity",
                          f"stats: enqueued={st['enq']} != dequeued={st['deq']} + dropped={st['drop']} + held={n}"))
            if st["enq"] != self.accepted or st["deq"] != self.popped:
                v.append((f"{C}/counted/stats-vs-observed",
                          f"stats enqueued={st['enq']} dequeued={st['deq']} but {self.accepted} pushes were "
                          f"accepted and {self.popped} items popped"))
            if st["rej"] != self.rejected:
                v.append((f"{C}/counted/rejections",
                          f"stats count {st['rej']} rejections, {self.rejected} pushes returned False"))
        if self.params.get("exact_balk") and pol.balked != self.rejected:
            v.append((f"{C}/counted/rejections", f"balked={pol.balked}, {self.rejected} pushes returned False"))
        return v

    def state_key(self):
        base = self.held[0].id if self.held else 0
        return (tuple((h.id - base, h.a, h.deadline_ns - self.clk.t) for h in self.held),
                tuple(sorted((f, tuple(sorted(c.items()))) for f, c in self.since.items())),
                tuple(sorted(map(repr, self.rr))))


# ---------------------------------------------------------------------------
# enumeration
# ---------------------------------------------------------------------------
def _dfs(name, depth, prefix, stats, count_from):
    ops = alphabet(name)
    w = World(name)
    path = []
    for i, op in enumerate(prefix):
        viol = w.apply(op)
        path.append(op)
        if i + 1 > count_from:
            _account(stats, w, path, viol)
    stack = [(pickle.dumps(w, protocol=pickle.HIGHEST_PROTOCOL), tuple(path))]
    while stack:
        blob, path = stack.pop()
        if len(path) >= depth:
            continue
        for op in ops:
            w2 = pickle.loads(blob)
            viol = w2.apply(op)
            p2 = path + (op,)
            _account(stats, w2, p2, viol)
            if len(p2) < depth:
                stack.append((pickle.dumps(w2, protocol=pickle.HIGHEST_PROTOCOL), p2))


def _account(stats, w, path, viol):
    stats["nodes"] += 1
    stats["states"].add(digest(w.state_key()))
    stats["outcomes"].add(digest(w.sig))
    if w.nontrivial:
        stats["nontriv"] += 1
    for fp, desc in viol:
        if fp not in stats["viol"] or len(path) < len(stats["viol"][fp][1]["ops"]):
            stats["viol"][fp] = (desc, {"driver": "policy", "config": w.name, "ops": list(path)})
    if len(stats["samples"]) < 1 and w.nontrivial and len(path) >= 4:
        stats["samples"].append({"config": w.name, "ops": list(path), "result_signature": list(w.sig)})


def work(job):
    name, depth, prefix, count_from = job
    saved = _random.random
    _random.random = _scripted_random
    try:
        stats = {"nodes": 0, "states": set(), "outcomes": set(), "nontriv": 0, "viol": {}, "samples": []}
        _dfs(name, depth, prefix, stats, count_from)
    finally:
        _random.random = saved
    return name, stats


def jobs_for(name, depth, split=2):
    """Independent sub-spaces: one root job (all sequences shorter than ``split``) + one job per
    prefix of length ``split``."""
    ops = alphabet(name)
    split = min(split, depth)
    jobs = [(name, split - 1, (), 0)] if split >= 1 else []
    prefixes = [()]
    for _ in range(split):
        prefixes = [p + (o,) for p in prefixes for o in ops]
    for p in prefixes:
        jobs.append((name, depth, p, len(p) - 1))
    return jobs


def replay(config, ops):
    saved = _random.random
    _random.random = _scripted_random
    out = []
    try:
        w = World(config)
        print(f"policy config {config}: {type(w.pol).__name__} capacity={w.pol.capacity}")
        for i, op in enumerate(ops):
            op = tuple(op)
            viol = w.apply(op)
            print(f"  step {i}: {op} -> {w.describe()}")
            for fp, d in viol:
                print(f"    !! {fp}: {d}")
            out += viol
    finally:
        _random.random = saved
    return out

"""C07 registry: rate limiters (RateLimitedEntity x every policy, Inductor, NullRateLimiter,
DistributedRateLimiter over a shared KVStore)."""
from __future__ import annotations

from props.c07_core import Backend, Drv, P, R

from happysimulator.components.datastore import KVStore
from happysimulator.components.rate_limiter import (AdaptivePolicy, DistributedRateLimiter, FixedWindowPolicy,
                                                    Inductor, LeakyBucketPolicy, NullRateLimiter, RateLimitedEntity,
                                                    SlidingWindowPolicy, TokenBucketPolicy)


class _RLDrv(Drv):
    family = "rate_limiter"
    ops = ("request",)

    def policy(self):
        raise NotImplementedError

    def build(self, cfg):
        self.backend = Backend("backend", cfg.L, self.h.out)
        self.rl = RateLimitedEntity("rl", downstream=self.backend, policy=self.policy(), queue_capacity=2)
        return [self.rl, self.backend]

    def request(self, i, op):
        return [self.h.ev(self.rl, "Request", {"metadata": {"i": i}})]


class RateLimitedTokenBucketDrv(_RLDrv):
    covers = ("RateLimitedEntity", "TokenBucketPolicy")

    def policy(self):
        return TokenBucketPolicy(capacity=1.0, refill_rate=R(2.0))


class RateLimitedLeakyBucketDrv(_RLDrv):
    covers = ("RateLimitedEntity", "LeakyBucketPolicy")

    def policy(self):
        return LeakyBucketPolicy(leak_rate=R(2.0))


class RateLimitedSlidingWindowDrv(_RLDrv):
    covers = ("RateLimitedEntity", "SlidingWindowPolicy")

    def policy(self):
        return SlidingWindowPolicy(window_size_seconds=P(1.0), max_requests=1)


class RateLimitedFixedWindowDrv(_RLDrv):
    covers = ("RateLimitedEntity", "FixedWindowPolicy")

    def policy(self):
        return FixedWindowPolicy(requests_per_window=1, window_size=P(0.5))


class RateLimitedAdaptiveDrv(_RLDrv):
    covers = ("RateLimitedEntity", "AdaptivePolicy")
    ops = ("request", "request_fail")

    def policy(self):
        self.pol = AdaptivePolicy(initial_rate=R(2.0), min_rate=R(1.0), max_rate=R(4.0), window_size=P(0.5))
        return self.pol

    def request(self, i, op):
        if op == "request_fail":
            self.pol.record_failure(self.h.now)
        else:
            self.pol.record_success(self.h.now)
        return [self.h.ev(self.rl, "Request", {"metadata": {"i": i}})]


class InductorDrv(Drv):
    family = "rate_limiter"
    covers = ("Inductor",)
    ops = ("request",)

    def build(self, cfg):
        self.backend = Backend("backend", cfg.L, self.h.out)
        self.ind = Inductor("inductor", downstream=self.backend, time_constant=P(1.0), queue_capacity=2)
        return [self.ind, self.backend]

    def request(self, i, op):
        return [self.h.ev(self.ind, "Request", {"metadata": {"i": i}})]


class NullRateLimiterDrv(Drv):
    family = "rate_limiter"
    covers = ("NullRateLimiter",)
    ops = ("request",)

    def build(self, cfg):
        self.backend = Backend("backend", cfg.L, self.h.out)
        self.rl = NullRateLimiter("null", downstream=self.backend)
        return [self.rl, self.backend]

    def request(self, i, op):
        return [self.h.ev(self.rl, "Request", {"metadata": {"i": i}})]


class DistributedRateLimiterDrv(Drv):
    """Two limiter instances sharing one KVStore (store latency = cfg.L), global limit 2 per 1 s window."""
    family = "rate_limiter"
    covers = ("DistributedRateLimiter",)
    ops = ("via_a", "via_b")

    def build(self, cfg):
        self.store = KVStore("store", read_latency=cfg.L / 2, write_latency=cfg.L / 2)
        self.a = DistributedRateLimiter("rl-a", downstream=self.h.out, backing_store=self.store, global_limit=2,
                                        window_size=P(1.0))
        self.b = DistributedRateLimiter("rl-b", downstream=self.h.out, backing_store=self.store, global_limit=2,
                                        window_size=P(1.0))
        return [self.store, self.a, self.b]

    def request(self, i, op):
        return [self.h.ev(self.a if op == "via_a" else self.b, "Request", {"metadata": {"i": i}})]


DRIVERS = [RateLimitedTokenBucketDrv, RateLimitedLeakyBucketDrv, RateLimitedSlidingWindowDrv,
           RateLimitedFixedWindowDrv, RateLimitedAdaptiveDrv, InductorDrv, NullRateLimiterDrv,
           DistributedRateLimiterDrv]

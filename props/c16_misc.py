"""C16 small drivers: write-policy bookkeeping objects, PageCache operation sequences."""
from __future__ import annotations

import itertools
import pickle
import time

from mc.evidence import digest

from props.c16_common import NS, Entity, Instant, Simulation, run_guarded, start_event

from happysimulator.components.datastore.write_policies import WriteAround, WriteBack, WriteThrough
from happysimulator.components.infrastructure.page_cache import PageCache


# ---------------------------------------------------------------------------
# write policies (pure bookkeeping objects): every sequence of calls up to a depth
# ---------------------------------------------------------------------------
def wpol_job(depth):
    t0 = time.time()
    stats = {"executions": 0, "transitions": 0, "nontrivial": 0, "outcomes": set(), "viol": {}, "samples": []}
    ops = [("w", "a"), ("w", "b"), ("w", "c"), ("flush-all",), ("flush-one", "a"), ("flush-one", "b"), ("drain",)]
    for seq in itertools.product(ops, repeat=depth):
        for name in ("WriteBack", "WriteAround", "WriteThrough"):
            pol = {"WriteBack": lambda: WriteBack(flush_interval=1.0, max_dirty=2),
                   "WriteAround": WriteAround, "WriteThrough": WriteThrough}[name]()
            unflushed, uninvalidated = set(), []
            trace = []
            bad = None
            for op in seq:
                stats["transitions"] += 1
                if op[0] == "w":
                    if name == "WriteThrough" and not pol.should_write_through():
                        bad = ("WriteThrough/not-written-through", "should_write_through() is False")
                    pol.on_write(op[1], 1)
                    if not pol.should_write_through():
                        unflushed.add(op[1])
                    if name == "WriteAround":
                        uninvalidated.append(op[1])
                elif op[0] == "flush-all":
                    keys = pol.get_keys_to_flush()
                    pol.on_flush(keys)
                    unflushed -= set(keys)
                elif op[0] == "flush-one":
                    if op[1] in pol.get_keys_to_flush():
                        pol.on_flush([op[1]])
                        unflushed.discard(op[1])
                elif op[0] == "drain" and name == "WriteAround":
                    got = pol.get_keys_to_invalidate()
                    missing = [k for k in set(uninvalidated) if k not in got]
                    if missing:
                        bad = ("WriteAround/written-key-not-invalidated",
                               f"keys {missing} written since the last drain are not in get_keys_to_invalidate()={got}")
                    uninvalidated = []
                trace.append(op)
                # write-back data is never discarded before it reaches the backing store: a written key
                # stays in get_keys_to_flush() until on_flush() reported it written
                lost = sorted(unflushed - set(pol.get_keys_to_flush()))
                if lost and bad is None:
                    bad = (f"{name}/dirty-discarded/bookkeeping",
                           f"keys {lost} were written and never flushed but get_keys_to_flush()="
                           f"{pol.get_keys_to_flush()}")
                if bad:
                    break
            stats["executions"] += 1
            if name == "WriteBack" and len(unflushed) >= 2:
                stats["nontrivial"] += 1
            stats["outcomes"].add((name, tuple(sorted(unflushed)), tuple(sorted(pol.get_keys_to_flush()))))
            if bad and bad[0] not in stats["viol"]:
                stats["viol"][bad[0]] = (f"{name} after calls {trace}: {bad[1]}",
                                         {"driver": "wpol", "policy": name, "calls": trace})
    stats["outcomes"] = len(stats["outcomes"])
    stats["wall"] = time.time() - t0
    return stats


def replay_wpol(rep):
    # the sequences are tiny: re-run the whole depth and look for the fingerprint
    st = wpol_job(len(rep["calls"]))
    for fp, (desc, _r) in st["viol"].items():
        print(f"    !! {fp}: {desc}")
    return list(st["viol"])


# ---------------------------------------------------------------------------
# PageCache: all operation sequences (BFS, canonical-state dedup), each op inside a real Simulation
# ---------------------------------------------------------------------------
class PCClient(Entity):
    def __init__(self, pc):
        super().__init__("client")
        self.pc = pc
        self.done = False

    def handle_event(self, event):
        return self._run(event.context["metadata"]["ops"][0])

    def _run(self, op):
        if op[0] == "read":
            yield from self.pc.read_page(op[1])
        elif op[0] == "write":
            yield from self.pc.write_page(op[1])
        else:
            yield from self.pc.flush()
        self.done = True
        return None


class PCWorld:
    def __init__(self, cfg):
        self.cfg = cfg
        self.pc = PageCache("pc", capacity_pages=cfg["cap"], readahead_pages=cfg["ra"],
                            disk_read_latency_s=2.0, disk_write_latency_s=3.0)
        self.flag = {}  # harness belief: page is resident and dirty
        self.episodes = 0  # lower bound on the number of "page became dirty" episodes
        self.now = 0
        self.depth = 0
        self.dead = False
        self.pending = []
        self.last = None

    def enabled(self):
        pages = range(self.cfg["pages"])
        return [("read", p) for p in pages] + [("write", p) for p in pages] + [("flush",)]

    def within(self):
        return not self.dead and self.depth < self.cfg["depth"]

    def check(self):
        out, self.pending = self.pending, []
        return out

    def apply(self, lab):
        lab = tuple(lab)
        pc = self.pc
        s0 = pc.stats
        cl = PCClient(pc)
        sim = Simulation(start_time=Instant(self.now), entities=[cl, pc])
        sim.schedule(start_event(cl, self.now, [lab]))
        err = None
        try:
            run_guarded(sim, max_events=400)
        except Exception as exc:  # noqa: BLE001
            err = exc
        self.depth += 1
        s1 = pc.stats
        self.last = {"op": lab, "finished": err is None and cl.done, "evicted": s1.evictions - s0.evictions,
                     "writebacks": s1.dirty_writebacks - s0.dirty_writebacks}
        if not self.last["finished"]:
            self.dead = True
            return
        self.now = cl.now.nanoseconds + NS
        viol = []
        hit = s1.hits > s0.hits
        if lab[0] == "write":
            if not hit or not self.flag.get(lab[1]):
                self.episodes += 1
            self.flag[lab[1]] = True
        elif lab[0] == "read":
            if not hit:
                self.flag[lab[1]] = False
        else:
            self.flag = {}
        cap = self.cfg["cap"]
        if pc.pages_cached > cap:
            viol.append(("PageCache/capacity-exceeded/sequential",
                         f"PageCache(cap={cap},readahead={self.cfg['ra']}) after {lab}: pages_cached={pc.pages_cached}"))
        if s1.dirty_writebacks + pc.dirty_pages < self.episodes:
            viol.append(("PageCache/dirty-discarded/sequential",
                         f"PageCache(cap={cap},readahead={self.cfg['ra']}) after {lab}: at least {self.episodes} times "
                         f"a page became dirty, but dirty_writebacks={s1.dirty_writebacks} + dirty_pages="
                         f"{pc.dirty_pages}: a dirty page left the cache without being written back"))
            self.episodes = s1.dirty_writebacks + pc.dirty_pages
        self.pending = viol

    def canon(self):
        pc = self.pc
        slack = pc.stats.dirty_writebacks + pc.dirty_pages - self.episodes
        try:
            pages = tuple((i, p.dirty) for i, p in pc._pages.items())
        except AttributeError:
            pages = repr(sorted((k, repr(v)) for k, v in vars(pc).items() if k != "_clock"))
        return (pages, tuple(sorted(self.flag.items())), slack, self.dead)

    def describe(self):
        return f"pages_cached={self.pc.pages_cached} dirty_pages={self.pc.dirty_pages} stats={self.pc.stats}"


def pc_job(cfg):
    t0 = time.time()
    w0 = PCWorld(cfg)
    k0 = digest(w0.canon())
    parents = {k0: (None, None)}
    frontier = [(k0, pickle.dumps(w0))]
    labels = w0.enabled()
    stats = {"cfg": cfg, "states": 1, "transitions": 0, "nontrivial": 0, "outcomes": set(), "viol": {},
             "samples": [], "unfinished": 0}

    def trace_of(key, last=None):
        labs = []
        while key is not None:
            pk, lab = parents[key]
            if lab is not None:
                labs.append(lab)
            key = pk
        labs.reverse()
        if last is not None:
            labs.append(last)
        return labs

    while frontier:
        nxt = []
        for pkey, blob in frontier:
            for lab in labels:
                w = pickle.loads(blob)
                w.apply(lab)
                stats["transitions"] += 1
                if not w.last["finished"]:
                    stats["unfinished"] += 1
                if w.last["evicted"] or w.last["writebacks"]:
                    stats["nontrivial"] += 1
                stats["outcomes"].add((lab[0], w.last["evicted"], w.last["writebacks"]))
                for fp, desc in w.check():
                    if fp not in stats["viol"]:
                        stats["viol"][fp] = (desc, {"driver": "pagecache-seq", "cfg": cfg,
                                                    "trace": trace_of(pkey, lab)})
                key = digest(w.canon())
                if key in parents:
                    continue
                parents[key] = (pkey, lab)
                stats["states"] += 1
                if w.within():
                    nxt.append((key, pickle.dumps(w)))
        if nxt:
            stats["samples"] = [{"cfg": cfg, "trace": trace_of(nxt[len(nxt) // 2][0])}]
        frontier = nxt
    stats["outcomes"] = len(stats["outcomes"])
    stats["wall"] = time.time() - t0
    return stats


def replay_pc(rep):
    w = PCWorld(rep["cfg"])
    print(f"driver=pagecache-seq cfg={rep['cfg']}")
    found = []
    for i, lab in enumerate(rep["trace"]):
        w.apply(tuple(lab))
        print(f"  step {i}: {tuple(lab)} -> {w.describe()}")
        for fp, desc in w.check():
            print(f"    !! {fp}: {desc}")
            found.append(fp)
    return found

"""C18 part B — CRDT replicas vs. an op-based specification with causal knowledge.

World = R real replicas (GCounter | PNCounter | LWWRegister | ORSet) + ghost state:
  ops[(r, k)]  the k-th update issued at replica r
               counters: ('inc'|'dec', n)      OR-set: ('add', e) | ('rm', e, frozenset(observed add ids))
               register: ('set', value, (physical, logical, node_id))
  know[r]      the set of update ids replica r has received (its own + everything merged in)

Transitions (all call the real methods):
  ('op', r, ...)        a local update at r                       (bounded: at most max_ops in a world)
  ('merge', d, s)       replicas[d].merge(replicas[s])            know[d] |= know[s]
  ('gossip', d, s)      replicas[d].merge(T.from_dict(replicas[s].to_dict()))   (what CRDTStore does)
  ('rt', r)             replicas[r] = T.from_dict(replicas[r].to_dict())        (round trip)
Merges are unbounded in number: repeated, in both directions and transitive merges are all paths of
the finite graph explored by the BFS.

Specification (statement): counter = increments - decrements among know[r];  OR-set contains e iff
some add of e in know[r] is not in the observed set of any remove in know[r];  register = value of
the write with the greatest timestamp in know[r] (the library's documented tie rule: HLCTimestamp's
total order (physical_ns, logical, node_id) - "Ties are broken by node_id"; the driver stamps every
write with its writer's node_id and never reuses a timestamp at one replica, so timestamps are
unique as a real HLC guarantees; two writes with the *identical* timestamp are outside the spec).

Oracle clauses
  spec-value      after a transition that changed replica r:  r.value == spec(know[r])   (only NEW
                  deviations are attributed, to the kind of transition that introduced them)
  same-updates    know[r] == know[s]  =>  r == s (library __eq__) and equal values (reported only when
                  both values already agree with the specification - otherwise spec-value reports it)
  laws            on deep copies of the replicas of every reached world: a+b == b+a, (a+b)+c == a+(b+c),
                  a+a == a, where == is the library's __eq__ plus equality of .value
  roundtrip       from_dict(to_dict(r)) == r and has the same value
  view            when .value is the specified one, every other public read accessor agrees with it
                  (GCounter.node_value, PNCounter.increments/decrements, LWWRegister.get()/timestamp,
                  ORSet.elements / contains / in / len / iter)
  (a merge that disturbs its SOURCE replica is caught by spec-value on the source, trigger 'merge-source')
"""
from __future__ import annotations

import copy
import itertools

from happysimulator.components.crdt.g_counter import GCounter
from happysimulator.components.crdt.lww_register import LWWRegister
from happysimulator.components.crdt.or_set import ORSet
from happysimulator.components.crdt.pn_counter import PNCounter
from happysimulator.core.logical_clocks import HLCTimestamp

NAMES = ["ra", "rb", "rc"]
TYPES = {"GCounter": GCounter, "PNCounter": PNCounter, "LWWRegister": LWWRegister, "ORSet": ORSet}
TS_MENU = [(1, 0), (2, 0), (1, 1)]

_LAW_CACHE: dict = {}


def _state_repr(obj):
    """Canonical form of one replica's state (for dedup only).  Private slots first, public fallback."""
    try:
        if isinstance(obj, GCounter):
            return ("G", tuple(sorted(obj._counts.items())))
        if isinstance(obj, PNCounter):
            return ("PN", _state_repr(obj._p), _state_repr(obj._n))
        if isinstance(obj, LWWRegister):
            t = obj._timestamp
            return ("LWW", repr(obj._value), None if t is None else (t.physical_ns, t.logical, t.node_id))
        if isinstance(obj, ORSet):
            ent = tuple(sorted(((repr(e), tuple(sorted(tags))) for e, tags in obj._entries.items())))
            rest = tuple(sorted((s, repr(_plain(getattr(obj, s)))) for s in getattr(obj, "__slots__", ())
                                if s not in ("_entries", "_node_id")))
            return ("OR", ent, rest)
    except AttributeError:
        pass
    return ("pub", repr(obj.value), repr(_plain(obj.to_dict())))


def _plain(x):
    if isinstance(x, (set, frozenset)):
        return sorted((_plain(i) for i in x), key=repr)
    if isinstance(x, dict):
        return sorted(((repr(k), _plain(v)) for k, v in x.items()))
    if isinstance(x, (list, tuple)):
        return [_plain(i) for i in x]
    return x


class World:
    def __init__(self, typ, R, max_ops, elements=("x", "y"), serial=True, amounts=(1, 2)):
        self.typ = typ
        self.R = R
        self.max_ops = max_ops
        self.elements = tuple(elements)
        self.serial = serial  # include gossip / rt transitions
        self.amounts = tuple(amounts)
        cls = TYPES[typ]
        self.reps = [cls(NAMES[i]) for i in range(R)]
        self.ops = {}
        self.know = [frozenset() for _ in range(R)]
        self.cnt = [0] * R
        self.nops = 0
        self.pending = []  # violations found while applying the last transition
        self.used_ts = [frozenset() for _ in range(R)]
        self.law_broken = False

    # ---------------------------------------------------------------- spec
    def spec(self, r):
        K = self.know[r]
        t = self.typ
        if t in ("GCounter", "PNCounter"):
            v = 0
            for i in K:
                o = self.ops[i]
                v += o[1] if o[0] == "inc" else -o[1]
            return v
        if t == "ORSet":
            observed = set()
            for i in K:
                o = self.ops[i]
                if o[0] == "rm":
                    observed |= o[2]
            return frozenset(self.ops[i][1] for i in K if self.ops[i][0] == "add" and i not in observed)
        best = None
        for i in K:
            o = self.ops[i]
            if best is None or o[2] > best[2]:
                best = o
        return None if best is None else best[1]

    def _diff(self, r):
        """Signature of the deviation of replica r from the specification (empty = conforms)."""
        impl = self.reps[r].value
        spec = self.spec(r)
        t = self.typ
        if t == "ORSet":
            if not isinstance(impl, (set, frozenset)):
                return frozenset({("not-a-set", repr(impl))})
            return frozenset([("extra", e) for e in impl - spec] + [("missing", e) for e in spec - impl])
        if impl == spec:
            return frozenset()
        return frozenset({("value", repr(impl), repr(spec))})

    def _shape(self, r, item):
        t = self.typ
        if t in ("GCounter", "PNCounter"):
            impl, spec = self.reps[r].value, self.spec(r)
            return "value-too-low" if impl < spec else "value-too-high"
        if t == "LWWRegister":
            impl_ts = self.reps[r].timestamp
            best = None
            for i in self.know[r]:
                o = self.ops[i]
                if best is None or o[2] > best[2]:
                    best = o
            if best is None:
                return "value-without-write"
            if impl_ts is None:
                return "write-not-held"
            key = (impl_ts.physical_ns, impl_ts.logical, impl_ts.node_id)
            if key < best[2]:
                return "older-write-held"
            if key > best[2]:
                return "unreceived-write-held"
            return "value-does-not-match-timestamp"
        kind, e = item[0], item[1]
        if kind == "not-a-set":
            return "value-not-a-set"
        if self._nonstr(e):
            return "non-str-element"
        if kind == "extra":
            if e not in self.elements:
                return "unknown-element-present"
            adds = [i for i in self.know[r] if self.ops[i][0] == "add" and self.ops[i][1] == e]
            if not adds:
                return "never-added-element-present"
            return "removed-element-present"
        return "element-missing"

    def _nonstr(self, e):
        """Shape class 'the deviation concerns a non-string element' (e itself, or its str() image)."""
        if not isinstance(e, str):
            return True
        return e not in self.elements and any(not isinstance(u, str) and str(u) == e for u in self.elements)

    # ---------------------------------------------------------------- transitions
    def enabled(self):
        out = []
        R = self.R
        if self.nops < self.max_ops:
            for r in range(R):
                t = self.typ
                if t == "GCounter":
                    out += [("op", r, "inc", n) for n in self.amounts]
                elif t == "PNCounter":
                    out += [("op", r, k, n) for k in ("inc", "dec") for n in self.amounts]
                elif t == "ORSet":
                    out += [("op", r, k, ei) for k in ("add", "rm") for ei in range(len(self.elements))]
                else:
                    out += [("op", r, "set", ti) for ti in range(len(TS_MENU)) if ti not in self.used_ts[r]]
        for d in range(R):
            for s in range(R):
                if d != s:
                    out.append(("merge", d, s))
                    if self.serial:
                        out.append(("gossip", d, s))
        if self.serial:
            out += [("rt", r) for r in range(R)]
        return out

    def apply(self, lab):
        self.pending = []
        kind = lab[0]
        if kind == "op":
            _, r, k, a = lab
            before = self._diff(r)
            rep = self.reps[r]
            oid = (r, self.cnt[r])
            if k == "inc":
                rep.increment(a)
                self.ops[oid] = ("inc", a)
            elif k == "dec":
                rep.decrement(a)
                self.ops[oid] = ("dec", a)
            elif k == "add":
                e = self.elements[a]
                rep.add(e)
                self.ops[oid] = ("add", e)
            elif k == "rm":
                e = self.elements[a]
                obs = frozenset(i for i in self.know[r] if self.ops[i][0] == "add" and self.ops[i][1] == e)
                rep.remove(e)
                self.ops[oid] = ("rm", e, obs)
            else:
                p, l = TS_MENU[a]
                val = f"{NAMES[r]}@{p}.{l}"
                rep.set(val, HLCTimestamp(physical_ns=p, logical=l, node_id=NAMES[r]))
                self.ops[oid] = ("set", val, (p, l, NAMES[r]))
                self.used_ts[r] = self.used_ts[r] | {a}
            self.cnt[r] += 1
            self.nops += 1
            self.know[r] = self.know[r] | {oid}
            self._attribute(r, before, "op")
        elif kind in ("merge", "gossip"):
            _, d, s = lab
            before = self._diff(d)
            before_src = self._diff(s)
            src = self.reps[s]
            if kind == "merge":
                self.reps[d].merge(src)
            else:
                self.reps[d].merge(type(src).from_dict(src.to_dict()))
            self.know[d] = self.know[d] | self.know[s]
            # the source received nothing: its value must still be the one specified for know[s]
            self._attribute(s, before_src, "merge-source")
            self._attribute(d, before, "merge")
        elif kind == "rt":
            r = lab[1]
            before = self._diff(r)
            old = self.reps[r]
            new = type(old).from_dict(old.to_dict())
            if not (new == old) or not (old == new) or new.value != old.value:
                shape = "state-changed"
                if self.typ == "ORSet" and any(not isinstance(self.ops[i][1], str) for i in self.know[r]):
                    shape = "non-str-element"
                self.pending.append((f"{self.typ}/roundtrip/{shape}",
                                     f"from_dict(to_dict(x)) != x for x={_show(old)}: got {_show(new)}"))
            self.reps[r] = new
            self._attribute(r, before, "roundtrip")
        else:
            raise AssertionError(lab)

    def _attribute(self, r, before, trigger):
        after = self._diff(r)
        new = after - before
        for item in sorted(new, key=repr):
            shape = self._shape(r, item)
            self.pending.append((f"{self.typ}/spec-value/{shape}/{trigger}",
                                 f"replica {NAMES[r]} has value {self.reps[r].value!r} but the specification over the "
                                 f"updates it received gives {self.spec(r)!r} (deviation {item}); "
                                 f"updates received: {self._describe_know(r)}"))

    def _describe_know(self, r):
        return [(f"{NAMES[i[0]]}#{i[1]}",) + tuple(sorted(x, key=repr) if isinstance(x, frozenset) else x
                                                  for x in self.ops[i]) for i in sorted(self.know[r])]

    # ---------------------------------------------------------------- BFS interface
    def canon(self):
        return (tuple(_state_repr(x) for x in self.reps), tuple(tuple(sorted(k)) for k in self.know),
                tuple(sorted((i, _plain(o)) for i, o in self.ops.items())), self.nops)

    def within(self):
        # a world in which the last transition just broke the property is not expanded further
        # (its successors would only repeat / compound the same deviation)
        return not self.pending and not self.law_broken

    def check(self):
        out = list(self.pending)
        reps = self.reps
        R = self.R
        # same updates => equal
        for r in range(R):
            for s in range(r + 1, R):
                if self.know[r] == self.know[s] and not self._diff(r) and not self._diff(s):
                    if not (reps[r] == reps[s]) or not (reps[s] == reps[r]) or reps[r].value != reps[s].value:
                        out.append((f"{self.typ}/same-updates-equal/eq-false-on-equal-values",
                                    f"{NAMES[r]} and {NAMES[s]} received the same updates and both hold the "
                                    f"specified value {reps[r].value!r}, yet {NAMES[r]} == {NAMES[s]} is false"))
        for r in range(R):
            if not self._diff(r):
                for acc, got, want in self._views(r):
                    out.append((f"{self.typ}/view/{acc}",
                                f"replica {NAMES[r]} holds the specified value {reps[r].value!r} but its public view "
                                f"{acc} gives {got!r} instead of {want!r}; updates received: {self._describe_know(r)}"))
        key = tuple(_state_repr(x) for x in reps)
        res = _LAW_CACHE.get(key)
        if res is None:
            res = self._laws()
            if len(_LAW_CACHE) > 300_000:
                _LAW_CACHE.clear()
            _LAW_CACHE[key] = res
        out += res
        self.law_broken = len(out) > len(self.pending)
        return out

    def _views(self, r):
        """Every other public read accessor must agree with the specified value (only called when .value does)."""
        rep = self.reps[r]
        K = self.know[r]
        t = self.typ
        bad = []

        def chk(acc, fn, want):
            if not hasattr(rep, acc.split("(")[0].strip("_")) and not acc.startswith(("len", "iter", "in")):
                return
            try:
                got = fn()
            except Exception as exc:  # an accessor that raises is a deviation too
                got = f"raised {type(exc).__name__}: {exc}"
            if got != want:
                bad.append((acc, got, want))

        if t == "GCounter":
            for nm in NAMES[: self.R] + ["nobody"]:
                want = sum(self.ops[i][1] for i in K if NAMES[i[0]] == nm)
                chk("node_value(id)", lambda nm=nm: rep.node_value(nm), want)
        elif t == "PNCounter":
            chk("increments", lambda: rep.increments, sum(self.ops[i][1] for i in K if self.ops[i][0] == "inc"))
            chk("decrements", lambda: rep.decrements, sum(self.ops[i][1] for i in K if self.ops[i][0] == "dec"))
        elif t == "LWWRegister":
            best = None
            for i in K:
                o = self.ops[i]
                if best is None or o[2] > best[2]:
                    best = o
            chk("get()", lambda: rep.get(), None if best is None else best[1])

            def ts():
                x = rep.timestamp
                return None if x is None else (x.physical_ns, x.logical, x.node_id)

            chk("timestamp", ts, None if best is None else best[2])
        else:
            spec = self.spec(r)
            chk("elements", lambda: rep.elements, spec)
            chk("len()", lambda: len(rep), len(spec))
            chk("iter()", lambda: sorted(map(repr, rep)), sorted(map(repr, spec)))
            for e in self.elements:
                chk("contains(e)", lambda e=e: bool(rep.contains(e)), e in spec)
                chk("in", lambda e=e: e in rep, e in spec)
        return bad

    def _laws(self):
        out = []
        reps = self.reps
        R = self.R
        t = self.typ

        def m(a, b):
            c = copy.deepcopy(a)
            c.merge(copy.deepcopy(b))
            return c

        def same(a, b):
            return a == b and b == a and a.value == b.value

        for a in range(R):
            aa = m(reps[a], reps[a])
            if not same(aa, reps[a]):
                out.append((f"{t}/idempotent/self-merge",
                            f"merge(a, a) != a for a={_show(reps[a])}: got {_show(aa)}"))
        for a, b in itertools.combinations(range(R), 2):
            ab, ba = m(reps[a], reps[b]), m(reps[b], reps[a])
            if not same(ab, ba):
                out.append((f"{t}/commutative/pair",
                            f"merge(a, b) != merge(b, a) for a={_show(reps[a])}, b={_show(reps[b])}: "
                            f"{_show(ab)} vs {_show(ba)}"))
            abb = m(ab, reps[b])
            if not same(abb, ab):
                out.append((f"{t}/idempotent/repeated-merge",
                            f"merge(merge(a, b), b) != merge(a, b) for a={_show(reps[a])}, b={_show(reps[b])}: "
                            f"{_show(abb)} vs {_show(ab)}"))
        if R >= 3:
            for a, b, c in itertools.permutations(range(R), 3):
                left = m(m(reps[a], reps[b]), reps[c])
                right = m(reps[a], m(reps[b], reps[c]))
                if not same(left, right):
                    out.append((f"{t}/associative/triple",
                                f"merge(merge(a, b), c) != merge(a, merge(b, c)) for a={_show(reps[a])}, "
                                f"b={_show(reps[b])}, c={_show(reps[c])}: {_show(left)} vs {_show(right)}"))
        else:
            a, b = 0, 1
            for x, y, z in ((a, b, a), (a, a, b), (b, a, b), (a, b, b)):
                left = m(m(reps[x], reps[y]), reps[z])
                right = m(reps[x], m(reps[y], reps[z]))
                if not same(left, right):
                    out.append((f"{t}/associative/triple",
                                f"merge(merge(a, b), c) != merge(a, merge(b, c)) for a={_show(reps[x])}, "
                                f"b={_show(reps[y])}, c={_show(reps[z])}: {_show(left)} vs {_show(right)}"))
        return out

    def describe(self):
        return " | ".join(f"{NAMES[r]}: value={self.reps[r].value!r} spec={self.spec(r)!r} "
                          f"knows={sorted(self.know[r])}" for r in range(self.R))

    def conflict(self):
        """Non-triviality rule for a world: two replicas hold updates the other has not received
        (concurrent updates) or some replica has received an update made elsewhere."""
        for r in range(self.R):
            if any(i[0] != r for i in self.know[r]):
                return True
        return False


def _show(x):
    try:
        return f"{type(x).__name__}({x.node_id}, value={x.value!r}, state={_state_repr(x)[1:]})"
    except Exception:  # pragma: no cover
        return repr(x)


class Maker:
    """Picklable world factory."""

    def __init__(self, **kw):
        self.kw = kw

    def __call__(self):
        return World(**self.kw)

"""C12 — single-decree Paxos world (real ``PaxosNode`` objects)."""
from __future__ import annotations

from props.c12_worlds import NetWorld, fixed_random, freeze  # noqa: F401

from happysimulator.components.consensus.paxos import PaxosNode

NAMES = "abcde"


class PaxosWorld(NetWorld):
    """n PaxosNodes; clients propose distinct values at chosen nodes; any in-flight message
    may be delivered next (or never: loss / partition); retry timers fire in any realisable order.

    params: n, proposers (tuple of node indices allowed to propose, each once, value 'v<name>'),
            max_retries (retry timers fired), max_ballot (state constraint on ballot numbers),
            second (allow one node to propose a second value)
    """

    def __init__(self, n=3, proposers=(0, 1), max_retries=1, max_ballot=3, double=False,
                 initial=()):
        super().__init__()
        self.p = dict(n=n, proposers=tuple(proposers), max_retries=max_retries, max_ballot=max_ballot,
                      double=double)
        nodes = [PaxosNode(NAMES[i], self.net, retry_delay=1.0) for i in range(n)]
        for nd in nodes:
            nd.set_peers(nodes)
        self.add_nodes(nodes)
        self.proposed = []  # values handed to propose(), in order
        self.futures = []  # (node name, value, SimFuture)
        self.first_decided = {}  # node -> first reported decided value (repr-safe)
        self.accept_values = {}  # (ballot number, ballot node) -> sorted tuple of values seen in Accept
        self.flags = set()  # shape facts for fingerprints
        self.viol = []
        for lab in initial:
            self.apply(lab)

    # -- moves ----------------------------------------------------------
    def client_moves(self):
        out = []
        for i in self.p["proposers"]:
            nm = NAMES[i]
            k = sum(1 for (n_, _v, _f) in self.futures if n_ == nm)
            if k == 0 or (self.p["double"] and k == 1):
                out.append(("propose", nm, f"v{nm}{k if k else ''}"))
        return out

    def apply_client(self, lab):
        _, nm, val = lab
        node = self.by_name[nm]
        self.proposed.append(val)
        fut = node.propose(val)
        self.futures.append((nm, val, fut))
        self.bump("propose")
        if not fut.is_resolved:
            self.absorb(node.start_phase1())

    def on_send(self, etype, md):
        if etype == "PaxosAccept":
            key = (md["ballot_number"], md["ballot_node"])
            vals = set(self.accept_values.get(key, ()))
            vals.add(repr(md["value"]))
            self.accept_values[key] = tuple(sorted(vals))
            if len(vals) > 1:
                self.flags.add("two-values-one-ballot")
            if md["value"] not in self.proposed:
                self.flags.add("unproposed-accept")

    def before_handle(self, node, etype, md):
        if etype == "PaxosRetry":
            self.flags.add("retry")

    # -- ghosts / oracle ---------------------------------------------------
    def observe(self):
        for nd in self.nodes:
            if nd.is_decided:
                v = nd.decided_value
                if nd.name not in self.first_decided:
                    self.first_decided[nd.name] = v
                elif self.first_decided[nd.name] != v and ("stab", nd.name) not in self.flags:
                    self.flags.add(("stab", nd.name))
                    self.viol.append((f"Paxos/decision-changed/{self.shape()}",
                                      f"node {nd.name} reported decided value {self.first_decided[nd.name]!r} "
                                      f"and later {v!r}"))
            elif nd.name in self.first_decided and ("undec", nd.name) not in self.flags:
                self.flags.add(("undec", nd.name))
                self.viol.append((f"Paxos/decision-changed/undecided-again",
                                  f"node {nd.name} reported a decision and later is_decided == False"))

    def shape(self):
        if "unproposed-accept" in self.flags:
            return "unproposed-value-in-accept"
        if "two-values-one-ballot" in self.flags:
            return "two-values-one-ballot"
        if "retry" in self.flags:
            return "after-retry"
        return "plain"

    def check(self):
        out = list(self.viol)
        self.viol = []
        dec = [(nd.name, nd.decided_value) for nd in self.nodes if nd.is_decided]
        vals = {repr(v) for _, v in dec}
        if len(vals) > 1:
            out.append((f"Paxos/agreement/{self.shape()}",
                        f"nodes report different decided values: {dec}"))
        for nm, v in dec:
            if v not in self.proposed:
                out.append((f"Paxos/validity/{self.shape()}",
                            f"node {nm} reports decided value {v!r}, never proposed (proposed: {self.proposed})"))
                break
        for nm, val, fut in self.futures:
            if fut.is_resolved:
                fv = fut.value
                bad = [(n2, v2) for n2, v2 in dec if v2 != fv]
                if fv not in self.proposed:
                    out.append((f"Paxos/future-value/{self.shape()}",
                                f"propose({val!r}) future at {nm} resolved with {fv!r}, never proposed"))
                elif bad:
                    out.append((f"Paxos/future-value/{self.shape()}",
                                f"propose({val!r}) future at {nm} resolved with {fv!r} but decided values are {dec}"))
                elif not dec:
                    out.append((f"Paxos/future-value/resolved-before-any-decision",
                                f"propose({val!r}) future at {nm} resolved with {fv!r} while no node reports a decision"))
        return out

    def within(self):
        if self.cnt("timer") > self.p["max_retries"]:
            return False
        mb = self.p["max_ballot"]
        for nd in self.nodes:
            pb = getattr(nd, "_current_ballot", None)
            if pb is not None and getattr(pb, "number", 0) > mb:
                return False
        return True

    def counts_in_canon(self):
        return {"timer": self.cnt("timer")}

    def canon_ghost(self):
        return (tuple(self.proposed), freeze(self.first_decided),
                tuple((n, v, f.is_resolved, repr(f.value) if f.is_resolved else None) for n, v, f in self.futures),
                tuple(sorted(self.accept_values.items())),
                tuple(sorted(map(repr, self.flags))))

    def describe(self):
        parts = []
        for nd in self.nodes:
            parts.append(f"{nd.name}:{'D=' + repr(nd.decided_value) if nd.is_decided else '-'}")
        futs = ",".join(f"{n}:{v}->{f.value!r}" if f.is_resolved else f"{n}:{v}->pending" for n, v, f in self.futures)
        return f"[{' '.join(parts)}] futures[{futs}] inflight={len(self.msgs)} timers={len(self.timers)}"


def make_paxos(**kw):
    return PaxosWorld(**kw)

"""C12 — single-decree Paxos world (real ``PaxosNode`` objects)."""
from __future__ import annotations

from props.c12_worlds import NetWorld, fixed_random, freeze, node_canon  # noqa: F401

from happysimulator.components.consensus.paxos import PaxosNode

NAMES = "abcde"


class PaxosWorld(NetWorld):
    """n PaxosNodes; clients propose distinct values at chosen nodes; any in-flight message
    may be delivered next (or never: loss / partition); retry timers fire in any realisable order.

    params: n, proposers (tuple of node indices allowed to propose, each once, value 'v<name>'),
            max_retries (retry timers fired), max_ballot (state constraint on ballot numbers),
            second (allow one node to propose a second value)
    """

    def __init__(self, n=3, proposers=(0, 1), max_retries=1, max_ballot=3, double=False,
                 mute=(), cut=(), drop=(), max_moves=None, live=False, initial=()):
        super().__init__()
        self.p = dict(n=n, proposers=tuple(proposers), max_retries=max_retries, max_ballot=max_ballot,
                      double=double, mute=tuple(mute), cut=tuple(tuple(c) for c in cut), max_moves=max_moves,
                      live=live, drop=tuple(tuple(d) for d in drop))
        assert not (live and (mute or cut or drop or len(self.p["proposers"]) != 1 or double)), \
            "liveness premise: fault-free network, a single proposer"
        self.conf = False
        self.accept_sent = {}  # (ballot, dst) -> number of Accept messages sent
        self.abandoned = {}  # node -> ballot numbers given up by a retry
        self.moves = 0
        nodes = [PaxosNode(NAMES[i], self.net, retry_delay=1.0) for i in range(n)]
        for nd in nodes:
            nd.set_peers(nodes)
        self.add_nodes(nodes)
        self.proposed = []  # values handed to propose(), in order
        self.futures = []  # (node name, value, SimFuture)
        self.first_decided = {}  # node -> first reported decided value (repr-safe)
        self.flags = set()  # shape facts for fingerprints
        self.viol = []
        for lab in initial:
            self.apply(lab)

    # -- moves ----------------------------------------------------------
    def client_moves(self):
        out = []
        for i in self.p["proposers"]:
            nm = NAMES[i]
            k = sum(1 for (n_, _v, _f) in self.futures if n_ == nm)
            if k == 0 or (self.p["double"] and k == 1):
                out.append(("propose", nm, f"v{nm}{k if k else ''}"))
        return out

    def deliverable(self, m):
        if m[0] in self.p["mute"]:
            return False
        if (m[0], m[1]["source"], m[1]["destination"]) in self.p["drop"]:
            return False  # this message type on this directed link is always lost
        return (m[1]["source"], m[1]["destination"]) not in self.p["cut"]

    def apply(self, lab):
        self.moves += 1
        super().apply(lab)

    def apply_client(self, lab):
        _, nm, val = lab
        node = self.by_name[nm]
        self.proposed.append(val)
        fut = node.propose(val)
        self.futures.append((nm, val, fut))
        self.bump("propose")
        if not fut.is_resolved:
            self.absorb(node.start_phase1())

    def conflict(self):
        return self.conf

    def outcome(self):
        return (tuple((nd.is_decided, nd.decided_value) for nd in self.nodes),
                tuple((f.is_resolved, f.value if f.is_resolved else None) for _n, _v, f in self.futures))

    def on_send(self, etype, md):
        if etype == "PaxosNack" or (etype == "PaxosPromise" and md.get("accepted_ballot_number") is not None):
            self.conf = True
        if etype == "PaxosAccept":
            k2 = (md["ballot_number"], md["ballot_node"], md["destination"])
            self.accept_sent[k2] = self.accept_sent.get(k2, 0) + 1
            if self.accept_sent[k2] > 1:
                self.flags.add("phase2-restart")

    def before_handle(self, node, etype, md):
        if etype in ("PaxosPrepare", "PaxosAccept"):
            pb = getattr(node, "_promised_ballot", None)
            if pb is not None and getattr(pb, "node_id", None) != md.get("ballot_node"):
                self.conf = True  # ballots of two proposers meet at this acceptor
        if etype == "PaxosRetry":
            self.flags.add("retry")
            self.abandoned[node.name] = tuple(sorted(set(self.abandoned.get(node.name, ())) |
                                                     {md.get("original_ballot")}))
        elif etype in ("PaxosPromise", "PaxosAccepted"):
            if md.get("ballot_number") in self.abandoned.get(node.name, ()):
                self.flags.add("stale-reply")

    # -- ghosts / oracle ---------------------------------------------------
    def observe(self):
        for nd in self.nodes:
            if nd.is_decided:
                v = nd.decided_value
                if nd.name not in self.first_decided:
                    self.first_decided[nd.name] = v
                elif self.first_decided[nd.name] != v and ("stab", nd.name) not in self.flags:
                    self.flags.add(("stab", nd.name))
                    self.viol.append((f"Paxos/decision-changed/{self.shape()}",
                                      f"node {nd.name} reported decided value {self.first_decided[nd.name]!r} "
                                      f"and later {v!r}"))
            elif nd.name in self.first_decided and ("undec", nd.name) not in self.flags:
                self.flags.add(("undec", nd.name))
                self.viol.append((f"Paxos/decision-changed/undecided-again",
                                  f"node {nd.name} reported a decision and later is_decided == False"))

    def shape(self):
        """Mechanism facts seen on the way (all observable on the wire), most specific first."""
        if "phase2-restart" in self.flags:
            return "phase2-restarted-by-late-promise"
        if "stale-reply" in self.flags:
            return "reply-to-ballot-abandoned-by-retry"
        if "retry" in self.flags:
            return "after-retry"
        return "plain"

    def check(self):
        out = list(self.viol)
        self.viol = []
        dec = [(nd.name, nd.decided_value) for nd in self.nodes if nd.is_decided]
        vals = {repr(v) for _, v in dec}
        if len(vals) > 1:
            out.append((f"Paxos/agreement/{self.shape()}",
                        f"nodes report different decided values: {dec}"))
        for nm, v in dec:
            if v not in self.proposed:
                out.append((f"Paxos/validity/{self.shape()}",
                            f"node {nm} reports decided value {v!r}, never proposed (proposed: {self.proposed})"))
                break
        for nm, val, fut in self.futures:
            if fut.is_resolved:
                fv = fut.value
                bad = [(n2, v2) for n2, v2 in dec if v2 != fv]
                if fv not in self.proposed:
                    out.append((f"Paxos/future-value/{self.shape()}",
                                f"propose({val!r}) future at {nm} resolved with {fv!r}, never proposed"))
                elif bad:
                    out.append((f"Paxos/future-value/{self.shape()}",
                                f"propose({val!r}) future at {nm} resolved with {fv!r} but decided values are {dec}"))
                elif not dec:
                    out.append((f"Paxos/future-value/resolved-before-any-decision",
                                f"propose({val!r}) future at {nm} resolved with {fv!r} while no node reports a decision"))
        if self.p["live"] and self.futures and not self.msgs and not self.live_timers():
            # fault-free network, single proposer, everything delivered, no retry pending
            for nd in self.nodes:
                if not nd.is_decided or nd.decided_value != self.proposed[0]:
                    out.append((f"Paxos/liveness/single-proposer-not-decided-everywhere",
                                f"quiescent fault-free run: node {nd.name} is_decided={nd.is_decided} "
                                f"value={nd.decided_value!r}, proposed {self.proposed}"))
                    break
            for nm, val, fut in self.futures:
                if not fut.is_resolved:
                    out.append((f"Paxos/liveness/single-proposer-future-unresolved",
                                f"quiescent fault-free run: propose({val!r}) future at {nm} never resolved"))
        return out

    def within(self):
        if self.cnt("timer") > self.p["max_retries"]:
            return False
        if self.p["max_moves"] is not None and self.moves >= self.p["max_moves"]:
            return False
        mb = self.p["max_ballot"]
        for nd in self.nodes:
            pb = getattr(nd, "_current_ballot", None)
            if pb is not None and getattr(pb, "number", 0) > mb:
                return False
        return True

    def counts_in_canon(self):
        return {"timer": self.cnt("timer")}

    def canon_nodes(self):
        fidx = {id(f): i for i, (_n, _v, f) in enumerate(self.futures)}
        out = []
        for nd in self.nodes:
            try:
                out.append((
                    nd.name, nd._promised_ballot, nd._accepted_ballot, nd._accepted_value, nd._current_ballot,
                    nd._decided, nd._decided_value,
                    tuple(sorted((k, fidx.get(id(f), -1)) for k, f in nd._proposal_futures.items())),
                    tuple(sorted((k, tuple(sorted(repr((r.get("accepted_ballot"), r.get("accepted_value")))
                                                  for r in v))) for k, v in nd._phase1_responses.items())),
                    tuple(sorted(nd._phase2_responses.items())),
                    tuple(sorted(nd._proposed_values.items(), key=repr)),
                ))
            except AttributeError:  # refactored internals: fall back to the generic freeze
                out.append(node_canon(nd))
        return tuple(out)

    def canon_ghost(self):
        return (tuple(self.proposed), freeze(self.first_decided),
                tuple((n, v, f.is_resolved, repr(f.value) if f.is_resolved else None) for n, v, f in self.futures),
                tuple(sorted(self.accept_sent.items())),
                tuple(sorted(self.abandoned.items())),
                tuple(sorted(map(repr, self.flags))))

    def describe(self):
        parts = []
        for nd in self.nodes:
            parts.append(f"{nd.name}:{'D=' + repr(nd.decided_value) if nd.is_decided else '-'}")
        futs = ",".join(f"{n}:{v}->{f.value!r}" if f.is_resolved else f"{n}:{v}->pending" for n, v, f in self.futures)
        return f"[{' '.join(parts)}] futures[{futs}] inflight={len(self.msgs)} timers={len(self.timers)}"


def make_paxos(**kw):
    return PaxosWorld(**kw)

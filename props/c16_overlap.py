"""C16 overlap driver: client processes whose operations overlap in simulated time on a real
Simulation, ALL start offsets on a grid finer than the store latencies, followed by a quiescent
epilogue of reads (and flush) checked against an interval register."""
from __future__ import annotations

import itertools
import time

from mc.evidence import digest

from props.c16_common import (
    NEG, NS, POLICY_CLASS, READS, WRITES, OpClient, Simulation, V, allowed_values, layer_check,
    run_guarded, start_event, vstr,
)
from props.c16_seq import fmt_op, make_sys

T_A = 20  # tick at which the overlap window is centred (the prefix script has long finished)
T_EPI = 48  # tick at which the epilogue starts (every overlapped operation has long finished)
SERIAL_STEP = 32  # half ticks between operations when a case is re-run serialised (16 ticks > any op)
MAX_EVENTS = 1500


def materialise(op, n):
    """('put','a') -> ('put','a',V('a',n))"""
    op = tuple(op)
    if op[0] == "put":
        return ("put", op[1], V(op[1], n))
    return op


def epilogue_ops(sysm):
    ops = [("get", "a"), ("get", "b")]
    if not sysm.wt:
        ops.append(("flush",))
    ops += [("inv", "a"), ("inv", "b"), ("get", "a"), ("get", "b")]
    return ops


def execute(cfg, prefix, ops, starts_half, t_epi=T_EPI):
    """One complete execution on the real Simulation.  ops: the concurrent operations (2 or 3);
    starts_half: their start instants in half ticks relative to T_A.  A ('warm',) operation starts a
    CacheWarmer over keys a, b (through the cache's get) instead of a client operation."""
    sysm = make_sys(cfg)
    log = []
    layer_viol = []

    def watch(rec):
        if rec["op"][0] == "flush":
            rec["backing"] = {k: sysm.backing.get_sync(k) for k in ("a", "b")}
        for label, store, pol in sysm.layers():
            for clause, shape, desc in layer_check(label, store, pol):
                layer_viol.append((clause, shape, label, f"after {fmt_op(rec['op'])} by {rec['c']} at "
                                                         f"t={rec['resp'] / NS:g}: {desc}"))

    pre = [materialise(op, i + 1) for i, op in enumerate(prefix)]
    conc = [materialise(op, 10 * (i + 1)) for i, op in enumerate(ops)]
    P = OpClient("P", sysm, log, watch)
    E = OpClient("E", sysm, log, watch)
    cls = [OpClient("ABC"[i], sysm, log, watch) for i in range(len(conc))]
    warmer = None
    if any(op[0] == "warm" for op in conc):
        from happysimulator.components.datastore.cache_warming import CacheWarmer
        warmer = CacheWarmer("warmer", cache=sysm.cache, keys_to_warm=["a", "b"], warmup_rate=0.5)
    sim = Simulation(entities=[P, E, *cls, *sysm.entities(), *([warmer] if warmer else [])])
    if pre:
        sim.schedule(start_event(P, 0, pre))
    else:
        P.done = True
    for c, op, sh in zip(cls, conc, starts_half):
        t = cfg.get("t_a", T_A) * NS + sh * (NS // 2)
        if op[0] == "warm":
            assert t == 0, "the warmer's start event is stamped Instant.Epoch by the library"
            sim.schedule(warmer.start_warming())
            c.done = True
            log.append({"c": c.name, "op": op, "inv": t, "resp": None, "res": None, "hit": None, "err": None,
                        "warmer": warmer})
        else:
            sim.schedule(start_event(c, t, [op]))
    sim.schedule(start_event(E, t_epi * NS, epilogue_ops(sysm)))
    err = None
    outcome = "done"
    try:
        g = run_guarded(sim, max_events=MAX_EVENTS)
        outcome = g["outcome"]
    except Exception as exc:  # noqa: BLE001  (an operation raising is an observed outcome)
        err = f"{type(exc).__name__}: {exc}"
    for r in log:
        w = r.pop("warmer", None)
        if w is not None and w.is_complete:
            r["resp"] = r["inv"] + int(round(w.stats.warmup_time_seconds * NS))
            r["res"] = (w.stats.keys_warmed, w.stats.keys_failed)
    finished = err is None and all(c.done for c in [P, E, *cls])
    late = [r for r in log if r["c"] != "E" and (r["resp"] is None or r["resp"] >= t_epi * NS)]
    ev = sum(st.stats.evictions for _l, st, _p in sysm.layers())
    return {"sys": sysm, "log": log, "layer_viol": layer_viol, "err": err, "outcome": outcome,
            "finished": finished and not late, "conc": conc, "evictions": ev}


def judge(ex):
    """Oracle over one execution.  Returns list of (clause, key, shape, layer, description)."""
    sysm = ex["sys"]
    out = []
    seen_layer = set()
    for clause, shape, label, desc in ex["layer_viol"]:
        if (clause, shape, label) not in seen_layer:
            seen_layer.add((clause, shape, label))
            out.append((clause, None, shape, label, desc))
    if not ex["finished"]:
        return out
    log = ex["log"]
    for key in ("a", "b"):
        writes = [(NEG, NEG, sysm.initial[key])]
        for r in log:
            op = r["op"]
            if op[0] in WRITES and op[1] == key:
                writes.append((r["inv"], r["resp"], op[2] if op[0] == "put" else None))
        # Whatever order overlapping writes are deemed to have, once all of them completed every read
        # must return the last one's value ("that write's value or a later one" for every completed
        # write): two quiescent reads of the epilogue that disagree are wrong under any order.
        quiet = [r for r in log if r["c"] == "E" and r["op"][0] in READS and r["op"][1] == key]
        if len({repr(r["res"]) for r in quiet}) > 1:
            out.append(("quiescent-reads-disagree", key, None, None,
                        f"with no write in flight or issued, successive reads of {key!r} by client E returned "
                        + " then ".join(f"{vstr(r['res'])} (t={r['inv'] / NS:g})" for r in quiet)
                        + "; at most one of them is the last completed write's value"))
        stale = lost = False
        for r in log:
            op = r["op"]
            if op[0] in READS and op[1] == key and not stale:
                ok = allowed_values(writes, r["inv"], r["resp"])
                if r["res"] not in ok:
                    stale = True  # later reads of the same key repeat the same divergence
                    out.append(("stale-read", key, None, None,
                                f"{fmt_op(op)} by client {r['c']} issued at t={r['inv'] / NS:g} returned "
                                f"{vstr(r['res'])}; completed writes not yet overwritten: {[vstr(v) for v in ok]}"))
            if op[0] == "flush" and r["c"] == "E" and not sysm.wt and not lost:
                # write-back: after flush at quiescence the backing store holds every acknowledged write
                ok = allowed_values(writes, r["resp"], r["resp"])
                bv = r["backing"][key]
                if bv not in ok:
                    lost = True
                    out.append(("dirty-discarded", key, None, None,
                                f"after flush() at quiescence (t={r['resp'] / NS:g}) the backing store holds "
                                f"{key!r}={vstr(bv)}; acknowledged writes not yet overwritten: "
                                f"{[vstr(v) for v in ok]}"))
    return out


def pair_shape(ops, key):
    parts = []
    for op in ops:
        if len(op) == 1:
            parts.append(op[0])
        elif op[1] == key:
            parts.append(op[0])
        else:
            parts.append(op[0] + "-other-key")
    return "||".join(sorted(parts))


def overlapped(ex):
    recs = [r for r in ex["log"] if r["c"] in ("A", "B", "C")]
    for x, y in itertools.combinations(recs, 2):
        if x["resp"] is None or y["resp"] is None:
            return True
        if x["inv"] <= y["resp"] and y["inv"] <= x["resp"]:
            return True
    return False


def fingerprint(sysm, clause, key, shape, layer, ops, serial_too):
    if clause in ("capacity-exceeded", "policy-keys"):
        pol = sysm.pol if layer in ("cache", "L1") else "LRU"
        comp = sysm.kind if layer == "cache" else f"{sysm.kind}.{layer}"
        return f"{comp}/{POLICY_CLASS[pol]}/{clause}/{shape}"
    sh = "reproducible-when-serialised" if serial_too else pair_shape(ops, key)
    return f"{sysm.kind}/{sysm.mode}/{clause}/overlap/{sh}"


def serial_clauses(cfg, prefix, ops):
    """The same operations run strictly one after the other, in every order: which (clause, key) fail?"""
    out = set()
    n = len(ops)
    for perm in itertools.permutations(range(n)):
        starts = [0] * n
        for pos, i in enumerate(perm):
            starts[i] = pos * SERIAL_STEP
        if any(op[0] == "warm" and st for op, st in zip(ops, starts)):
            continue  # a warmer always starts at Instant.Epoch
        ex = execute(cfg, prefix, ops, starts, t_epi=T_EPI + n * SERIAL_STEP // 2)
        for clause, key, _s, _l, _d in judge(ex):
            out.add((clause, key))
    return out


def analyse(cfg, prefix, ops, starts):
    """Run one case; returns (ex, [(fingerprint, description)])."""
    ex = execute(cfg, prefix, ops, starts)
    found = judge(ex)
    res = []
    if found:
        need_serial = any(c in ("stale-read", "dirty-discarded", "quiescent-reads-disagree") for c, *_ in found)
        ser = serial_clauses(cfg, prefix, ops) if need_serial else set()
        sysm = ex["sys"]
        for clause, key, shape, layer, desc in found:
            shape_ops = ops
            if len(ops) > 2 and clause in ("stale-read", "dirty-discarded", "quiescent-reads-disagree") \
                    and (clause, key) not in ser:
                # name the smallest overlapping subset that still fails (pairs are explored exhaustively)
                for drop in range(len(ops)):
                    sub = [o for i, o in enumerate(ops) if i != drop]
                    sst = [s_ for i, s_ in enumerate(starts) if i != drop]
                    if not any(o[0] == "warm" for o in sub) or sst[0] == 0:
                        if any((c, k) == (clause, key) for c, k, *_ in judge(execute(cfg, prefix, sub, sst))):
                            shape_ops = sub
                            break
            fp = fingerprint(sysm, clause, key, shape, layer, shape_ops, (clause, key) in ser)
            res.append((fp, f"{sysm.label()} prefix="
                            f"{[fmt_op(o) for o in prefix]} concurrent={[fmt_op(o) for o in ex['conc']]} "
                            f"starts(ticks)={[cfg.get('t_a', T_A) + s / 2 for s in starts]}: {desc}"))
    return ex, res


def overlap_job(job):
    """All (prefix, op tuple, start offsets) of one configuration."""
    cfg = job
    t0 = time.time()
    stats = {"cfg": cfg, "executions": 0, "transitions": 0, "nontrivial": 0, "outcomes": set(), "viol": {},
             "samples": [], "unfinished": 0, "errors": 0}
    n = cfg["n_conc"]
    span = cfg["span_half"]
    step = cfg["step_half"]
    offs = list(range(-span, span + 1, step))
    alphabet = [tuple(o) for o in cfg["alphabet"]]
    tuples = [tuple(tuple(o) for o in t) for t in cfg["tuples"]] if cfg.get("tuples") else None
    for prefix in cfg["prefixes"]:
        for ops in (tuples if tuples is not None else itertools.product(alphabet, repeat=n)):
            if not any(len(o) > 1 and o[1] == "a" for o in ops):
                continue  # at least one operation on the contended key
            for rest in itertools.product(offs, repeat=n - 1):
                starts = (0, *rest)
                ex, found = analyse(cfg, prefix, ops, starts)
                stats["executions"] += 1
                stats["transitions"] += len(ex["log"])
                if not ex["finished"]:
                    stats["unfinished"] += 1
                    if ex["err"]:
                        stats["errors"] += 1
                if overlapped(ex):
                    stats["nontrivial"] += 1
                stats["outcomes"].add(digest([(r["op"], r["res"], r["resp"]) for r in ex["log"]]))
                for fp, desc in found:
                    if fp not in stats["viol"]:
                        stats["viol"][fp] = (desc, {"driver": cfg["driver"], "cfg": cfg, "prefix": prefix,
                                                    "ops": ops, "starts_half": starts})
                if not stats["samples"] and stats["executions"] % 211 == 7:
                    stats["samples"].append({"cfg": {k: cfg[k] for k in cfg if k not in ("alphabet", "prefixes", "tuples")},
                                             "prefix": prefix, "ops": ops, "starts_half": starts,
                                             "results": [(fmt_op(r["op"]), vstr(r["res"]) if not isinstance(
                                                 r["res"], (bool, int)) else r["res"]) for r in ex["log"]]})
    stats["outcomes"] = len(stats["outcomes"])
    stats["wall"] = time.time() - t0
    return stats


def warm_job(cfg):
    """CacheWarmer (keys a, b through cache.get) started at t=0 with one concurrent client operation at
    every offset of the grid."""
    t0 = time.time()
    stats = {"cfg": cfg, "executions": 0, "transitions": 0, "nontrivial": 0, "outcomes": set(), "viol": {},
             "samples": [], "unfinished": 0, "errors": 0}
    for opb in [tuple(o) for o in cfg["alphabet"]]:
        for off in range(0, cfg["span_half"] + 1, cfg["step_half"]):
            ops, starts = (("warm",), opb), (0, off)
            ex, found = analyse(cfg, [], ops, starts)
            stats["executions"] += 1
            stats["transitions"] += len(ex["log"])
            if not ex["finished"]:
                stats["unfinished"] += 1
            if overlapped(ex):
                stats["nontrivial"] += 1
            stats["outcomes"].add(digest([(r["op"], r["res"], r["resp"]) for r in ex["log"]]))
            for fp, desc in found:
                if fp not in stats["viol"]:
                    stats["viol"][fp] = (desc, {"driver": cfg["driver"], "cfg": cfg, "prefix": [],
                                                "ops": ops, "starts_half": starts})
            if not stats["samples"] and stats["executions"] % 17 == 5:
                stats["samples"].append({"ops": ops, "starts_half": starts,
                                         "results": [(fmt_op(r["op"]), str(r["res"])) for r in ex["log"]]})
    stats["outcomes"] = len(stats["outcomes"])
    stats["wall"] = time.time() - t0
    return stats


def replay_overlap(rep):
    cfg = rep["cfg"]
    prefix = [tuple(o) for o in rep["prefix"]]
    ops = [tuple(o) for o in rep["ops"]]
    starts = tuple(rep["starts_half"])
    ex, found = analyse(cfg, prefix, ops, starts)
    print(f"driver={rep['driver']} cfg={ {k: cfg[k] for k in cfg if k not in ('alphabet', 'prefixes', 'tuples')} }")
    print(f"  prefix={[fmt_op(o) for o in prefix]} concurrent={[fmt_op(o) for o in ex['conc']]} "
          f"start ticks={[cfg.get('t_a', T_A) + s / 2 for s in starts]}")
    for r in ex["log"]:
        res = r["res"]
        res = vstr(res) if (res is None or isinstance(res, tuple)) else res
        print(f"  client {r['c']}: {fmt_op(r['op']):16s} issued t={r['inv'] / NS:<5g} completed "
              f"t={'-' if r['resp'] is None else format(r['resp'] / NS, 'g'):5s} -> {res}"
              + (f"   backing={ {k: vstr(v) for k, v in r['backing'].items()} }" if "backing" in r else ""))
    if ex["err"]:
        print(f"  run raised: {ex['err']}")
    for fp, desc in found:
        print(f"    !! {fp}: {desc}")
    return [fp for fp, _ in found]

"""C18 part C — CRDTStore gossip in a real Simulation: every store holds the value specified for the updates
it has received, stores that received the same updates are equal.

Closed system: n CRDTStore entities on a real Network (every pair linked, constant 0.1 s links, no loss, no
partition), gossip_interval 1 s started through the public ``get_gossip_event()``.  The PEER LISTS form a
topology that is part of the enumerated input:

    mesh          every store lists every other store
    ring          store i lists only store i+1 (one-directional: a store is pushed to by a node it does not list)
    star          store 0 lists all others, the others list only store 0
    newcomer-out  the last store lists all others; the others list each other but not the newcomer
    newcomer-in   the others list everybody including the last store; the last store lists nobody
    oneway        (2 stores) store 0 lists store 1, store 1 lists nobody          oneway-rev: the mirror image

A *program* is a small set of Write events (time in {0.5, 1.5} s, store, operation, value) on one key.  The only
nondeterminism - ``random.choice(peers)`` in every gossip tick - is owned by the chooser
(mc.harness.owned_random) and explored by mc.choice.explore (every sequence, or deviation-bounded).  The run ends
at 4.9 s (ticks at 1, 2, 3, 4 s; every message is delivered 0.1 s after it is sent).

Which updates a store "has received" is computed by the harness from the messages the engine actually delivers
(public ``sim.control.on_event`` hook, event type / target / metadata["source"] only):
    Write delivered to S                  know[S] += that write
    GossipTick delivered to X             sent[X] = know[X]            (the push carries X's state of that instant)
    GossipPush from X delivered to P      know[P] |= sent[X];  answered[(P, X)] = know[P]
    GossipResponse from P delivered to X  know[X] |= answered[(P, X)]
No assumption is made about WHO answers or which peer is picked: only delivered messages count.

Oracle at the end of the run (statement: "replicas that have received the same updates are equal ... and their
value is the specified one"):
  quiescent-value  counters: value(S) == sum(increments) - sum(decrements) over know[S];  OR-set programs
                   without remove: value(S) == elements added in know[S]   (a store that received nothing and
                   has no replica counts as 0 / empty).  OR-set programs with removes are only checked for
                   the clause below; their specified value is decided by the replica-level driver.
  converged        know[S] == know[T]  =>  equal values and the replicas compare equal (==)
  read-value       a Read event delivered to S at 4.6 s (after the last message) is answered with that value
Shape class of a violation: 'foreign-node-id' when some store holds a replica whose public ``node_id`` is
another store's name, 'non-str-element' when the program writes a non-string element, else 'plain'; suffix
'/asymmetric-peers' when the peer lists are not symmetric.
"""
from __future__ import annotations

import itertools

from mc.choice import Chooser, explore
from mc.harness import Event, Instant, Simulation, owned_random, run_guarded

from happysimulator.core.sim_future import SimFuture

from happysimulator.components.crdt.crdt_store import CRDTStore
from happysimulator.components.crdt.g_counter import GCounter
from happysimulator.components.crdt.or_set import ORSet
from happysimulator.components.crdt.pn_counter import PNCounter
from happysimulator.components.network.link import NetworkLink
from happysimulator.components.network.network import Network
from happysimulator.distributions.constant import ConstantLatency

FACT = {"GCounter": GCounter, "PNCounter": PNCounter, "ORSet": ORSet}
KEY = "k"
END_S = 4.9
READ_S = 4.6
TIMES = (0.5, 1.5)
SYMMETRIC = ("mesh", "star")


def peer_lists(topo, n):
    """index lists: peers[i] = indices store i lists as peers."""
    if topo == "mesh":
        return [[j for j in range(n) if j != i] for i in range(n)]
    if topo == "ring":
        return [[(i + 1) % n] for i in range(n)]
    if topo == "star":
        return [[j for j in range(1, n)]] + [[0] for _ in range(1, n)]
    if topo == "newcomer-out":
        return [[j for j in range(n - 1) if j != i] for i in range(n - 1)] + [list(range(n - 1))]
    if topo == "newcomer-in":
        return [[j for j in range(n) if j != i] for i in range(n - 1)] + [[]]
    if topo == "oneway":
        return [[1]] + [[] for _ in range(1, n)]
    if topo == "oneway-rev":
        return [[]] + [[0]] + [[] for _ in range(2, n)]
    raise AssertionError(topo)


def _factory(typ):
    cls = FACT[typ]
    return lambda nid: cls(nid)


def alphabet(typ, n, elements=("x", "y")):
    if typ == "GCounter":
        ops = [("increment", 1), ("increment", 2)]
    elif typ == "PNCounter":
        ops = [("increment", 1), ("decrement", 2)]
    else:
        ops = [("add", e) for e in elements] + [("remove", elements[0])]
    return [(t, s, op, v) for t in TIMES for s in range(n) for (op, v) in ops]


def programs(typ, n, max_writes, elements=("x", "y"), topo="mesh"):
    """All multisets of 1..max_writes writes.  For the mesh (stores interchangeable up to their names) only
    those whose first (earliest, lowest-numbered) writer is store 0."""
    alpha = alphabet(typ, n, elements)
    out = []
    for k in range(1, max_writes + 1):
        for prog in itertools.combinations_with_replacement(alpha, k):
            if topo == "mesh" and prog[0][1] != 0:
                continue
            out.append(prog)
    return out


class Flow:
    """Harness ghost state: the set of writes each store has received, from the delivered messages."""

    def __init__(self, stores):
        self.names = [s.name for s in stores]
        self.is_store = {id(s) for s in stores}
        self.know = {nm: frozenset() for nm in self.names}
        self.sent = {nm: frozenset() for nm in self.names}
        self.answered = {}
        self.log = []

    def on_event(self, ev):
        tgt = ev.target
        if id(tgt) not in self.is_store:
            return
        nm = tgt.name
        et = ev.event_type
        md = ev.context.get("metadata", {}) if isinstance(ev.context, dict) else {}
        if et == "Write":
            w = md.get("wid")
            if w is not None:
                self.know[nm] = self.know[nm] | {w}
                self.log.append((ev.time.nanoseconds, "write", nm, w))
        elif et == "GossipTick":
            self.sent[nm] = self.know[nm]
        elif et == "GossipPush":
            src = md.get("source")
            if src in self.know:
                self.know[nm] = self.know[nm] | self.sent[src]
                self.answered[(nm, src)] = self.know[nm]
                self.log.append((ev.time.nanoseconds, "push", src, nm, sorted(self.know[nm])))
        elif et == "GossipResponse":
            src = md.get("source")
            if (src, nm) in self.answered:
                self.know[nm] = self.know[nm] | self.answered[(src, nm)]
                self.log.append((ev.time.nanoseconds, "response", src, nm, sorted(self.know[nm])))


def run_once(chooser, typ, n, prog, topo="mesh"):
    net = Network(name="net")
    stores = [CRDTStore(f"s{i}", network=net, crdt_factory=_factory(typ), gossip_interval=1.0) for i in range(n)]
    for s, idx in zip(stores, peer_lists(topo, n)):
        s.add_peers([stores[j] for j in idx])
    for i in range(n):
        for j in range(i + 1, n):
            net.add_bidirectional_link(stores[i], stores[j],
                                       NetworkLink(name=f"l{i}{j}", latency=ConstantLatency(0.1)))
    sim = Simulation(start_time=Instant.Epoch, end_time=Instant.from_seconds(END_S), entities=stores + [net])
    evs = [Event(time=Instant.from_seconds(t), event_type="Write", target=stores[i],
                 context={"metadata": {"key": KEY, "operation": op, "value": v, "wid": w}})
           for w, (t, i, op, v) in enumerate(prog)]
    sim.schedule(evs)
    for s in stores:
        g = s.get_gossip_event()
        if g is not None:
            sim.schedule(g)
    # a client reads the key at every store after the last message has been delivered
    replies = []
    for s in stores:
        fut = SimFuture()
        replies.append(fut)
        sim.schedule(Event(time=Instant.from_seconds(READ_S), event_type="Read", target=s,
                           context={"metadata": {"key": KEY, "reply_future": fut}}))
    flow = Flow(stores)
    flow.replies = replies
    with owned_random(chooser):
        r = run_guarded(sim, max_events=4000, storm=300, on_event=flow.on_event)
    return r, stores, flow


def spec_value(typ, prog, known):
    """Specified value for a store that has received the writes with indices ``known``."""
    ws = [prog[w] for w in sorted(known)]
    if typ in ("GCounter", "PNCounter"):
        return sum(v if op == "increment" else -v for (_t, _s, op, v) in ws)
    if any(op == "remove" for (_t, _s, op, _v) in prog):
        return None
    return frozenset(v for (_t, _s, op, v) in ws)


def _empty(typ):
    return 0 if typ in ("GCounter", "PNCounter") else frozenset()


def judge(typ, n, prog, r, stores, flow, topo="mesh"):
    """Returns (violations [(fp, desc)], observation)."""
    out = []
    reps = [s.crdts.get(KEY) for s in stores]
    vals = [_empty(typ) if x is None else x.value for x in reps]
    know = [flow.know[s.name] for s in stores]
    obs = (r["outcome"], tuple(repr(v) for v in vals), tuple(tuple(sorted(k)) for k in know))
    if r["outcome"] != "done":
        return out, obs  # the horizon cut the run: not judged (counted by the caller)
    foreign = any(x is not None and getattr(x, "node_id", s.name) != s.name for x, s in zip(reps, stores))
    nonstr = any(op in ("add", "remove") and not isinstance(v, str) for (_t, _s, op, v) in prog)
    shape = "non-str-element" if nonstr else ("foreign-node-id" if foreign else "plain")
    if topo not in SYMMETRIC:
        shape += "/asymmetric-peers"
    ids = [getattr(x, "node_id", None) for x in reps]
    unequal = []
    for a in range(n):
        for b in range(a + 1, n):
            if know[a] == know[b]:
                same = vals[a] == vals[b]
                if same and reps[a] is not None and reps[b] is not None:
                    same = bool(reps[a] == reps[b])
                if not same:
                    unequal.append((stores[a].name, stores[b].name))
    if unequal:
        out.append((f"CRDTStore/converged/{typ}/{shape}",
                    f"stores {unequal} received the same writes but differ: values {vals}, writes received "
                    f"{[sorted(k) for k in know]} (peer lists '{topo}', replica node_ids {ids})"))
    bad = []
    for i in range(n):
        sv = spec_value(typ, prog, know[i])
        if sv is not None and vals[i] != sv:
            bad.append((stores[i].name, vals[i], sv, sorted(know[i])))
    # what a client reading through a Read event is told (only for stores whose replica value conforms)
    badr = []
    wrong = {b[0] for b in bad}
    for i, fut in enumerate(getattr(flow, "replies", [])):
        sv = spec_value(typ, prog, know[i])
        if sv is None or stores[i].name in wrong:
            continue
        if not fut.is_resolved:
            badr.append((stores[i].name, "no reply", sv))
            continue
        got = fut.value.get("value") if isinstance(fut.value, dict) else fut.value
        if got is None and reps[i] is None:
            got = _empty(typ)
        if got != sv:
            badr.append((stores[i].name, got, sv))
    if badr:
        out.append((f"CRDTStore/read-value/{typ}/{shape}",
                    f"(store, value returned to a Read at {READ_S} s, value specified for the writes it received): "
                    f"{badr}; writes {list(prog)} (peer lists '{topo}')"))
    if bad:
        out.append((f"CRDTStore/quiescent-value/{typ}/{shape}",
                    f"(store, value held, value specified for the writes it received, indices of those writes): "
                    f"{bad}; writes {list(prog)} (peer lists '{topo}', replica node_ids {ids})"))
    return out, obs


def work(job):
    typ, n, progs, bound, elements, topo = job
    st = {"exec": 0, "trans": 0, "nontriv": set(), "outcomes": set(), "viol": {}, "samples": [],
          "unfinished": 0, "points": 0, "all_full": 0, "unlisted_push": 0}
    plists = peer_lists(topo, n)
    for prog in progs:
        def run_fn(ch, prog=prog):
            return run_once(ch, typ, n, prog, topo)

        for choices, points, (r, stores, flow) in explore(run_fn, bound=bound):
            st["exec"] += 1
            st["trans"] += r["events"]
            st["points"] = max(st["points"], len(points))
            v, obs = judge(typ, n, prog, r, stores, flow, topo)
            st["outcomes"].add(hash((topo, prog, obs)))
            if r["outcome"] != "done":
                st["unfinished"] += 1
            full = frozenset(range(len(prog)))
            if all(flow.know[s.name] == full for s in stores):
                st["all_full"] += 1
            if any(e[1] == "push" and int(e[2][1:]) not in plists[int(e[3][1:])] for e in flow.log):
                st["unlisted_push"] += 1
            # non-trivial: some store holds (by delivered gossip) a write issued at another store
            if any(prog[w][1] != i for i, s in enumerate(stores) for w in flow.know[s.name]):
                st["nontriv"].add(hash((topo, prog, tuple(choices))))
            for fp, desc in v:
                if fp not in st["viol"]:
                    st["viol"][fp] = (desc, {"driver": "store", "typ": typ, "n": n, "program": prog,
                                             "choices": list(choices), "topo": topo})
            if len(st["samples"]) < 1 and st["exec"] % 53 == 7:
                st["samples"].append({"typ": typ, "n": n, "peer_lists": topo, "program": prog,
                                      "choices": list(choices), "values": obs[1], "writes_received": obs[2]})
    st["nontriv"] = len(st["nontriv"])
    return st


def replay(rep):
    def thaw(x):
        return tuple(thaw(i) for i in x) if isinstance(x, list) else x

    prog = thaw(rep["program"])
    typ, n = rep["typ"], rep["n"]
    topo = rep.get("topo", "mesh")
    ch = Chooser(prefix=rep["choices"])
    r, stores, flow = run_once(ch, typ, n, prog, topo)
    print(f"store replay: {n} x CRDTStore({typ}), peer lists '{topo}' = {peer_lists(topo, n)}, "
          f"writes={list(enumerate(prog))}, peer choices={rep['choices']}")
    for e in flow.log:
        print(f"  t={e[0] / 1e9:.1f}s {e[1:]}")
    for s in stores:
        x = s.crdts.get(KEY)
        print(f"  {s.name}: value={None if x is None else x.value!r} replica node_id="
              f"{getattr(x, 'node_id', None)} writes received={sorted(flow.know[s.name])} stats={s.stats}")
    v, _obs = judge(typ, n, prog, r, stores, flow, topo)
    for fp, desc in v:
        print(f"    !! {fp}: {desc}")
    return [fp for fp, _ in v]

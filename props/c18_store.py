"""C18 part C — CRDTStore gossip in a real Simulation: convergence to the specified value at quiescence.

Closed system: n CRDTStore entities on a real Network (full mesh, constant 0.1 s links, no loss, no
partition), gossip_interval 1 s started through the public ``get_gossip_event()``.  A *program* is a
small set of Write events (time in {0.5, 1.5} s, store, operation, value) on one key.  The only
nondeterminism - ``random.choice(peers)`` in every gossip tick - is owned by the chooser
(mc.harness.owned_random) and explored by mc.choice.explore (all sequences for 2 stores where there
is a single peer; deviation-bounded for 3 stores).  The run ends at 4.9 s: after the last write every
store executes 3 complete push/pull rounds (2.0, 3.0, 4.0 s; every message is delivered 0.1 s after
it is sent), which is enough for every update to reach every store whatever peers are chosen (n <= 3:
round 1 gives the update to a second store, in round 2 the third store necessarily exchanges with a
store that has it).

Oracle at quiescence (statement: "replicas that have received the same updates are equal ... and their
value is the specified one"):
  converged        every store has the key, all values are equal and the replicas compare equal (==)
  quiescent-value  counters: value == sum(increments) - sum(decrements) of ALL writes of the program;
                   OR-set programs without remove: value == set of added elements.  (OR-set programs with
                   removes are only checked for convergence here; their specified value depends on which
                   adds each remove observed and is decided by the replica-level driver.)
Shape class of a violation: 'foreign-node-id' when some store holds a replica whose public ``node_id`` is
another store's name, 'non-str-element' when the program writes a non-string element, else 'plain'.
"""
from __future__ import annotations

import itertools

from mc.choice import Chooser, explore
from mc.harness import Event, Instant, Simulation, owned_random, run_guarded

from happysimulator.components.crdt.crdt_store import CRDTStore
from happysimulator.components.crdt.g_counter import GCounter
from happysimulator.components.crdt.or_set import ORSet
from happysimulator.components.crdt.pn_counter import PNCounter
from happysimulator.components.network.link import NetworkLink
from happysimulator.components.network.network import Network
from happysimulator.distributions.constant import ConstantLatency

FACT = {"GCounter": GCounter, "PNCounter": PNCounter, "ORSet": ORSet}
KEY = "k"
END_S = 4.9
TIMES = (0.5, 1.5)


def _factory(typ):
    cls = FACT[typ]
    return lambda nid: cls(nid)


def alphabet(typ, n, elements=("x", "y")):
    if typ == "GCounter":
        ops = [("increment", 1), ("increment", 2)]
    elif typ == "PNCounter":
        ops = [("increment", 1), ("decrement", 2)]
    else:
        ops = [("add", e) for e in elements] + [("remove", elements[0])]
    return [(t, s, op, v) for t in TIMES for s in range(n) for (op, v) in ops]


def programs(typ, n, max_writes, elements=("x", "y")):
    """All multisets of 1..max_writes writes whose first (earliest, lowest-numbered) writer is store 0
    (stores are interchangeable up to their names)."""
    alpha = alphabet(typ, n, elements)
    out = []
    for k in range(1, max_writes + 1):
        for prog in itertools.combinations_with_replacement(alpha, k):
            if prog[0][1] != 0:
                continue
            out.append(prog)
    return out


def run_once(chooser, typ, n, prog):
    net = Network(name="net")
    stores = [CRDTStore(f"s{i}", network=net, crdt_factory=_factory(typ), gossip_interval=1.0) for i in range(n)]
    for s in stores:
        s.add_peers([p for p in stores if p is not s])
    for i in range(n):
        for j in range(i + 1, n):
            net.add_bidirectional_link(stores[i], stores[j],
                                       NetworkLink(name=f"l{i}{j}", latency=ConstantLatency(0.1)))
    sim = Simulation(start_time=Instant.Epoch, end_time=Instant.from_seconds(END_S), entities=stores + [net])
    evs = [Event(time=Instant.from_seconds(t), event_type="Write", target=stores[i],
                 context={"metadata": {"key": KEY, "operation": op, "value": v}}) for (t, i, op, v) in prog]
    sim.schedule(evs)
    for s in stores:
        g = s.get_gossip_event()
        if g is not None:
            sim.schedule(g)
    with owned_random(chooser):
        r = run_guarded(sim, max_events=4000, storm=300)
    return r, stores


def spec_value(typ, prog):
    if typ in ("GCounter", "PNCounter"):
        return sum(v if op == "increment" else -v for (_t, _s, op, v) in prog)
    if any(op == "remove" for (_t, _s, op, _v) in prog):
        return None
    return frozenset(v for (_t, _s, op, v) in prog)


def judge(typ, n, prog, r, stores):
    """Returns (violations [(fp, desc)], observation)."""
    out = []
    reps = [s.crdts.get(KEY) for s in stores]
    vals = [None if x is None else x.value for x in reps]
    obs = (r["outcome"], tuple(repr(v) for v in vals))
    if r["outcome"] != "done":
        return out, obs  # no quiescence reached inside the horizon: not judged (counted by the caller)
    foreign = any(x is not None and getattr(x, "node_id", s.name) != s.name for x, s in zip(reps, stores))
    nonstr = any(op in ("add", "remove") and not isinstance(v, str) for (_t, _s, op, v) in prog)
    shape = "non-str-element" if nonstr else ("foreign-node-id" if foreign else "plain")
    conv = all(x is not None for x in reps)
    if conv:
        for a in range(n):
            for b in range(a + 1, n):
                if vals[a] != vals[b] or not (reps[a] == reps[b]):
                    conv = False
    if not conv:
        out.append((f"CRDTStore/converged/{typ}/{shape}",
                    f"after 3 full gossip rounds following the last write the stores hold {vals} for key {KEY!r} "
                    f"(replica node_ids {[getattr(x, 'node_id', None) for x in reps]})"))
    sv = spec_value(typ, prog)
    if sv is not None:
        bad = [i for i in range(n) if vals[i] != sv]
        if bad and (conv or typ != "ORSet"):
            out.append((f"CRDTStore/quiescent-value/{typ}/{shape}",
                        f"stores hold {vals} for key {KEY!r} at quiescence, the writes {list(prog)} specify {sv!r} "
                        f"(replica node_ids {[getattr(x, 'node_id', None) for x in reps]})"))
        elif bad and not conv:
            pass  # already reported as not converged
    return out, obs


def work(job):
    typ, n, progs, bound, elements = job
    st = {"exec": 0, "trans": 0, "nontriv": set(), "outcomes": set(), "viol": {}, "samples": [],
          "unfinished": 0, "points": 0}
    for prog in progs:
        def run_fn(ch, prog=prog):
            r, stores = run_once(ch, typ, n, prog)
            return r, stores

        for choices, points, (r, stores) in explore(run_fn, bound=bound):
            st["exec"] += 1
            st["trans"] += r["events"]
            st["points"] = max(st["points"], len(points))
            v, obs = judge(typ, n, prog, r, stores)
            st["outcomes"].add(hash((prog, obs)))
            if r["outcome"] != "done":
                st["unfinished"] += 1
            if len({w[1] for w in prog}) > 1 or any(s.stats.keys_merged for s in stores if s.stats.writes):
                st["nontriv"].add(hash((prog, tuple(choices))))
            for fp, desc in v:
                if fp not in st["viol"]:
                    st["viol"][fp] = (desc, {"driver": "store", "typ": typ, "n": n, "program": prog,
                                             "choices": list(choices)})
            if len(st["samples"]) < 1 and st["exec"] % 53 == 7:
                st["samples"].append({"typ": typ, "n": n, "program": prog, "choices": list(choices),
                                      "values": obs[1]})
    st["nontriv"] = len(st["nontriv"])
    return st


def replay(rep):
    def thaw(x):
        return tuple(thaw(i) for i in x) if isinstance(x, list) else x

    prog = thaw(rep["program"])
    typ, n = rep["typ"], rep["n"]
    ch = Chooser(prefix=rep["choices"])
    r, stores = run_once(ch, typ, n, prog)
    print(f"store replay: {n} x CRDTStore({typ}), writes={list(prog)}, peer choices={rep['choices']}")
    for s in stores:
        x = s.crdts.get(KEY)
        print(f"  {s.name}: value={None if x is None else x.value!r} replica node_id="
              f"{getattr(x, 'node_id', None)} stats={s.stats}")
    v, _obs = judge(typ, n, prog, r, stores)
    for fp, desc in v:
        print(f"    !! {fp}: {desc}")
    return [fp for fp, _ in v]

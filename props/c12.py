"""C12 — Paxos-family protocols decide at most one value per instance, and a proposed one;
leader election reports one leader per term; distributed-lock fencing tokens increase.

Engine E1 (mc/bfs.py): breadth-first search over worlds of REAL library objects
(PaxosNode / FlexiblePaxosNode / MultiPaxosNode / LeaderElection / DistributedLock
wired to a real Network factory and Clock).  A move hands exactly one pending thing
(an in-flight message, a timer event, a client call) to the real handler; a message
that is never delivered models loss and partitions; ghost variables record what the
nodes have *reported* so far.  Several sharp scenario worlds per protocol, each
explored to exhaustion under its state constraints, run in parallel (one world per
worker).  Helpers: props/c12_worlds.py (base world), c12_paxos.py, c12_logpaxos.py,
c12_le_dl.py.
"""
from __future__ import annotations

import functools
import importlib
import os
import pickle
import sys
import time

from mc import bfs
from mc.evidence import Run, digest
from mc.harness import pool, rotate

PID = "C12"

CLASSES = {
    "paxos": ("props.c12_paxos", "PaxosWorld"),
    "log": ("props.c12_logpaxos", "LogPaxosWorld"),
    "le": ("props.c12_le_dl", "LEWorld"),
    "dl": ("props.c12_le_dl", "DLWorld"),
}

AC = (("a", "c"), ("c", "a"))
BC = (("b", "c"), ("c", "b"))
AB = (("a", "b"), ("b", "a"))
MUTE_D = ("PaxosDecided",)


def worlds(tier):
    """(name, class key, kwargs, max_states).  Every world is a state-constrained space explored to exhaustion;
    max_states is only a safety net (hitting it is reported as a cap, exhaustive=False)."""
    W = []
    q = tier == "quick"
    # ---- single-decree Paxos -------------------------------------------------------------------
    # one proposer, fault-free, every delivery order: liveness clause + safety
    W.append(("paxos-live-1proposer-n3", "paxos", dict(n=3, proposers=(0,), max_retries=0, live=True), 50_000))
    W.append(("paxos-live-1proposer-n3-late-id", "paxos", dict(n=3, proposers=(2,), max_retries=0, live=True), 50_000))
    # two competing proposers, one link never delivers (partition of one pair), learners included
    for nm, cut in (("ac", AC), ("bc", BC)):
        W.append((f"paxos-2prop-cut-{nm}", "paxos",
                  dict(n=3, proposers=(0, 1), max_retries=0, max_ballot=3, cut=cut), 150_000))
    # the two proposers cannot talk to each other, both reach acceptor c; retries after nacks
    W.append(("paxos-2prop-retries-cut-ab", "paxos",
              dict(n=3, proposers=(0, 1), max_retries=1 if q else 2, max_ballot=3 if q else 4, cut=AB), 300_000))
    # lossy higher proposer: a (lower ballot) and c (higher) compete; c's Prepare to b, c's Accept to a and a's
    # Accept to c are always lost, Decided broadcasts never arrive; one retry of a after a nack
    lossy = (("PaxosPrepare", "c", "b"), ("PaxosAccept", "c", "a"), ("PaxosAccept", "a", "c"))
    W.append(("paxos-hi-proposer-lossy", "paxos",
              dict(n=3, proposers=(0, 2), max_retries=1, max_ballot=2, mute=MUTE_D, drop=lossy, max_moves=16), 300_000))
    if not q:
        W.append(("paxos-hi-proposer-lossy-wide", "paxos",
                  dict(n=3, proposers=(0, 2), max_retries=1, max_ballot=3, mute=MUTE_D, drop=lossy[:2], max_moves=16),
                  600_000))
        W.append(("paxos-hi-proposer-lossy-mirror", "paxos",
                  dict(n=3, proposers=(0, 2), max_retries=1, max_ballot=3, mute=MUTE_D,
                       drop=(("PaxosPrepare", "c", "a"), ("PaxosAccept", "c", "b"), ("PaxosAccept", "a", "c")),
                       max_moves=16), 600_000))
    # even cluster size: 4 nodes, a reaches b,c and b reaches a,d
    W.append(("paxos-2prop-n4-two-cuts", "paxos",
              dict(n=4, proposers=(0, 1), max_retries=0, max_ballot=2, mute=MUTE_D,
                   cut=(("a", "d"), ("d", "a"), ("b", "c"), ("c", "b")), max_moves=11 if q else 14), 600_000))
    # two competing proposers + one retry after a nack, Decided broadcasts never delivered
    for nm, cut in (("ac", AC), ("bc", BC)):
        W.append((f"paxos-2prop-retry1-cut-{nm}", "paxos",
                  dict(n=3, proposers=(0, 1), max_retries=1, max_ballot=3, mute=MUTE_D, cut=cut,
                       max_moves=13 if q else 16), 600_000))
    # two competing proposers, all links, bounded number of moves
    W.append(("paxos-2prop-all-links", "paxos",
              dict(n=3, proposers=(0, 1), max_retries=0, max_ballot=2, mute=MUTE_D, max_moves=12 if q else 14),
              800_000))
    if not q:
        W.append(("paxos-2prop-all-links-learners", "paxos",
                  dict(n=3, proposers=(0, 1), max_retries=0, max_ballot=2, max_moves=13), 600_000))
        W.append(("paxos-2prop-retry1-all-links", "paxos",
                  dict(n=3, proposers=(0, 1), max_retries=1, max_ballot=3, mute=MUTE_D, max_moves=13), 600_000))
        W.append(("paxos-2prop-retry2-cut-ac", "paxos",
                  dict(n=3, proposers=(0, 1), max_retries=2, max_ballot=4, mute=MUTE_D, cut=AC, max_moves=16), 600_000))
        W.append(("paxos-2prop-retry2-cut-bc", "paxos",
                  dict(n=3, proposers=(0, 1), max_retries=2, max_ballot=4, mute=MUTE_D, cut=BC, max_moves=15), 600_000))
        W.append(("paxos-3prop-all-links", "paxos",
                  dict(n=3, proposers=(0, 1, 2), max_retries=0, max_ballot=3, mute=MUTE_D, max_moves=8), 600_000))
        W.append(("paxos-double-proposal-one-node", "paxos",
                  dict(n=3, proposers=(0,), double=True, max_retries=1, max_ballot=4, max_moves=12), 600_000))
        W.append(("paxos-live-1proposer-n4", "paxos", dict(n=4, proposers=(1,), max_retries=0, live=True), 600_000))
        # 5 nodes: a reaches c,d; b reaches d,e; every other link is cut (quorums {a,c,d} and {b,d,e} meet in d)
        keep = {("a", "c"), ("a", "d"), ("b", "d"), ("b", "e")}
        cut5 = tuple((x, y) for x in "abcde" for y in "abcde"
                     if x != y and (x, y) not in keep and (y, x) not in keep)
        W.append(("paxos-2prop-n5-sparse-links", "paxos",
                  dict(n=5, proposers=(0, 1), max_retries=0, max_ballot=2, mute=MUTE_D, cut=cut5, max_moves=14),
                  600_000))
    # ---- Multi-Paxos / Flexible Paxos ------------------------------------------------------------
    flexq = [(3, 2, 2)] if q else [(3, 2, 2), (3, 1, 3), (3, 3, 1), (4, 3, 2), (4, 2, 3)]
    kinds = [("multi", 3, None, None)] + [("flex", n, q1, q2) for n, q1, q2 in flexq]
    for kind, n, q1, q2 in kinds:
        tag = "multi" if kind == "multi" else f"flex-n{n}-q{q1}{q2}"
        base = dict(kind=kind, n=n, q1=q1, q2=q2)
        # liveness: one leader, fault-free, bounded delays; commands queued before / submitted after leadership
        # (4 nodes with a phase-1 quorum of 1-2: every further promise re-runs _become_leader and the space
        #  explodes; those pairs are exercised on the real engine by the sim-binding driver instead)
        if not (n == 4 and q1 is not None and q1 <= 2):
            W.append((f"{tag}-live-presubmit", "log",
                      dict(base, presubmit=((0, "c1"),), starters=(0,), max_hb=3, bounded=True, live=True), 150_000))
            W.append((f"{tag}-live-submit-to-leader", "log",
                      dict(base, presubmit=(), starters=(0,), late_cmds=("c1",), max_hb=3, bounded=True, live=True),
                      150_000))
        # safety: one leader, two commands, any delivery order (reordering only, nothing lost or cut)
        W.append((f"{tag}-1leader-2cmds", "log",
                  dict(base, presubmit=((0, "c1"),), starters=(0,), late_cmds=("c2",), max_hb=0,
                       max_moves=(10 if q else (12 if q1 == 1 else 13)) if n == 3 else 10), 400_000))
        # safety: competing leaders (take-over), one command each
        W.append((f"{tag}-takeover", "log",
                  dict(base, presubmit=((0, "c1"), (n - 1, "c2")), starters=(0, n - 1), max_starts=2, max_hb=0,
                       max_moves=(10 if kind == "multi" else 9) if q else (11 if (kind == "multi" or (n, q1, q2) == (3, 2, 2)) else
                                               ((8 if q1 == 1 else 10) if n == 3 else 9))), 600_000))
    # asymmetric Flexible Paxos quorums in the quick tier too: (3,1) = every promise needed, one acceptance enough;
    # (1,3) the reverse.  Two competing candidates, one queued command each, explored to exhaustion.
    if q:
        for q1, q2, mm in ((3, 1, 10), (1, 3, 7)):
            W.append((f"flex-n3-q{q1}{q2}-takeover", "log",
                      dict(kind="flex", n=3, q1=q1, q2=q2, presubmit=((0, "c1"), (2, "c2")), starters=(0, 2),
                           max_starts=2, max_hb=0, max_moves=mm), 400_000))
    # two simultaneous candidates that never hear each other's Prepare (equal ballot NUMBERS (1,a) / (1,c)), each with
    # its own queued command; then the winner's heartbeat carries the commit index to the loser
    cross = lambda pre: ((pre + "Prepare", "a", "c"), (pre + "Prepare", "c", "a"))  # noqa: E731
    for kind, pre in ((("flex", "FlexPaxos"),) if q else (("flex", "FlexPaxos"), ("multi", "MultiPaxos"))):
        W.append((f"{'flex-n3-q22' if kind == 'flex' else 'multi'}-2candidates-heartbeat", "log",
                  dict(kind=kind, q1=2 if kind == "flex" else None, q2=2 if kind == "flex" else None,
                       presubmit=((0, "c1"), (2, "c2")), starters=(0, 2), max_starts=2, max_hb=1, timer_nodes=("c",),
                       drop=cross(pre), max_moves=10), 400_000))
    # one stable leader, three commands in flight, fault-free; Accepts arrive in slot order, the acknowledgements
    # in any order (the acks of the early slot may arrive last); liveness clause on the leader at quiescence
    W.append(("multi-1leader-3cmds-acks-reordered", "log",
              dict(kind="multi", presubmit=((0, "c1"), (0, "c2"), (0, "c3")), starters=(0,), max_hb=0, bounded=True,
                   live=True, fifo=("MultiPaxosAccept",)), 400_000))
    if not q:
        W.append(("multi-1leader-3cmds-any-order", "log",
                  dict(kind="multi", presubmit=((0, "c1"), (0, "c2"), (0, "c3")), starters=(0,), max_hb=0, bounded=True,
                       live=True), 400_000))
        W.append(("flex-n3-q22-1leader-3cmds-acks-reordered", "log",
                  dict(kind="flex", q1=2, q2=2, presubmit=((0, "c1"), (0, "c2"), (0, "c3")), starters=(0,), max_hb=0,
                       bounded=True, live=True, fifo=("FlexPaxosAccept",)), 400_000))
    # the SAME node leads twice: a leads, is cut off from c before its own entry is replicated, c leads and gets a
    # different command decided with b, then a runs Phase 1 again holding its stale own entry
    for kind in (("flex",) if q else ("flex", "multi")):
        W.append((f"{'flex-n3-q22' if kind == 'flex' else 'multi'}-same-node-leads-twice", "log",
                  dict(kind=kind, q1=2 if kind == "flex" else None, q2=2 if kind == "flex" else None,
                       presubmit=((0, "c1"), (2, "c2")), starters=(0, 2), starts_each=2, max_starts=3, max_hb=0,
                       cut=AC, max_moves=13), 400_000))
    # leader hand-off window: a is the established leader; c attempts a take-over; two client commands arrive
    # during the hand-off, each at whichever node reports is_leader at that moment (old or new leader)
    W.append(("multi-handoff-2cmds", "log",
              dict(kind="multi", presubmit=(), establish=(0,), starters=(2,), max_starts=2, late_cmds=("x", "y"),
                   forward=True, max_hb=0, max_moves=10 if q else 12), 600_000))
    if not q:
        W.append(("flex-n3-q22-handoff-2cmds", "log",
                  dict(kind="flex", q1=2, q2=2, presubmit=(), establish=(0,), starters=(2,), max_starts=2,
                       late_cmds=("x", "y"), max_hb=0, max_moves=12), 600_000))
        W.append(("multi-handoff-2cmds-heartbeat", "log",
                  dict(kind="multi", presubmit=(), establish=(0,), starters=(2,), max_starts=2, late_cmds=("x", "y"),
                       forward=True, max_hb=1, max_moves=11), 600_000))
    if not q:
        # liveness for every other intersecting (phase-1, phase-2) quorum pair of 3 and 4 nodes, and 5-node clusters
        done = {(n, q1, q2) for n, q1, q2 in flexq}
        for n in (3, 4):
            for q1 in range(1, n + 1):
                for q2 in range(1, n + 1):
                    if q1 + q2 > n and (n, q1, q2) not in done and not (n == 4 and q1 <= 2):
                        base = dict(kind="flex", n=n, q1=q1, q2=q2)
                        W.append((f"flex-n{n}-q{q1}{q2}-live-presubmit", "log",
                                  dict(base, presubmit=((0, "c1"),), starters=(0,), max_hb=3, bounded=True, live=True),
                                  150_000))
                        W.append((f"flex-n{n}-q{q1}{q2}-live-submit-to-leader", "log",
                                  dict(base, presubmit=(), starters=(0,), late_cmds=("c1",), max_hb=3, bounded=True,
                                       live=True), 150_000))
        W.append(("multi-forward-event", "log",
                  dict(kind="multi", presubmit=(), starters=(0,), late_cmds=("c1",), forward=True, max_hb=3,
                       bounded=True, live=True), 100_000))
        W.append(("multi-takeover-heartbeats", "log",
                  dict(kind="multi", presubmit=((0, "c1"), (2, "c2")), starters=(0, 2), max_starts=2, max_hb=1,
                       cut=AB, max_moves=13), 600_000))
    # ---- leader election ---------------------------------------------------------------------------
    for strat in ("bully", "ring", "randomized"):
        W.append((f"le-{strat}-full-views", "le",
                  dict(strategy=strat, views="full", max_timers=6, max_moves=(9 if strat == "randomized" else 11)
                       if q else (10 if strat == "randomized" else 13)), 300_000))
    for strat in ("bully", "ring"):
        W.append((f"le-{strat}-late-join-c", "le",
                  dict(strategy=strat, views="late-c", max_timers=6, max_moves=10 if q else 12), 300_000))
    # second election round: a first round has completed (all name the same leader), then election timeouts fire
    # although the leader is alive (its heartbeats are late) - full member views
    for strat in ("ring", "bully"):
        W.append((f"le-{strat}-second-round", "le",
                  dict(strategy=strat, views="full", establish=True, heartbeat_s=2.0, max_timers=6 if q else 8,
                       max_moves=10 if q else 13), 300_000))
    if not q:
        W.append(("le-bully-late-join-a", "le", dict(strategy="bully", views="late-a", max_timers=6, max_moves=12),
                  300_000))
        W.append(("le-bully-full-views-n4", "le", dict(strategy="bully", n=4, views="full", max_timers=6,
                                                       max_moves=10), 300_000))
        W.append(("le-randomized-desc", "le", dict(strategy="randomized", views="full", rand="desc", max_timers=6,
                                                   max_moves=9), 300_000))
    # ---- distributed lock -----------------------------------------------------------------------------
    W.append(("dl-2req-1lock", "dl", dict(requesters=2, locks=1, max_ops=7 if q else 10), 300_000))
    W.append(("dl-3req-1lock", "dl", dict(requesters=3, locks=1, max_ops=5 if q else 7), 300_000))
    W.append(("dl-2req-2locks", "dl", dict(requesters=2, locks=2, max_ops=5 if q else 6), 300_000))
    if not q:
        W.append(("dl-2req-1lock-maxwaiters1", "dl", dict(requesters=3, locks=1, max_ops=6, max_waiters=1), 300_000))
    return W


def make(cls_key, kw):
    mod, cls = CLASSES[cls_key]
    return getattr(importlib.import_module(mod), cls)(**kw)


def _run_world(job):
    name, cls_key, kw, max_states, max_seconds = job
    t0 = time.time()
    stats = {"nontrivial": 0, "leaves": 0, "outcomes": set()}

    def on_state(key, blob):
        w = pickle.loads(blob)
        if getattr(w, "conflict", None) is not None and w.conflict():
            stats["nontrivial"] += 1
        oc = getattr(w, "outcome", None)
        if oc is not None:
            stats["outcomes"].add(digest(oc()))
        if not w.within():
            stats["leaves"] += 1

    mk = functools.partial(make, cls_key, kw)
    r = bfs.bfs(mk, max_states=max_states, max_seconds=max_seconds, on_state=on_state)
    viol = []
    for fp, desc, trace in r.violations:
        # rule 2: re-run the violating schedule from scratch, without the explorer, before reporting it
        _w, again = bfs.replay(mk, trace, verbose=False)
        if fp not in {f for f, _ in again}:
            raise RuntimeError(f"{name}: violation {fp} did not reproduce on replay: {trace}")
        viol.append((fp, desc, {"driver": name, "world": cls_key, "params": kw, "trace": trace}))
    return {
        "name": name, "cls": cls_key, "kw": kw, "states": r.states, "transitions": r.transitions,
        "depth": r.depth, "exhaustive": r.exhaustive, "caps": r.caps, "terminal": r.terminal_states,
        "leaves": stats["leaves"], "nontrivial": stats["nontrivial"], "outcomes": len(stats["outcomes"]),
        "levels": r.level_sizes, "samples": r.sample_traces[:2], "viol": viol, "wall": time.time() - t0,
    }


# ---------------------------------------------------------------------------
# engine / network binding: the same liveness premise on the REAL Simulation + Network + NetworkLink
# ---------------------------------------------------------------------------
def _sim_binding(job):
    """Single proposer / single leader on the real engine with constant per-link latencies (every
    assignment of the latency menu to the links), nothing lost.  Validates the harness' delivery
    model end to end and evaluates the liveness clause at the end of a 6 s run."""
    import itertools

    from mc.harness import Event, Instant, Simulation, run_guarded
    from happysimulator.components.consensus.flexible_paxos import FlexiblePaxosNode
    from happysimulator.components.consensus.multi_paxos import MultiPaxosNode
    from happysimulator.components.consensus.paxos import PaxosNode
    from happysimulator.components.network.link import NetworkLink
    from happysimulator.components.network.network import Network
    from happysimulator.distributions.constant import ConstantLatency
    from props.c12_logpaxos import RecSM

    name, menu_ms, thorough = job
    t0 = time.time()
    res = {"name": name, "cls": "sim", "kw": {"latency_menu_ms": list(menu_ms), "duration_s": 6,
                                              "clusters": "3 (every latency assignment); 4, 5 (rotating assignments)"},
           "states": 0, "transitions": 0, "depth": 0, "exhaustive": True, "caps": [], "terminal": 0, "leaves": 0,
           "nontrivial": 0, "outcomes": 0, "levels": [], "samples": [], "viol": [], "wall": 0.0}
    outcomes = set()
    # (kind, n, q1, q2)
    configs = [("paxos", 3, None, None), ("multi", 3, None, None)]
    for n in (3, 4):
        configs += [("flex", n, q1, q2) for q1 in range(1, n + 1) for q2 in range(1, n + 1) if q1 + q2 > n]
    if thorough:
        configs += [("paxos", 4, None, None), ("paxos", 5, None, None), ("multi", 4, None, None),
                    ("multi", 5, None, None), ("flex", 5, 2, 4), ("flex", 5, 3, 3), ("flex", 5, 4, 2)]
    for kind, n, q1, q2 in configs:
        pairs = [(i, j) for i in range(n) for j in range(i + 1, n)]
        if n == 3:
            assignments = list(itertools.product(menu_ms, repeat=3))
        else:
            assignments = [tuple(menu_ms[(2 * i + j + sh) % len(menu_ms)] for i, j in pairs)
                           for sh in range(len(menu_ms))] + [tuple(m for _ in pairs) for m in menu_ms]
        for lat in assignments:
            for proposer in (0, n - 1):
                net = Network(name="net")
                if kind == "paxos":
                    nodes = [PaxosNode(f"n{i}", net) for i in range(n)]
                elif kind == "multi":
                    nodes = [MultiPaxosNode(f"n{i}", net, state_machine=RecSM(), heartbeat_interval=1.0)
                             for i in range(n)]
                else:
                    nodes = [FlexiblePaxosNode(f"n{i}", net, peers=[None] * (n - 1), state_machine=RecSM(),
                                               phase1_quorum=q1, phase2_quorum=q2, heartbeat_interval=1.0)
                             for i in range(n)]
                for nd in nodes:
                    nd.set_peers(nodes)
                for (i, j), ms in zip(pairs, lat):
                    net.add_bidirectional_link(nodes[i], nodes[j],
                                               NetworkLink(name=f"l{i}{j}", latency=ConstantLatency(ms / 1000.0)))
                p = nodes[proposer]
                if kind == "paxos":
                    fut = p.propose("v")
                    start = p.start_phase1
                else:
                    fut = p.submit("c1")
                    start = p.start
                sim = Simulation(start_time=Instant.Epoch, duration=6.0, entities=[net, *nodes])
                sim.schedule(Event.once(time=Instant.from_seconds(0.01), event_type="Go", fn=lambda e, f=start: f()))
                out = run_guarded(sim, max_events=20000, storm=2000)
                res["transitions"] += out["events"]
                res["terminal"] += 1
                if kind == "paxos":
                    obs = tuple((nd.is_decided, nd.decided_value) for nd in nodes) + (fut.is_resolved,)
                    ok = all(nd.is_decided and nd.decided_value == "v" for nd in nodes) and fut.is_resolved \
                        and fut.value == "v"
                    fp = "Paxos/liveness/single-proposer-not-decided-everywhere"
                else:
                    obs = tuple((nd.log.commit_index, tuple(nd._state_machine.applied), nd.is_leader) for nd in nodes)
                    ok = all(nd._state_machine.applied == ["c1"] for nd in nodes)
                    proto = "MultiPaxos" if kind == "multi" else "FlexiblePaxos"
                    fp = f"{proto}/liveness/" + ("no-heartbeat-timer" if not any(nd.is_leader for nd in nodes)
                                                 else "after-two-heartbeats")
                outcomes.add(digest((kind, n, obs)))
                if out["outcome"] != "done":
                    ok, fp = False, f"{kind}/engine-horizon/{out['outcome']}"
                if len(set(lat)) > 1:
                    res["nontrivial"] += 1
                case = {"driver": name, "world": "sim", "kind": kind, "n": n, "q1": q1, "q2": q2,
                        "latency_ms": list(lat), "proposer": proposer}
                if len(res["samples"]) < 2:
                    res["samples"].append({**case, "observed": obs})
                if not ok and fp not in {v[0] for v in res["viol"]}:
                    res["viol"].append((fp, f"real Simulation, fault-free network, {kind} n={n} q=({q1},{q2}), link "
                                            f"latencies {lat} ms, node n{proposer} proposes/leads: after 6 s nodes "
                                            f"report {obs}", case))
    res["states"] = res["outcomes"] = len(outcomes)
    res["wall"] = time.time() - t0
    return res


def _dispatch(job):
    return _sim_binding(job[1:]) if job[0] == "sim" else _run_world(job)


def main(tier, seed, only=None):
    run = Run(PID, tier, seed, "model_checking",
              rule=("each driver is a world of real consensus objects explored breadth-first to exhaustion under its "
                    "state constraints; states = distinct canonical states (node state a handler reads + in-flight "
                    "message multiset + pending timers + ghost history); transitions = real handler / API calls; "
                    "executions = leaves of the explored graph (quiescent states and states at the bound), each the end "
                    "of at least one complete schedule; non-trivial = distinct states reached through a real conflict: "
                    "Paxos: two ballots of different proposers have met at one acceptor (a nack was sent or a promise "
                    "carried an accepted value or a ballot was superseded); Multi/Flexible Paxos: a second leader "
                    "attempt, or an Accept handled out of slot order, or a command submitted while replication of the "
                    "previous one was in flight; LeaderElection: two nodes have started elections; DistributedLock: a "
                    "waiter was queued, a lease expired, or a stale token was presented; outcomes = distinct "
                    "observation tuples (what every node reports)"),
              assumptions=[
                  "messages are created by the nodes through the real Network.send(); the harness delivers them "
                  "exactly as NetworkLink would (same event type, target = destination, same metadata dict); a "
                  "message never delivered = loss or partition; the network does not duplicate",
                  "Paxos-family worlds: message delays are arbitrary, the clock is frozen; timers fire oldest creation "
                  "epoch first (every such order is realisable by choosing delays and the retry jitter); random.random "
                  "is owned (fixed), its value only affects the timestamp of the retry event",
                  "proposals are made as the repository's tests do (propose() then start_phase1()); commands reach an "
                  "established Multi/Flexible Paxos leader as examples/distributed/flexible_paxos_quorums.py does "
                  "(submit() then replication of the new slot) or through a MultiPaxosForward event",
                  "liveness worlds: no message is withheld, timers fire only when nothing is in flight (delays bounded "
                  "below the timer period), one proposer / one leader attempt; the clause is evaluated at quiescence",
                  "LeaderElection / DistributedLock worlds use real timestamps: timers fire in time order, ties in "
                  "any order; the lock's expiry event is fetched from _pending_expiry as the repository's tests do",
              ])
    jobs = []
    for name, cls_key, kw, max_states in worlds(tier):
        if only and name not in only and cls_key not in only:
            continue
        jobs.append((name, cls_key, kw, max_states, float(os.environ.get("C12_MAXT", "600" if tier == "quick" else "3000"))))
    # biggest first so the pool is balanced; VERIF_SEED only rotates the order among equals
    jobs = rotate(jobs, seed)
    jobs.sort(key=lambda j: -j[3])
    if not only or "sim-binding" in only or "sim" in only:
        jobs.append(("sim", "sim-binding", (1, 5, 20) if tier == "quick" else (1, 5, 20, 100), tier != "quick"))
    results = []
    if len(jobs) > 1 and os.environ.get("VERIF_WORKERS") != "1":
        it = pool().imap_unordered(_dispatch, jobs)
    else:
        it = map(_dispatch, jobs)
    for res in it:
        results.append(res)
        if os.environ.get("C12_PROGRESS"):
            print(f"  .. {res['name']}: states={res['states']} transitions={res['transitions']} "
                  f"exhaustive={res['exhaustive']} {res['caps']} viol={[v[0] for v in res['viol']]} "
                  f"wall={res['wall']:.0f}s", file=sys.stderr, flush=True)
    for res in sorted(results, key=lambda r: r["name"]):
        d = run.driver(res["name"], {"world": res["cls"], **res["kw"]})
        d.states = res["states"]
        d.transitions = res["transitions"]
        d.executions = res["terminal"] + res["leaves"]
        d.nontrivial = res["nontrivial"]
        d.outcomes = res["outcomes"]
        d.exhaustive = res["exhaustive"]
        d.caps = list(res["caps"])
        d.samples = res["samples"]
        d.wall_s = res["wall"]
        d.extra = {"bfs_depth": res["depth"], "level_sizes": res["levels"]}
        for fp, desc, rep in res["viol"]:
            run.violation(fp, desc, rep)
    return run.finish()


def replay(data):
    rep = data["replay"]
    if rep.get("world") == "sim":
        print("sim-binding case", rep, "- re-running the driver's case list")
        res = _sim_binding((rep["driver"], (1, 5, 20, 100), True))
        hit = [v for v in res["viol"] if v[0] == data.get("fingerprint")]
        for v in hit:
            print("  !!", v[0], v[1])
        return 1 if hit else 0
    kw = rep["params"]

    def thaw(x):
        return tuple(thaw(i) for i in x) if isinstance(x, list) else x

    kw = {k: thaw(v) for k, v in kw.items()}
    mk = functools.partial(make, rep["world"], kw)
    print(f"driver {rep['driver']}: world {rep['world']} {kw}")
    print(f"  init:  ->  {mk().describe()}")
    _w, viol = bfs.replay(mk, rep["trace"], verbose=True)
    fps = {f for f, _ in viol}
    want = data.get("fingerprint")
    hit = (want in fps) if want else bool(fps)
    print("reproduced" if hit else "NOT reproduced", sorted(fps))
    return 1 if hit else 0

"""C07 registry: microservice patterns (APIGateway, IdempotencyStore, OutboxRelay, Saga, Sidecar)."""
from __future__ import annotations

from props.c07_core import Backend, Drv, Entity, Event, P, PI, R

from happysimulator.components.microservice import (APIGateway, IdempotencyStore, OutboxRelay, RouteConfig, Saga,
                                                    SagaStep, Sidecar)
from happysimulator.components.rate_limiter import TokenBucketPolicy


class _Svc(Entity):
    """Service taking L, or hanging (beyond every timeout) when the request metadata says 'slow'."""

    def __init__(self, name, L, out=None):
        super().__init__(name)
        self.L, self.out, self.calls = L, out, 0

    def handle_event(self, event):
        self.calls += 1
        slow = event.context.get("metadata", {}).get("slow")
        return self._serve(event, 100.0 if slow else self.L)

    def _serve(self, event, d):
        yield d
        if self.out is not None:
            return [Event(time=self.now, event_type="served", target=self.out, context=event.context)]
        return None


class APIGatewayDrv(Drv):
    """Two routes: 'users' (auth latency L, token bucket 1 req / 0.5 s, timeout 2L+0.75 s, 2 backends) and
    'open' (no auth, no limit)."""
    family = "microservice"
    covers = ("APIGateway", "RouteConfig")
    ops = ("users", "users_slow", "open")

    def build(self, cfg):
        self.b1 = _Svc("b1", cfg.L, self.h.out)
        self.b2 = _Svc("b2", cfg.L, self.h.out)
        routes = {
            "users": RouteConfig(name="users", backends=[self.b1, self.b2],
                                 rate_limit_policy=TokenBucketPolicy(capacity=2.0, refill_rate=R(2.0)),
                                 auth_required=True, timeout=2 * cfg.L + P(0.75)),
            "open": RouteConfig(name="open", backends=[self.b1], auth_required=False),
        }
        self.gw = APIGateway("gw", routes=routes, auth_latency=cfg.L, auth_failure_rate=0.25)
        return [self.b1, self.b2, self.gw]

    def request(self, i, op):
        route = "open" if op == "open" else "users"
        return [self.h.ev(self.gw, "request", {"metadata": {"i": i, "route": route, "slow": op == "users_slow"}})]


class APIGatewayShortTimeoutDrv(Drv):
    """The gateway arms the route timeout AFTER the auth latency: route timeout L/2 < auth latency L, slow backend."""
    family = "microservice"
    covers = ("APIGateway", "RouteConfig")
    ops = ("users", "users_slow")

    def build(self, cfg):
        self.b1 = _Svc("b1", cfg.L, self.h.out)
        t = cfg.L / 2 if cfg.L > 0 else P(0.25)
        routes = {"users": RouteConfig(name="users", backends=[self.b1], auth_required=True, timeout=t)}
        self.gw = APIGateway("gw", routes=routes, auth_latency=cfg.L, auth_failure_rate=0.0)
        return [self.b1, self.gw]

    def request(self, i, op):
        return [self.h.ev(self.gw, "request", {"metadata": {"i": i, "route": "users", "slow": op == "users_slow"}})]


class SidecarShortTimeoutDrv(Drv):
    """Request timeout L/2 below the service time L behind a 1-token/0.5 s limiter: timeouts, retries, circuit opening."""
    family = "microservice"
    covers = ("Sidecar",)
    ops = ("request",)

    def build(self, cfg):
        self.svc = _Svc("svc", cfg.L, self.h.out)
        t = cfg.L / 2 if cfg.L > 0 else P(0.25)
        self.sc = Sidecar("sidecar", target=self.svc, circuit_failure_threshold=2, circuit_success_threshold=1,
                          circuit_timeout=P(1.0), request_timeout=t, max_retries=2, retry_base_delay=P(0.25))
        return [self.svc, self.sc]

    def request(self, i, op):
        return [self.h.ev(self.sc, "request", {"metadata": {"i": i}})]


class IdempotencyStoreDrv(Drv):
    """Same idempotency key for every 'pay' (duplicates while in flight / after completion), TTL 1 s, cleanup 0.5 s."""
    family = "microservice"
    covers = ("IdempotencyStore",)
    ops = ("pay", "pay_other")

    def build(self, cfg):
        self.svc = _Svc("svc", cfg.L, self.h.out)
        ttl, sweep = PI(1.0, 0.5)
        self.ids = IdempotencyStore("idem", target=self.svc,
                                    key_extractor=lambda e: e.context.get("metadata", {}).get("key"),
                                    ttl=ttl, max_entries=2, cleanup_interval=sweep)
        return [self.svc, self.ids]

    def request(self, i, op):
        key = "k" if op == "pay" else f"k{i}"
        return [self.h.ev(self.ids, "pay", {"metadata": {"i": i, "key": key}})]


class OutboxRelayDrv(Drv):
    """Writers append to the outbox inside their handler and prime the poll loop (documented pattern);
    poll interval 0.5 s, batch 2, per-entry relay latency L."""
    family = "microservice"
    covers = ("OutboxRelay",)
    ops = ("write", "write_two")

    def build(self, cfg):
        self.ob = OutboxRelay("outbox", downstream=self.h.out, poll_interval=P(0.5), batch_size=2,
                              relay_latency=cfg.L)
        self.primed = False
        return [self.ob]

    def request(self, i, op):
        self.ob.write({"i": i})
        if op == "write_two":
            self.ob.write({"i": i, "second": True})
        if not self.primed:
            self.primed = True
            return [self.ob.prime_poll()]
        return None


class SagaDrv(Drv):
    """Three steps (reserve, charge, ship) with step timeout 2L+0.75 s; 'order_fail' makes the second step hang, so
    the saga compensates the first."""
    family = "microservice"
    covers = ("Saga", "SagaStep")
    ops = ("order", "order_fail")

    def build(self, cfg):
        self.inv = _Svc("inventory", cfg.L)
        self.pay = _SagaPay("payments", cfg.L)
        self.ship = _Svc("shipping", cfg.L)
        t = 2 * cfg.L + P(0.75)
        steps = [SagaStep("reserve", self.inv, "reserve", self.inv, "unreserve", timeout=t),
                 SagaStep("charge", self.pay, "charge", self.pay, "refund", timeout=t),
                 SagaStep("ship", self.ship, "ship", self.ship, "unship", timeout=t)]
        self.done = []
        self.saga = Saga("saga", steps=steps, on_complete=lambda sid, st, res: self.done.append((sid, st)))
        return [self.inv, self.pay, self.ship, self.saga]

    def request(self, i, op):
        return [self.h.ev(self.saga, "start", {"metadata": {"i": i}, "payload": {"fail": op == "order_fail"}})]


class _SagaPay(Entity):
    """Payment service: 'charge' hangs (beyond the step timeout) when the saga payload says fail."""

    def __init__(self, name, L):
        super().__init__(name)
        self.L = L

    def handle_event(self, event):
        fail = (event.context.get("payload") or {}).get("fail")
        return self._serve(100.0 if (fail and event.event_type == "charge") else self.L)

    def _serve(self, d):
        yield d
        return None


class SidecarDrv(Drv):
    """Rate limit 2 req/s, circuit threshold 2 / timeout 1 s, request timeout 2L+0.75 s, 1 retry with 0.25 s backoff."""
    family = "microservice"
    covers = ("Sidecar",)
    ops = ("request", "request_slow")

    def build(self, cfg):
        self.svc = _Svc("svc", cfg.L, self.h.out)
        self.sc = Sidecar("sidecar", target=self.svc, rate_limit_policy=TokenBucketPolicy(capacity=2.0, refill_rate=R(2.0)),
                          circuit_failure_threshold=2, circuit_success_threshold=1, circuit_timeout=P(1.0),
                          request_timeout=2 * cfg.L + P(0.75), max_retries=1, retry_base_delay=P(0.25))
        return [self.svc, self.sc]

    def request(self, i, op):
        return [self.h.ev(self.sc, "request", {"metadata": {"i": i, "slow": op == "request_slow"}})]


class SidecarBackendOkDrv(Drv):
    """Sidecar without a rate limiter in front of a plain Backend (pure pass-through + response tracking)."""
    family = "microservice"
    covers = ("Sidecar",)
    ops = ("request",)

    def build(self, cfg):
        self.svc = Backend("svc", cfg.L, self.h.out)
        self.sc = Sidecar("sidecar", target=self.svc, request_timeout=P(1.0), max_retries=0)
        return [self.svc, self.sc]

    def request(self, i, op):
        return [self.h.ev(self.sc, "request", {"metadata": {"i": i}})]


DRIVERS = [APIGatewayDrv, APIGatewayShortTimeoutDrv, SidecarShortTimeoutDrv, IdempotencyStoreDrv, OutboxRelayDrv, SagaDrv, SidecarDrv, SidecarBackendOkDrv]

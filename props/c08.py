"""C08 — queueing pipelines never lose, duplicate, misorder or strand work.

Two driver groups (see DESIGN.md section 6 / C08):

1. ``pol-*``  queue policies as data structures: every push/pop/peek(/tick/purge)
   sequence up to a depth on the real policy against a list-based reference
   (props/c08_policies.py).
2. ``pipe-*`` pipelines inside a real ``Simulation``: every arrival pattern of a
   few tagged requests (time x hop count) x service times x concurrency x
   capacity x policy, oracle after every delivery and at every clock advance
   (props/c08_pipes.py).
"""
from __future__ import annotations

import time

from mc.evidence import Run
from mc.harness import pmap, rotate

from props import c08_pipes as PP
from props import c08_policies as POL

PID = "C08"

RULE = (
    "pol-*: every operation sequence (push per item attribute [x owned random answer], pop, peek, clock tick, purge) "
    "up to the stated depth is applied to the real policy object; executions = distinct sequences, "
    "non-trivial = the sequence contains a pop with >= 2 items held, a rejected push or a drop; states = distinct "
    "canonical (held items, fairness ghost) states.  pipe-*: every arrival pattern (multiset of tagged requests over "
    "arrival time x hop count, plus per-request service time / priority / weight) x configuration is one execution on "
    "the real Simulation; non-trivial = at least two harness-visible things happened on one instant at the component "
    "(arrival+arrival, arrival+completion, completion+completion) or an item had to wait or was rejected; "
    "states = distinct observation traces (arrive/reject/dequeue/start/finish/complete per tag with times)."
)
ASSUMPTIONS = [
    "pipelines: 1 tick = 1 s (exact in integer nanoseconds); all arrival, service and schedule times are whole ticks",
    "arrivals travel through 0..3 zero-delay forwarding entities (mc.harness.Fwd) so that same-instant arrivals differ "
    "in creation order relative to the driver's notify/poll/deliver events",
    "pushes / pops of a pipeline's queue are observed through a harness QueuePolicy wrapper (the public extension "
    "point BalkingQueue also uses); starts / finishes inside harness-written workers; completions at a harness sink; "
    "everything else through public properties (depth, stats_*, active_requests, has_capacity, stats)",
    "random.random() (REDQueue, BalkingQueue) is owned: the operation label / request carries the answer",
    "policy group: peek() is exercised as an operation that must not disturb later pops and must return a held item; "
    "peek()==next pop() is NOT demanded (the statement speaks about items leaving the queue)",
]


def run_policies(run, tier, seed, only):
    budget = 60_000 if tier == "quick" else 500_000
    jobs = []
    depth = {}
    for name in POL.CONFIGS:
        dn = f"pol-{name}"
        if only and dn not in only and "pol" not in only:
            continue
        depth[name] = POL.depth_for(name, budget)
        run.driver(dn, {"alphabet": [list(o) for o in POL.alphabet(name)], "depth": depth[name],
                        "node_budget": budget, "policy": POL.describe(name)})
        jobs += POL.jobs_for(name, depth[name], split=2 if tier == "quick" else 3)
    if not jobs:
        return
    t0 = time.time()
    agg = {}
    for name, st in pmap(POL.work, rotate(jobs, seed)):
        a = agg.setdefault(name, {"nodes": 0, "states": set(), "outcomes": set(), "nontriv": 0, "samples": []})
        a["nodes"] += st["nodes"]
        a["states"] |= st["states"]
        a["outcomes"] |= st["outcomes"]
        a["nontriv"] += st["nontriv"]
        a["samples"] += st["samples"]
        for fp, (desc, rep) in st["viol"].items():
            run.violation(fp, desc, rep)
    wall = time.time() - t0
    tot = sum(a["nodes"] for a in agg.values()) or 1
    for name, a in agg.items():
        d = run.driver(f"pol-{name}")
        d.executions = a["nodes"]
        d.transitions = a["nodes"]
        d.states = len(a["states"])
        d.outcomes = len(a["outcomes"])
        d.nontrivial = a["nontriv"]
        d.samples = a["samples"][:2]
        d.wall_s = wall * a["nodes"] / tot  # share of the pooled wall time


def _rerun(rep, verbose=False):
    """Re-execute one recorded case without the explorer; returns [(fingerprint, description)]."""
    if rep.get("driver") == "policy":
        if verbose:
            return POL.replay(rep["config"], rep["ops"])
        import contextlib
        import io
        with contextlib.redirect_stdout(io.StringIO()):
            return POL.replay(rep["config"], rep["ops"])
    if verbose:
        return PP.replay(rep)
    ex = PP.execute(rep["kind"], rep["cfg"], tuple(tuple(a) for a in rep["arrivals"]))
    return ex.viol


def confirm(run):
    """Same schedule, same verdict: every violating case is re-run from its replay data before it is
    reported; a case that does not reproduce is a defect of the HARNESS (unowned nondeterminism)."""
    from mc.evidence import jsonable
    import json
    for fp, (desc, rep) in list(run.violations.items()):
        rep = json.loads(json.dumps(jsonable(rep)))  # exactly what a replay file would hold
        again = [f for f, _d in _rerun(rep)]
        if fp not in again:
            raise RuntimeError(f"C08 harness error: violation {fp!r} did not reproduce from its replay data "
                               f"{rep!r} (got {again})")
    run.notes.append(f"{len(run.violations)} violating case(s) re-executed from replay data before reporting: "
                     f"all reproduced")


def main(tier, seed, only=None):
    run = Run(PID, tier, seed, "model_checking", rule=RULE, assumptions=ASSUMPTIONS)
    run_policies(run, tier, seed, only)
    PP.run_pipes(run, tier, seed, only)
    confirm(run)
    if only:
        run.notes.append(f"partial run: --only {sorted(only)}")
    return run.finish()


def replay(data):
    rep = data.get("replay") or data.get("witness") or data
    print(f"fingerprint: {data.get('fingerprint')}")
    print(f"description: {data.get('description')}")
    v = _rerun(rep, verbose=True)
    want = data.get("fingerprint")
    hit = [fp for fp, _ in v if fp == want] if want else v
    print("reproduced" if hit else ("other violations only" if v else "no violation"))
    return 1 if (hit or (v and not want)) else 0

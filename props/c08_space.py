"""C08 group 2 — the enumerated spaces (families of configurations x arrival patterns)."""
from __future__ import annotations

from props.c08_pipes import patterns

T3 = (0, 1, 2)
H4 = (0, 1, 2, 3)
R2 = (0.0, 0.999999)


def _grid(**axes):
    keys = list(axes)
    out = [{}]
    for k in keys:
        out = [dict(o, **{k: v}) for o in out for v in axes[k]]
    return out


def families(tier):
    q = tier == "quick"
    N = 3 if q else 4
    # quick: hop counts {0..3} for the core FIFO QueuedResource family and the limit-change races, {0,1,2} elsewhere
    HQ = (0, 1, 2) if q else H4
    fams = []

    def fam(name, kind, cfgs, pats, chunks=4, **bounds):
        pats = list(pats)
        fams.append({"name": name, "kind": kind, "cfgs": cfgs, "patterns": pats, "chunks": chunks,
                     "bounds": dict(bounds, configs=len(cfgs), patterns_per_config=len(pats),
                                    arrival_ticks=list(T3), tick="1 s",
                                    hop_counts=list(H4 if name in ("QR-FIFO", "Server-dynamic", "Server-dynamic-scale-down")
                                                    or not q else HQ))})

    # -- documented-pattern QueuedResource ---------------------------------------------------------
    fam("QR-FIFO", "QR", _grid(policy=["FIFO"], conc=[1, 2], cap=[None] if q else [None, 1]),
        patterns(N, T3, H4, (0, 1, 2)), chunks=8 if q else 24,
        requests=f"1..{N}", service_ticks=[0, 1, 2], concurrency=[1, 2], capacity=["inf"] if q else ["inf", 1])
    if q:
        fam("QR-FIFO-cap1", "QR", _grid(policy=["FIFO"], conc=[1, 2], cap=[1]),
            patterns(3, T3, HQ, (1, 2)), chunks=4,
            requests="1..3", service_ticks=[1, 2], concurrency=[1, 2], capacity=[1])
    if not q:
        fam("QR-FIFO-cap2", "QR", _grid(policy=["FIFO"], conc=[1, 2], cap=[2]),
            patterns(3, T3, H4, (0, 1, 2)), chunks=8,
            requests="1..3", service_ticks=[0, 1, 2], concurrency=[1, 2], capacity=[2])
    fam("QR-LIFO", "QR", _grid(policy=["LIFO"], conc=[1, 2], cap=[None] if q else [None, 2]),
        patterns(3, T3, HQ, (1, 2) if q else (0, 1, 2)), chunks=8,
        requests="1..3", service_ticks=[1, 2] if q else [0, 1, 2], concurrency=[1, 2])
    fam("QR-Priority", "QR",
        [dict(policy="Priority", conc=1, cap=None), dict(policy="Priority", conc=2, cap=None),
         dict(policy="Priority", conc=1, cap=2)] if q else _grid(policy=["Priority"], conc=[1, 2], cap=[None, 2]),
        patterns(3, T3, HQ, (1,) if q else (0, 1), prios=(0, 1)), chunks=4 if q else 16,
        requests="1..3", service_ticks=[1] if q else [0, 1], priorities=[0, 1], concurrency=[1, 2],
        capacity=["inf", 2])
    # -- hand-wired Queue + QueueDriver + worker -----------------------------------------------------
    fam("QDW-FIFO", "QDW", _grid(policy=["FIFO"], conc=[1, 2], cap=[None]),
        patterns(N, T3, HQ, (1, 2) if q else (0, 1, 2)), chunks=8 if q else 24,
        requests=f"1..{N}", service_ticks=[1, 2] if q else [0, 1, 2], concurrency=[1, 2], capacity=["inf"])
    if not q:
        fam("QDW-FIFO-cap1", "QDW", _grid(policy=["FIFO"], conc=[1, 2], cap=[1]),
            patterns(3, T3, H4, (0, 1, 2)), chunks=8,
            requests="1..3", service_ticks=[0, 1, 2], concurrency=[1, 2], capacity=[1])
    # -- Server with each concurrency model ------------------------------------------------------------
    fam("Server-int-FIFO", "Server", _grid(model=["int"], policy=["FIFO"], conc=[1, 2], cap=[None]),
        patterns(N, T3, HQ, (1, 2) if q else (0, 1, 2)), chunks=8 if q else 24,
        requests=f"1..{N}", service_tick_sequences=[1, 2] if q else [0, 1, 2], concurrency=[1, 2], capacity=["inf"])
    if not q:
        fam("Server-int-FIFO-cap1", "Server", _grid(model=["int"], policy=["FIFO"], conc=[1, 2], cap=[1]),
            patterns(3, T3, H4, (0, 1, 2)), chunks=8,
            requests="1..3", service_tick_sequences=[0, 1, 2], concurrency=[1, 2], capacity=[1])
    fam("Server-fixed-LIFO-Priority", "Server",
        [dict(model="fixed", policy="LIFO", conc=2, cap=None), dict(model="fixed", policy="Priority", conc=1, cap=None),
         dict(model="fixed", policy="Priority", conc=2, cap=None)] if q
        else _grid(model=["fixed"], policy=["LIFO", "Priority"], conc=[1, 2], cap=[None]),
        patterns(3, T3, HQ, (1, 2), prios=(0, 1)) if not q else patterns(3, T3, HQ, (1,), prios=(0, 1)), chunks=4,
        requests="1..3", priorities=[0, 1])
    dyn = dict(model="dynamic", policy="FIFO", cap=None)
    fam("Server-dynamic", "Server",
        [dict(dyn, conc=c, knob=[], ctl_first=True) for c in ((2,) if q else (1, 2))]
        + [dict(dyn, conc=1, knob=[(1, 2)], ctl_first=f) for f in (True, False)]
        # the limit is raised through EVERY public method: set_limit, scale_up, scale_down followed by scale_up
        + [dict(dyn, conc=1, knob=[(1, ["up", 1])], ctl_first=f) for f in (True, False)]
        + [dict(dyn, conc=2, knob=[(1, ["down", 1]), (2, ["up", 1])], ctl_first=f)
           for f in ((True,) if q else (True, False))]
        + ([] if q else [dict(dyn, conc=2, knob=[(1, 1), (2, 2)], ctl_first=f) for f in (True, False)])
        + ([] if q else [dict(dyn, conc=c, knob=k, ctl_first=f) for c in (1, 2) for k in ([(1, 1)], [(2, 3)])
                         for f in (True, False)]),
        patterns(3, T3, H4, (1, 2)), chunks=4,
        requests="1..3", service_tick_sequences=[1, 2], initial_limit=[1, 2],
        set_limit_schedules=["none", "t1->2", "t1->1,t2->2"] if q else ["none", "t1->2", "t1->1", "t2->3", "t1->1,t2->2"],
        limit_raised_through=["set_limit(2) at t1", "scale_up(1) at t1", "scale_down(1) at t1 then scale_up(1) at t2"],
        control_events_created=["before the arrivals", "after the arrivals"])
    # a limit DECREASE issued on arrival instants, itself travelling through 0..3 forwarders (both creation
    # orders): it can land between the queue's dequeue and the worker's receipt of a request
    fam("Server-dynamic-scale-down", "Server",
        [dict(dyn, conc=2, knob=[(1, 1)], knob_hops=h, ctl_first=f) for h in (0, 1, 2, 3) for f in (True, False)]
        + [dict(dyn, conc=2, knob=[(2, 1)], knob_hops=h, ctl_first=f)
           for h in ((0, 2) if q else (0, 1, 2, 3)) for f in ((True,) if q else (True, False))],
        list(patterns(3, T3, H4, (1,))) + list(patterns(3, T3, H4, (2,))) if q else patterns(3, T3, H4, (1, 2)),
        chunks=2, requests="1..3", service_tick_sequences=["all 1", "all 2"] if q else [1, 2], initial_limit=[2],
        set_limit_schedules=["t1->1", "t2->1"], limit_change_hops=[0, 1, 2, 3],
        control_events_created=["before the arrivals", "after the arrivals"])
    fam("Server-weighted", "Server", _grid(model=["weighted"], policy=["FIFO"], conc=[2, 3], cap=[None]),
        patterns(3, T3, HQ, (1,) if q else (1, 2), weights=(1, 2)), chunks=4,
        requests="1..3", weights=[1, 2], total_capacity=[2, 3])
    fam("Server-native-capacity", "Server",
        _grid(model=["int"], policy=["FIFO"], conc=[1], cap=[1, 2], native_cap=[True]),
        patterns(3, T3, HQ, (1, 2)), chunks=4, requests="1..3", queue_capacity=[1, 2])
    # -- Server in front of time-based / adaptive policies (Queue.dispatch_guard looks at peek(), then pops) ---------
    fam("Server-Deadline", "Server", _grid(model=["int"], policy=["Deadline"], conc=[1], cap=[None]),
        list(patterns(3, T3, HQ, (2,), prios=(1, 5)))
        + list(patterns(4, (0, 1), (0,), (2,), prios=(1, 5, 9), n_min=4)), chunks=4,
        requests="1..3 (+ bursts of 4 over ticks {0,1}, hop 0, deadlines {1,5,9})", service_ticks=[2],
        relative_deadline_ticks=[1, 5], note="deadline = creation tick + relative deadline on the simulation clock; "
        "heads expire while the worker is busy")
    fam("Server-Adaptive-CoDel", "Server", _grid(model=["int"], policy=["Adaptive", "CoDel"], conc=[1], cap=[None]),
        list(patterns(3, T3, HQ, (2,))) + list(patterns(4, (0, 1), (0, 1), (1, 3), n_min=4)), chunks=2,
        requests="1..3 (+ bursts of 4 over ticks {0,1} x hops {0,1})", service_ticks=[2, "1,3 in bursts"],
        policies=["AdaptiveLIFO(threshold 2)", "CoDelQueue(target 1 s, interval 1 s)"])
    # -- two stages feeding one another ----------------------------------------------------------------
    fam("Tandem-QR", "QR", _grid(policy=["FIFO"], conc=[1, 2], cap=[None], stages=[2]),
        patterns(3, T3, HQ, (1, 2)), chunks=4, requests="1..3", stages=2, service_ticks=[1, 2])
    fam("Tandem-Server", "Server", _grid(model=["int"], policy=["FIFO"], conc=[1], cap=[None], stages=[2]),
        patterns(3, T3, HQ, (1,) if q else (1, 2)), chunks=4, requests="1..3", stages=2)
    # -- industrial variants ---------------------------------------------------------------------------
    fam("Shifted", "Shifted",
        [dict(caps=c, default=d, svc=s, cap=None) for (c, d) in
         [((1,), 1), ((2,), 2), ((0, 1), 1), ((0, 2), 2), ((1, 0, 2), 2), ((2, 1), 1), ((1, 2), 2)] for s in (1, 2)],
        patterns(3 if q else 4, T3, HQ, (0,)), chunks=2,
        requests=f"1..{3 if q else 4}", shift_capacities_per_tick=["1", "2", "0,1", "0,2", "1,0,2", "2,1", "1,2"],
        service_ticks=[1, 2])
    # waits of 0..4 ticks occur; patience is enumerated below, at and above them
    fam("Reneging", "Reneging", _grid(conc=[1, 2], patience=[0, 1, 2], cap=[None]),
        patterns(3, T3, HQ, (1,) if q else (1, 2)), chunks=4, requests="1..3", patience_ticks=[0, 1, 2],
        concurrency=[1, 2], service_ticks=[1] if q else [1, 2])
    fam("Reneging-long-service", "Reneging",
        [dict(conc=1, patience=1, cap=None), dict(conc=1, patience=3, cap=None), dict(conc=1, patience=1, cap=1)],
        patterns(3, T3, HQ, (3,) if q else (2, 3)), chunks=2, requests="1..3", patience_ticks=[1, 3],
        concurrency=[1], service_ticks=[3] if q else [2, 3], capacity=["inf", 1],
        relation="service longer than / equal to patience and longer than the arrival span")
    fam("Balking", "Balking", _grid(conc=[1], thr=[1] if q else [1, 2], cap=[None, 2]),
        patterns(3, T3, HQ, (1,), rs=R2), chunks=4, requests="1..3", balk_threshold=[1] if q else [1, 2],
        owned_random_answers=list(R2))
    fam("Pooled", "Pooled", _grid(conc=[1, 2], svc=[0, 1, 2, 3], cap=[None, 1]),
        patterns(3 if q else 4, T3, HQ, (0,)), chunks=2,
        requests=f"1..{3 if q else 4}", pool_size=[1, 2], cycle_ticks=[0, 1, 2, 3], queue_capacity=["unlimited", 1])
    fam("Pooled-burst4", "Pooled", _grid(conc=[1, 2], svc=[0, 1], cap=[None, 1, 2]),
        patterns(4, (0, 1), (0, 1), (0,), n_min=4), chunks=1,
        requests="4", pool_size=[1, 2], cycle_ticks=[0, 1], queue_capacity=["unlimited", 1, 2],
        note="arrival ticks {0,1} x hops {0,1} only")
    fam("Conveyor", "Conveyor", _grid(conc=[None, 1, 2], svc=[0, 1, 2, 3]),
        patterns(3 if q else 4, T3, HQ, (0,)), chunks=2,
        requests=f"1..{3 if q else 4}", belt_capacity=["unlimited", 1, 2], transit_ticks=[0, 1, 2, 3],
        relation="transit shorter than, equal to and longer than the arrival span")
    fam("Gate", "Gate",
        [dict(schedule=s, open0=o, cap=c, ctl_first=f) for s in ([], [(1, 2)], [(2, 3)], [(1, 3)], [(0, 1), (2, 4)])
         for o in (True, False) for c in (None, 1) for f in ((True, False) if s else (True,))
         # quick: the bounded queue only where something can queue up (gate closed at the start)
         if not (q and c == 1 and o)]
        # a zero-length window (opens and closes on one instant) in front of a closed gate
        + [dict(schedule=[(1, 1)], open0=False, cap=c, ctl_first=f) for c in (None, 1) for f in (True, False)],
        patterns(3 if q else 4, T3, HQ, (0,)), chunks=2,
        requests=f"1..{3 if q else 4}", schedules=["none", "1-2", "2-3", "1-3", "0-1,2-4", "1-1 (zero length)"],
        initially_open=[True, False], queue_capacity=["unlimited", 1],
        control_events_created=["before the arrivals", "after the arrivals"])
    # process_time is enumerated BELOW, AT and ABOVE the timeout: with process_time > timeout a partial batch's
    # timeout fires while an earlier full batch is still in service
    fam("Batch", "Batch", _grid(batch=[1, 2, 3], svc=[0, 1, 3], timeout=[0, 1, 2]),
        patterns(3 if q else 4, T3, HQ, (0,)), chunks=2,
        requests=f"1..{3 if q else 4}", batch_size=[1, 2, 3], process_ticks=[0, 1, 3], timeout_ticks=[0, 1, 2],
        relation="process_time <, =, > timeout")
    fam("Batch-burst4", "Batch", _grid(batch=[2, 3], svc=[1, 2, 3], timeout=[1, 2]),
        patterns(4, (0, 1), (0, 1), (0,), n_min=4), chunks=1,
        requests="4", batch_size=[2, 3], process_ticks=[1, 2, 3], timeout_ticks=[1, 2],
        note="arrival ticks {0,1} x hops {0,1} only: a full batch in service plus a following partial batch")
    return fams

"""C12 — Multi-Paxos / Flexible Paxos worlds (real ``MultiPaxosNode`` / ``FlexiblePaxosNode``).

Instance = log slot.  A node *reports* slot s decided when ``log.commit_index >= s``
(value ``log.get(s).command``) and when its state machine is handed the s-th command.
"""
from __future__ import annotations

from props.c12_worlds import NetWorld, freeze, node_canon  # noqa: F401

from happysimulator.components.consensus.flexible_paxos import FlexiblePaxosNode
from happysimulator.components.consensus.multi_paxos import MultiPaxosNode

NAMES = "abcde"


class RecSM:
    """Recording state machine (public extension point): remembers what it was handed."""

    def __init__(self):
        self.applied = []

    def apply(self, command):
        self.applied.append(command)
        return ("ok", command)

    def snapshot(self):
        return list(self.applied)

    def restore(self, snapshot):
        self.applied = list(snapshot)


class LogPaxosWorld(NetWorld):
    """params:
    kind 'multi' | 'flex'; n; q1,q2 (flex only)
    presubmit: tuple of (node idx, command) submitted before anything starts (queued, assigned on leadership)
    starters: node indices that may call start() (take-over attempt), each at most ``starts_each`` times
    max_starts: total start() calls
    late_cmds: commands that may be submitted later to ANY node that currently reports is_leader
               (documented pattern: submit() then replicate the slot, as examples/distributed/flexible_paxos_quorums.py;
               for Multi-Paxos alternatively through a MultiPaxosForward event when forward=True)
    max_hb: heartbeat timer firings
    bounded: timers fire only when no message is in flight (delays bounded below the heartbeat period)
    live: evaluate the liveness clause at quiescence (needs bounded, single starter)
    drop: (message type, src, dst) triples that are always lost
    fifo: message types delivered in slot order per directed link (only the other types are reordered)
    timer_nodes: only these nodes' heartbeat timers fire inside the horizon (None: all)
    establish: node indices that start() BEFORE the search begins, every message delivered in FIFO order until
               quiet (non-initial start state "x is the established leader"); counts towards max_starts
    """

    def __init__(self, kind="multi", n=3, q1=None, q2=None, presubmit=((0, "c1"),), starters=(0,),
                 max_starts=1, starts_each=1, late_cmds=(), late_to=None, forward=False, max_hb=0,
                 bounded=False, live=False, cut=(), max_moves=None, establish=(), fifo=(), timer_nodes=None, drop=()):
        super().__init__()
        self.p = dict(kind=kind, n=n, q1=q1, q2=q2, presubmit=tuple(tuple(x) for x in presubmit),
                      starters=tuple(starters), max_starts=max_starts, starts_each=starts_each,
                      late_cmds=tuple(late_cmds), late_to=late_to, forward=forward, max_hb=max_hb,
                      bounded=bounded, live=live, cut=tuple(tuple(c) for c in cut), max_moves=max_moves,
                      establish=tuple(establish), fifo=tuple(fifo), drop=tuple(tuple(d) for d in drop),
                      timer_nodes=None if timer_nodes is None else tuple(timer_nodes))
        self.proto = "MultiPaxos" if kind == "multi" else "FlexiblePaxos"
        assert not (live and (cut or drop or not bounded or max_starts != 1)), "liveness premise: fault-free, bounded, one leader"
        nodes = []
        for i in range(n):
            if kind == "multi":
                nd = MultiPaxosNode(NAMES[i], self.net, state_machine=RecSM(), heartbeat_interval=1.0)
            else:
                # peers are needed at construction for the quorum check
                nd = FlexiblePaxosNode(NAMES[i], self.net, peers=[None] * (n - 1), state_machine=RecSM(),
                                       phase1_quorum=q1, phase2_quorum=q2, heartbeat_interval=1.0)
            nodes.append(nd)
        for nd in nodes:
            nd.set_peers(nodes)
        self.add_nodes(nodes)
        self.sms = {nd.name: nd._state_machine for nd in nodes}
        self.submitted = []
        self.futures = []  # (node, command, future)
        self.first = {}  # (node, slot) -> first reported command
        self.slot_first = {}  # slot -> (command, ballot repr at first report, node)
        self.starts = {}
        self.was_leader = set()
        self.flags = set()
        self.viol = []
        self.moves = 0
        self.hb_since = 0
        self.conf = False
        # take-over discrimination (all observable on the wire / through public properties):
        self.pre_slots = ()  # slots that held an accepted entry at some node when a later leader attempt began,
        #                      or that a Promise carried in its log_entries: the new leader was told about them
        self.promised_foreign = {}  # node -> highest ballot of ANOTHER node it has sent a Promise for
        self.deposed_slots = ()  # slots for which a node sent an Accept under a foreign ballot (stamped with another node's
        #                          ballot, or at/below a foreign ballot it had promised)
        self.slot_ballots = {}  # slot -> ballot numbers / nodes seen in Accepts for it
        self.own_assigned = {}  # (node, slot) -> command the node itself sent Accepts for
        self.passive_slots = ()  # slots a node reported decided with ITS OWN assigned entry on the word of another
        #                          leader's commit_index (Heartbeat / Accept), i.e. without a quorum for that entry
        self.kept_leading = ()  # nodes that still reported is_leader right after sending a Promise for a foreign ballot
        self.kept_slots = ()  # deposed_slots whose Accept came from such a node
        self._just_promised = None
        for i, cmd in self.p["presubmit"]:
            nd = nodes[i]
            self.submitted.append(cmd)
            self.futures.append((nd.name, cmd, nd.submit(cmd)))
        for i in self.p["establish"]:
            nd = nodes[i]
            self.starts[nd.name] = self.starts.get(nd.name, 0) + 1
            from props.c12_worlds import fixed_random
            with fixed_random():
                self.absorb(nd.start())
                guard = 0
                while self.msgs and guard < 200:
                    guard += 1
                    etype, md, _k = self.msgs.pop(0)
                    from mc.harness import Event
                    dst = self.by_name[md["destination"]]
                    self.absorb(dst.handle_event(Event(time=self.clock.now, event_type=etype, target=dst, daemon=True,
                                                       context={"metadata": md})))
            self.timers = [t for t in self.timers if not t[1].cancelled]
        self.observe()

    # -- moves ----------------------------------------------------------
    def deliverable(self, m):
        if (m[1]["source"], m[1]["destination"]) in self.p["cut"]:
            return False
        if (m[0], m[1]["source"], m[1]["destination"]) in self.p["drop"]:
            return False
        if m[0] in self.p["fifo"]:
            slot = m[1].get("slot", 0)
            for o in self.msgs:
                if (o[0] == m[0] and o[1]["source"] == m[1]["source"] and o[1]["destination"] == m[1]["destination"]
                        and o[1].get("slot", 0) < slot):
                    return False
        return True

    def live_timers(self):
        tn = self.p["timer_nodes"]
        return [(i, t) for i, t in super().live_timers() if tn is None or t[1].target.name in tn]

    def timers_enabled(self):
        if self.cnt("timer") >= self.p["max_hb"]:
            return False
        return not (self.p["bounded"] and any(self.deliverable(m) for m in self.msgs))

    def client_moves(self):
        out = []
        if sum(self.starts.values()) < self.p["max_starts"]:
            for i in self.p["starters"]:
                nm = NAMES[i]
                if self.starts.get(nm, 0) < self.p["starts_each"]:
                    if self.p["live"] and sum(self.starts.values()) >= 1:
                        continue
                    out.append(("start", nm))
        done = len(self.submitted) - len(self.p["presubmit"])
        if done < len(self.p["late_cmds"]):
            cmd = self.p["late_cmds"][done]
            for nd in self.nodes:
                if nd.is_leader and (self.p["late_to"] is None or nd.name in self.p["late_to"]):
                    out.append(("submit", nd.name, cmd))
        return out

    def apply(self, lab):
        self.moves += 1
        if lab[0] == "timer":
            self.hb_since += 1
        self._just_promised = None
        super().apply(lab)
        jp = self._just_promised
        if jp is not None and self.by_name[jp].is_leader and jp not in self.kept_leading:
            self.kept_leading = tuple(sorted(set(self.kept_leading) | {jp}))
        self._just_promised = None

    def apply_client(self, lab):
        if lab[0] == "start":
            nd = self.by_name[lab[1]]
            if sum(self.starts.values()) >= 1:
                held = set(self.pre_slots)
                for x in self.nodes:
                    held.update(range(1, x.log.last_index + 1))
                self.pre_slots = tuple(sorted(held))
            self.starts[nd.name] = self.starts.get(nd.name, 0) + 1
            self.absorb(nd.start())
        elif lab[0] == "submit":
            nd = self.by_name[lab[1]]
            cmd = lab[2]
            self.submitted.append(cmd)
            self.hb_since = 0
            if self.msgs:
                self.conf = True
            if self.p["forward"]:
                # event-driven submission: a client's MultiPaxosForward event handled by the leader
                from mc.harness import Event
                ev = Event(time=self.clock.now, event_type="MultiPaxosForward", target=nd, daemon=True,
                           context={"metadata": {"command": cmd}})
                self.absorb(nd.handle_event(ev))
            else:
                fut = nd.submit(cmd)
                self.futures.append((nd.name, cmd, fut))
                # documented pattern (examples/distributed/flexible_paxos_quorums.py): the caller triggers
                # replication of the slot the leader just assigned
                rep = getattr(nd, "_replicate_slot", None)
                if rep is not None and nd.is_leader:
                    self.absorb(rep(nd.log.last_index))
        else:
            raise NotImplementedError(lab)

    # -- ghosts -------------------------------------------------------------
    def ballot_of(self, nd):
        b = getattr(nd, "_current_ballot", None)
        if b is not None and hasattr(b, "number"):
            return (b.number, getattr(b, "node_id", ""))
        return (nd.stats.current_ballot, "")

    def reports(self, nd):
        """slot -> command this node currently reports as decided."""
        out = {}
        lg = nd.log
        for s in range(1, lg.commit_index + 1):
            e = lg.get(s)
            out[s] = e.command if e is not None else ("<missing>",)
        return out

    def observe(self):
        for nd in self.nodes:
            if nd.is_leader:
                self.was_leader.add(nd.name)
            rep = self.reports(nd)
            applied = self.sms[nd.name].applied
            for s, cmd in rep.items():
                k = (nd.name, s)
                if k not in self.first:
                    self.first[k] = cmd
                    lab = self.last
                    if (lab is not None and lab[0] == "deliver" and s not in self.passive_slots
                            and self.own_assigned.get(k, ("<none>",)) == cmd
                            and (lab[2].split(" ")[0].endswith("Heartbeat") or lab[2].split(" ")[0].endswith("PaxosAccept"))
                            and f"->{nd.name} " in lab[2]):
                        self.passive_slots = tuple(sorted(set(self.passive_slots) | {s}))
                    if s not in self.slot_first:
                        self.slot_first[s] = (cmd, self.ballot_of(nd), nd.name)
                    elif self.slot_first[s][0] != cmd:
                        self.note_conflict(s, cmd, nd)
                elif self.first[k] != cmd and ("chg", k) not in self.flags:
                    self.flags.add(("chg", k))
                    self.viol.append((f"{self.proto}/decision-changed/{self.conflict_shape(s, nd)}",
                                      f"node {nd.name} reported slot {s} decided as {self.first[k]!r} and later as {cmd!r}"))
            for (nm, s), cmd in list(self.first.items()):
                if nm == nd.name and s not in rep and ("gone", (nm, s)) not in self.flags:
                    self.flags.add(("gone", (nm, s)))
                    self.viol.append((f"{self.proto}/decision-retracted/{self.conflict_shape(s, retract=True)}",
                                      f"node {nm} reported slot {s} decided ({cmd!r}) and later no longer reports it "
                                      f"(commit_index={nd.log.commit_index})"))
            # the state machine is handed decided commands: position i is a report for slot i+1
            for i, cmd in enumerate(applied):
                k = (nd.name + ".sm", i + 1)
                if k not in self.first:
                    self.first[k] = cmd
                    if (i + 1) not in self.slot_first:
                        self.slot_first[i + 1] = (cmd, self.ballot_of(nd), nd.name)
                    elif self.slot_first[i + 1][0] != cmd:
                        self.note_conflict(i + 1, cmd, nd)

    def note_conflict(self, s, cmd, nd):
        key = ("agree", s)
        if key in self.flags:
            return
        self.flags.add(key)
        c0, b0, n0 = self.slot_first[s]
        self.viol.append((f"{self.proto}/agreement/{self.conflict_shape(s, nd)}",
                          f"slot {s}: node {n0} reported {c0!r} decided (ballot {b0}), node {nd.name} reports {cmd!r} "
                          f"(ballot {self.ballot_of(nd)})"))

    def conflict_shape(self, s=None, nd=None, retract=False, fut=None):
        if sum(self.starts.values()) > 1:  # a second leader attempt happened
            if s is None:
                s = min(self.slot_first, default=None)
            if retract and s is not None and s not in self.kept_slots and s not in self.deposed_slots:
                # a retraction is a truncation from some slot <= s: classify by the earliest affected slot class
                lower = [x for x in self.pre_slots if x <= s]
                if lower:
                    s = lower[0]
            if s in self.kept_slots:
                # a LEADER promised another node's ballot, kept reporting is_leader, and went on issuing Accepts
                return "takeover-leader-kept-leading-after-promise"
            if s in self.deposed_slots:
                # a node that had adopted another node's ballot (Promise, Heartbeat or Accept) issued Accepts under it:
                # its own stale Phase-1 quorum completed afterwards, or it adopted the ballot without stepping down
                return "takeover-accepts-issued-under-adopted-foreign-ballot"
            if s in self.pre_slots:
                # the slot already held an accepted entry when the later leader began / a Promise carried it:
                # the new leader was told and ignored it (known: recovery ignores promised logs)
                return "takeover"
            if fut is not None and self.own_assigned.get((fut[0], s), ("<none>",)) == fut[1]:
                # the submitter's own (unacknowledged) entry for the slot was superseded by the new leader's entry,
                # but its future stayed registered under the slot number and was resolved by the other command
                return "takeover-future-of-superseded-entry"
            if s in self.passive_slots:
                # an old leader that never heard of the take-over holds its own unacknowledged entry for the slot
                # and commits it when the new leader's commit_index arrives (no check which ballot wrote the entry)
                return "takeover-own-unchosen-entry-committed-on-foreign-commit-index"
            nums = {b[0] for b in self.slot_ballots.get(s, ())}
            nodes = {b[1] for b in self.slot_ballots.get(s, ())}
            if len(nodes) > 1 and len(nums) == 1:
                # two leaders used the same ballot NUMBER for the slot (log terms cannot tell them apart)
                return "takeover-fresh-slot-equal-ballot-numbers"
            return "takeover-fresh-slot"
        if "ooo-accept" in self.flags:
            return "single-leader-out-of-order-accept"  # an Accept overtook the Accept of an earlier slot
        return "single-leader-in-order"

    def on_send(self, etype, md):
        if etype.endswith("PaxosPromise"):
            src = md["source"]
            b = (md["ballot_number"], md["ballot_node"])
            if md["ballot_node"] != src:
                self._just_promised = src
                if b > self.promised_foreign.get(src, (-1, "")):
                    self.promised_foreign[src] = b
            idx = {e["index"] for e in md.get("log_entries", ())}
            if idx - set(self.pre_slots):
                self.pre_slots = tuple(sorted(set(self.pre_slots) | idx))
        elif etype.endswith("PaxosAccept"):
            src = md["source"]
            b = (md["ballot_number"], md["ballot_node"])
            slot = md["slot"]
            self.own_assigned[(src, slot)] = md.get("command")
            sb = set(self.slot_ballots.get(slot, ()))
            if b not in sb:
                self.slot_ballots[slot] = tuple(sorted(sb | {b}))
            pf = self.promised_foreign.get(src)
            if md["ballot_node"] != src or (pf is not None and b <= pf):
                # an Accept stamped with another node's ballot, or at/below a foreign ballot the sender promised
                if slot not in self.deposed_slots:
                    self.deposed_slots = tuple(sorted(set(self.deposed_slots) | {slot}))
                if src in self.kept_leading and slot not in self.kept_slots:
                    self.kept_slots = tuple(sorted(set(self.kept_slots) | {slot}))

    def conflict(self):
        return self.conf or sum(self.starts.values()) > 1 or "ooo-accept" in self.flags

    def outcome(self):
        return tuple((tuple(sorted(self.reports(nd).items())), tuple(self.sms[nd.name].applied), nd.is_leader)
                     for nd in self.nodes) + (tuple(f.is_resolved for _n, _c, f in self.futures),)

    def before_handle(self, node, etype, md):
        if etype.endswith("PaxosAccept") and md.get("slot", 0) > node.log.last_index + 1:
            self.flags.add("ooo-accept")

    def check(self):
        out = list(self.viol)
        self.viol = []
        for s, (cmd, _b, nm) in self.slot_first.items():
            if cmd not in self.submitted and ("val", s) not in self.flags:
                self.flags.add(("val", s))
                out.append((f"{self.proto}/validity/unsubmitted-command",
                            f"slot {s}: node {nm} reports {cmd!r} decided, never submitted ({self.submitted})"))
        for idx, (nm, cmd, fut) in enumerate(self.futures):
            if fut.is_resolved and ("fut", idx) not in self.flags:
                v = fut.value
                ok = isinstance(v, tuple) and len(v) == 2 and v[1] == ("ok", cmd)
                slot = v[0] if isinstance(v, tuple) and v else None
                dec = self.slot_first.get(slot)
                if not ok or dec is None or dec[0] != cmd:
                    self.flags.add(("fut", idx))
                    out.append((f"{self.proto}/future-value/{self.conflict_shape(slot if slot in self.slot_first else None, fut=(nm, cmd))}",
                                f"submit({cmd!r}) future at {nm} resolved with {v!r}; slot {slot} decided value is "
                                f"{dec[0] if dec else None!r}"))
        if self.p["live"]:
            out.extend(self.check_live())
        return out

    def check_live(self):
        """Fault-free, bounded delays, single leader: at quiescence, two heartbeat periods after the last
        submission, every submitted command is decided and applied at every node."""
        if any(self.deliverable(m) for m in self.msgs) or not self.starts:
            return []
        if self.client_moves():
            return []
        out = []
        # leader side needs no heartbeat: once every message has been delivered on a fault-free network, the
        # established leader has decided and applied every submitted command and resolved its submit() futures
        for nd in self.nodes:
            if nd.is_leader and ("lead-live", nd.name) not in self.flags:
                applied = self.sms[nd.name].applied
                missing = [c for c in self.submitted if c not in applied]
                pending = [c for n_, c, f in self.futures if n_ == nd.name and not f.is_resolved]
                if missing or pending:
                    self.flags.add(("lead-live", nd.name))
                    out.append((f"{self.proto}/liveness/leader-quiescent-undecided",
                                f"fault-free run, nothing in flight: leader {nd.name} has applied {applied} "
                                f"(commit_index={nd.log.commit_index}) of submitted {self.submitted}; "
                                f"unresolved futures {pending}"))
        if out:
            return out
        if self.live_timers() and self.hb_since < 2:
            return []  # heartbeats can still come (or the heartbeat budget cut the run: inconclusive)
        for nd in self.nodes:
            applied = self.sms[nd.name].applied
            missing = [c for c in self.submitted if c not in applied]
            if missing:
                shape = "no-heartbeat-timer" if not self.live_timers() else "after-two-heartbeats"
                out.append((f"{self.proto}/liveness/{shape}",
                            f"fault-free run quiescent (heartbeats fired={self.cnt('timer')}, since last submit="
                            f"{self.hb_since}, timers pending={len(self.live_timers())}): node {nd.name} has applied "
                            f"{applied}, submitted {self.submitted}; leaders now={[x.name for x in self.nodes if x.is_leader]}"))
                break
        return out

    def within(self):
        if self.p["max_moves"] is not None and self.moves >= self.p["max_moves"]:
            return False
        return True

    def counts_in_canon(self):
        return {"timer": self.cnt("timer"), "hb_since": min(self.hb_since, 2)}

    def canon_nodes(self):
        fidx = {id(f): i for i, (_n, _c, f) in enumerate(self.futures)}
        out = []
        for nd in self.nodes:
            try:
                lg = nd._log
                out.append((
                    nd.name, tuple((e.term, e.command) for e in lg._entries), lg.commit_index, nd._last_applied,
                    nd._current_ballot, nd._leader, nd._is_leader,
                    tuple(sorted((k, fidx.get(id(f), -1)) for k, f in nd._slot_futures.items())),
                    tuple(sorted(nd._slot_acks.items())),
                    tuple((c, fidx.get(id(f), -1)) for c, f in nd._pending_commands),
                    tuple(sorted((k, len(v)) for k, v in nd._phase1_responses.items())),
                    tuple(self.sms[nd.name].applied),
                    # bookkeeping added by later library versions (absent: None)
                    tuple(sorted(getattr(nd, "_slot_ballot", {}).items())),
                    tuple(sorted((k, tuple(sorted(v))) for k, v in getattr(nd, "_slot_ackers", {}).items())),
                    getattr(nd, "_recovered_ballot", None),
                    tuple(sorted(getattr(nd, "_held_accepts", {}))),
                ))
            except AttributeError:
                out.append(node_canon(nd))
        return tuple(out)

    def canon_ghost(self):
        return (tuple(self.submitted), tuple(sorted(self.starts.items())),
                tuple(sorted(self.first.items(), key=repr)), tuple(sorted(self.slot_first.items(), key=repr)),
                tuple((f.is_resolved, repr(f.value) if f.is_resolved else None) for _n, _c, f in self.futures),
                tuple(sorted(map(repr, self.flags))), self.pre_slots, self.deposed_slots, self.kept_leading,
                self.kept_slots, self.passive_slots, tuple(sorted(self.own_assigned.items(), key=repr)),
                tuple(sorted(self.promised_foreign.items())), tuple(sorted(self.slot_ballots.items())))

    def describe(self):
        parts = []
        for nd in self.nodes:
            lg = nd.log
            ents = [lg.get(i).command for i in range(1, lg.last_index + 1)]
            parts.append(f"{nd.name}{'*' if nd.is_leader else ''}:b{self.ballot_of(nd)} log={ents} ci={lg.commit_index} "
                         f"applied={self.sms[nd.name].applied}")
        futs = ",".join(f"{c}->{f.value!r}" if f.is_resolved else f"{c}->pending" for _n, c, f in self.futures)
        return f"[{' | '.join(parts)}] futures[{futs}] inflight={len(self.msgs)} timers={len(self.live_timers())}"

"""C05 — partitioned parallel execution is equivalent to sequential execution.

E3 (all small message-passing programs over a boundary-centred time grid) x
E2 (window sizes, order in which partitions run each window, bounded
preemptions at handler entries under a controlled executor).  Every program is
run on the real ``ParallelSimulation`` and on one sequential ``Simulation``;
per entity the deliveries (time, type) must agree up to permutation inside one
timestamp.
"""
from __future__ import annotations

import itertools
import threading
import time
from concurrent.futures import Future

from mc.choice import Chooser, explore
from mc.evidence import Run, digest
from mc.harness import Entity, Event, Instant, Simulation, TimeTravelWatch, pmap, rotate

import happysimulator.parallel.coordinator as _coord
import happysimulator.parallel.simulation as _psim
from happysimulator.core.sim_future import SimFuture
from happysimulator.distributions.constant import ConstantLatency
from happysimulator.parallel import ParallelSimulation, PartitionLink, SimulationPartition

PID = "C05"

TICK = 125_000_000  # 1/8 s in ns: dyadic, so window arithmetic in float seconds is exact on the grid
L_TICKS = 4  # declared minimum link latency = 0.5 s
L_NS = L_TICKS * TICK
L_S = L_NS / 1e9


# ---------------------------------------------------------------------------
# model: nodes execute "plans" carried by events
# ---------------------------------------------------------------------------
# step: ('l', delay_ns)            forward locally after delay
#       ('x', dest, delay_ns)      forward to node `dest` (other partition) after delay
#       ('g', delay_ns)            local generator: yield delay, then continue plan
#       ('f', delay_ns)            local generator parks on a SimFuture resolved by a local event after delay
class Node(Entity):
    def __init__(self, name, world):
        super().__init__(name)
        self._world = world
        self.log = []

    def handle_event(self, event):
        w = self._world
        if w.sched is not None:
            w.sched.point()
        md = event.context["metadata"]
        now = self.now.nanoseconds
        self.log.append((now, event.event_type))
        if event.event_type == "resolve":
            md["future"].resolve(now)
            return None
        if event.event_type == "cancel":
            md["victim"].cancel()
            plan = md["plan"]
            return self._step(plan, md["chain"], md["k"]) if plan else None
        plan = md["plan"]
        if not plan:
            return None
        return self._step(plan, md["chain"], md["k"])

    def _emit(self, target, t_ns, plan, chain, k):
        return Event(time=Instant(t_ns), event_type=f"c{chain}.{k}", target=target,
                     context={"metadata": {"plan": plan, "chain": chain, "k": k}})

    def _step(self, plan, chain, k):
        step, rest = plan[0], plan[1:]
        now = self.now.nanoseconds
        kind = step[0]
        if kind == "l":
            return [self._emit(self, now + step[1], rest, chain, k + 1)]
        if kind == "x":
            return [self._emit(self._world.nodes[step[1]], now + step[2], rest, chain, k + 1)]
        if kind == "xd":  # daemon event crossing the link (heartbeat-style traffic)
            ev = self._emit(self._world.nodes[step[1]], now + step[2], rest, chain, k + 1)
            ev.daemon = True
            return [ev]
        if kind == "xc":  # cross event due after several windows, cancelled by its sender one window later
            far = self._emit(self._world.nodes[step[1]], now + step[2], (), chain, k + 1)
            far.event_type = f"c{chain}.{k + 1}.cancelled-later"
            canceller = Event(time=Instant(now + step[3]), event_type="cancel", target=self,
                              context={"metadata": {"victim": far, "plan": rest, "chain": chain, "k": k + 1}})
            return [far, canceller]
        if kind == "g":
            return self._gen(step[1], rest, chain, k)
        if kind == "f":
            return self._fut(step[1], rest, chain, k)
        raise AssertionError(step)

    def _gen(self, d, rest, chain, k):
        yield d / 1e9
        self.log.append((self.now.nanoseconds, f"c{chain}.{k}.resume"))
        return [self._emit(self, self.now.nanoseconds, rest, chain, k + 1)]

    def _fut(self, d, rest, chain, k):
        fut = SimFuture()
        ev = Event(time=Instant(self.now.nanoseconds + d), event_type="resolve", target=self,
                   context={"metadata": {"future": fut}})
        yield 0.0, [ev]
        v = yield fut
        self.log.append((self.now.nanoseconds, f"c{chain}.{k}.woke@{v}"))
        return [self._emit(self, self.now.nanoseconds, rest, chain, k + 1)]


class World:
    def __init__(self, n):
        self.sched = None
        self.nodes = [Node(f"N{i}", self) for i in range(n)]


def horizon(end_ns):
    """end_ns: None | int (end_time in ns) | ('sd', start_ns, dur_ns): start_time + duration form.
    Returns (constructor kwargs, effective end in ns, shift applied to the program's start times)."""
    if end_ns is None:
        return {}, None, 0
    if isinstance(end_ns, (tuple, list)):
        _tag, start_ns, dur_ns = end_ns
        return {"start_time": Instant(start_ns), "duration": dur_ns / 1e9}, start_ns + dur_ns, start_ns
    return {"end_time": Instant(end_ns)}, end_ns, 0


def initial_events(world, program, shift=0):
    evs = []
    for chain, (node, t_ns, plan) in enumerate(program):
        t_ns += shift
        evs.append((node, Event(time=Instant(t_ns), event_type=f"c{chain}.0", target=world.nodes[node],
                                context={"metadata": {"plan": plan, "chain": chain, "k": 0}})))
    return evs


# ---------------------------------------------------------------------------
# controlled executors (replace ThreadPoolExecutor / as_completed in the library modules)
# ---------------------------------------------------------------------------
class _Ctl:
    order = "fwd"  # 'fwd' | 'rev' | 'choose'
    chooser = None
    preempt = False
    world = None
    current = None


class SerialExecutor:
    """Runs submitted tasks one after the other, in the order the harness decides."""

    def __init__(self, max_workers=None):
        self.tasks = []
        _Ctl.current = self

    def __enter__(self):
        return self

    def __exit__(self, *a):
        return False

    def submit(self, fn, *args):
        f = Future()
        self.tasks.append((f, fn, args))
        return f


def ctl_as_completed(futs):
    ex = _Ctl.current
    tasks, ex.tasks = ex.tasks, []
    if _Ctl.order == "rev":
        tasks = tasks[::-1]
    elif _Ctl.order == "choose":
        rest, tasks2 = list(tasks), []
        while rest:
            i = _Ctl.chooser.choose(len(rest), "order") if len(rest) > 1 else 0
            tasks2.append(rest.pop(i))
        tasks = tasks2
    if _Ctl.preempt:
        _run_preemptive(tasks)
    else:
        for f, fn, args in tasks:
            try:
                f.set_result(fn(*args))
            except BaseException as e:  # noqa: BLE001
                f.set_exception(e)
    for f, _, _ in tasks:
        yield f


class BatonSched:
    """Real threads, but exactly one runs at a time; switch points are the
    handler entries of harness entities; the chooser decides (0 = continue)."""

    def __init__(self, chooser):
        self.chooser = chooser
        self.sems = {}
        self.runnable = []
        self.cur = None
        self.done = threading.Semaphore(0)

    def point(self):
        me = self.cur
        others = [t for t in self.runnable if t != me]
        if not others:
            return
        c = self.chooser.choose(1 + len(others), "preempt")
        if c == 0:
            return
        nxt = others[c - 1]
        self.cur = nxt
        self.sems[nxt].release()
        self.sems[me].acquire()

    def finish(self, me):
        self.runnable.remove(me)
        if self.runnable:
            nxt = self.runnable[0]
            self.cur = nxt
            self.sems[nxt].release()
        else:
            self.done.release()


def _run_preemptive(tasks):
    sched = BatonSched(_Ctl.chooser)
    _Ctl.world.sched = sched
    threads = []
    for i, (f, fn, args) in enumerate(tasks):
        sched.sems[i] = threading.Semaphore(0)
        sched.runnable.append(i)

        def body(i=i, f=f, fn=fn, args=args):
            sched.sems[i].acquire()
            try:
                f.set_result(fn(*args))
            except BaseException as e:  # noqa: BLE001
                f.set_exception(e)
            finally:
                sched.finish(i)

        t = threading.Thread(target=body, daemon=True)
        threads.append(t)
        t.start()
    if tasks:
        sched.cur = 0
        sched.sems[0].release()
        sched.done.acquire()
    for t in threads:
        t.join()
    _Ctl.world.sched = None


class _Patched:
    def __init__(self, order="fwd", chooser=None, preempt=False, world=None):
        self.cfg = (order, chooser, preempt, world)

    def __enter__(self):
        self.saved = (_coord.ThreadPoolExecutor, _coord.as_completed,
                      _psim.ThreadPoolExecutor, _psim.as_completed)
        _coord.ThreadPoolExecutor = _psim.ThreadPoolExecutor = SerialExecutor
        _coord.as_completed = _psim.as_completed = ctl_as_completed
        _Ctl.order, _Ctl.chooser, _Ctl.preempt, _Ctl.world = self.cfg

    def __exit__(self, *a):
        (_coord.ThreadPoolExecutor, _coord.as_completed,
         _psim.ThreadPoolExecutor, _psim.as_completed) = self.saved
        _Ctl.chooser = None
        _Ctl.world = None


# ---------------------------------------------------------------------------
# running a program both ways
# ---------------------------------------------------------------------------
def topo_links(topo, n):
    """topo: 'bi' all pairs both ways; 'chain' i->i+1 only; 'none'."""
    links = []
    if topo in ("bi", "bi-lat"):
        # 'bi-lat': the link also declares a latency distribution; the coordinator then stamps
        # each cross event send_time + sample.  With a constant equal to the only cross delay
        # the programs of that topology use, the run must equal the sequential one.
        kw = {"latency": ConstantLatency(L_S)} if topo == "bi-lat" else {}
        for i in range(n):
            for j in range(n):
                if i != j:
                    links.append(PartitionLink(f"P{i}", f"P{j}", min_latency=L_S, **kw))
    elif topo == "chain":
        for i in range(n - 1):
            links.append(PartitionLink(f"P{i}", f"P{i+1}", min_latency=L_S))
    elif topo == "fanin":
        # heterogeneous links into the last partition: P_i -> P_last declares (i+1) * L
        for i in range(n - 1):
            links.append(PartitionLink(f"P{i}", f"P{n-1}", min_latency=(i + 1) * L_S))
    return links


def run_parallel(program, n, topo, window_s, end_ns, ctl=None, real_threads=False):
    import warnings
    world = World(n)
    parts = [SimulationPartition(name=f"P{i}", entities=[world.nodes[i]]) for i in range(n)]
    kw, _eff, shift = horizon(end_ns)
    links = topo_links(topo, n)
    with warnings.catch_warnings():
        warnings.simplefilter("ignore")
        if links:
            psim = ParallelSimulation(parts, links=links, window_size=window_s, **kw)
        else:
            psim = ParallelSimulation(parts, **kw)
    for node, ev in initial_events(world, program, shift):
        psim.schedule(ev, partition=f"P{node}")
    err = None
    with TimeTravelWatch() as watch:
        try:
            if real_threads:
                psim.run()
            else:
                order, chooser, preempt = ctl or ("fwd", None, False)
                with _Patched(order, chooser, preempt, world):
                    psim.run()
        except Exception as e:  # noqa: BLE001
            err = f"{type(e).__name__}: {e}"
    return [list(nd.log) for nd in world.nodes], watch.records, err


def run_sequential(program, n, end_ns, only_node=None):
    world = World(n)
    kw, _eff, shift = horizon(end_ns)
    ents = world.nodes if only_node is None else [world.nodes[only_node]]
    sim = Simulation(entities=ents, **kw)
    for node, ev in initial_events(world, program, shift):
        if only_node is None or node == only_node:
            sim.schedule(ev)
    sim.run()
    return [list(nd.log) for nd in world.nodes]


def compare(par, seq, warns, err, end_ns, exact=False):
    out = []
    end_ns = horizon(end_ns)[1]
    if err:
        out.append((f"exception/{err.split(':')[0]}", f"parallel run raised {err}"))
        return out
    if warns:
        out.append(("cross-event-discarded-as-past", f"engine reported: {warns[0][:160]}"))
    for i, (p, s) in enumerate(zip(par, seq)):
        if not exact and end_ns is not None:
            p = [x for x in p if x[0] <= end_ns]
            s = [x for x in s if x[0] <= end_ns]
        if exact:
            if p != s:
                out.append(("independent-mismatch", f"node N{i}: independent partition log {p} != separate simulation {s}"))
            continue
        for a, b in zip(p, p[1:]):
            if b[0] < a[0]:
                out.append(("order", f"node N{i}: delivery at {b} after {a} (time decreased)"))
                break
        sp, ss = sorted(p), sorted(s)
        if sp != ss:
            missing = list(ss)
            extra = []
            for x in sp:
                if x in missing:
                    missing.remove(x)
                else:
                    extra.append(x)
            if missing and not extra:
                out.append(("lost", f"node N{i}: sequential delivers {missing} which the parallel run never delivers"))
            elif extra and not missing:
                out.append(("duplicate-or-extra", f"node N{i}: parallel run delivers {extra} not delivered sequentially"))
            else:
                out.append(("different-deliveries", f"node N{i}: missing {missing} extra {extra}"))
    return out


# ---------------------------------------------------------------------------
# enumeration
# ---------------------------------------------------------------------------
def step_alphabet(n, node, topo, window_ns, rich):
    steps = [("l", 0), ("l", 1), ("l", window_ns)]
    dests = []
    if topo in ("bi", "bi-lat"):
        dests = [j for j in range(n) if j != node]
    elif topo == "chain" and node + 1 < n:
        dests = [node + 1]
    elif topo == "fanin" and node < n - 1:
        dests = [n - 1]
    for j in dests:
        lmin = (node + 1) * L_NS if topo == "fanin" else L_NS  # the declared minimum of this link
        steps += [("x", j, L_NS)] if topo == "bi-lat" else [("x", j, lmin), ("x", j, lmin + 1), ("x", j, 2 * lmin)]
    if rich:
        # generator sleeping one window / across more than two windows; future resolved locally
        steps += [("g", window_ns), ("g", 2 * window_ns + 1), ("f", 1)]
    if rich == "cancel-daemon":
        for j in dests:
            steps += [("xd", j, L_NS), ("xc", j, 3 * L_NS, window_ns + 1)]
    return steps, dests


def plans_from(n, node, topo, window_ns, depth, rich):
    """All plans (tuples of steps) of length <= depth starting at `node`, tracking the node the chain is on."""
    out = [()]
    if depth == 0:
        return out
    steps, _ = step_alphabet(n, node, topo, window_ns, rich)
    for st in steps:
        nxt = st[1] if st[0] in ("x", "xd") else node
        for tail in plans_from(n, nxt, topo, window_ns, depth - 1, rich):
            out.append((st,) + tail)
    return out


def time_grid(window_ns):
    return [0, window_ns - 1, window_ns, window_ns + 1, 2 * window_ns, 5 * window_ns + 3]


def starters(n, topo, window_ns, depth, rich):
    out = []
    for node in range(n):
        for t in time_grid(window_ns):
            for plan in plans_from(n, node, topo, window_ns, depth, rich):
                out.append((node, t, plan))
    return out


def nontrivial(program, window_ns):
    """A program is non-trivial when some chain crosses partitions."""
    return any(any(s[0] in ("x", "xd", "xc") for s in plan) for (_n, _t, plan) in program)


def _work(job):
    (firsts, others, k, n, topo, window_ns, ends, orders) = job
    st = {"exec": 0, "trans": 0, "nontriv": 0, "outcomes": set(), "viol": {}, "samples": []}
    window_s = window_ns / 1e9
    for first in firsts:
        rests = [()] if k == 1 else [(o,) for o in others]
        for rest in rests:
            program = (first,) + rest
            nt = nontrivial(program, window_ns)
            for end_ns in ends:
                seq = run_sequential(program, n, end_ns)
                for order in orders:
                    par, warns, err = run_parallel(program, n, topo, window_s, end_ns, (order, None, False))
                    st["exec"] += 1
                    st["trans"] += sum(len(x) for x in par)
                    st["outcomes"].add(digest(par))
                    if nt:
                        st["nontriv"] += 1
                    for fp, desc in compare(par, seq, warns, err, end_ns):
                        if fp not in st["viol"]:
                            st["viol"][fp] = (desc, {"driver": "programs", "program": program, "n": n, "topo": topo,
                                                     "window_ns": window_ns, "end_ns": end_ns, "order": order})
                    if not st["samples"] and nt and st["exec"] % 53 == 1:
                        st["samples"].append({"program": program, "topo": topo, "window_ns": window_ns,
                                              "end_ns": end_ns, "order": order, "parallel_logs": par})
    return st


def run_programs(run, name, n, topo, windows, depth, k, ends_fn, orders, rich, seed, second_depth=1):
    t0 = time.time()
    d = run.driver(name, {"partitions": n, "links": topo, "min_latency_ns": L_NS, "window_ns": windows,
                          "plan_depth": depth, "chains": k, "second_chain_depth": second_depth,
                          "partition_run_orders": orders, "rich_steps(generator,future)": rich})
    outcomes = set()
    for window_ns in windows:
        firsts = starters(n, topo, window_ns, depth, rich)
        others = starters(n, topo, window_ns, second_depth, False) if k > 1 else []
        if k > 1 and topo == "fanin":
            # the second chain must come from a DIFFERENT source partition than the first
            others = [o for o in others if any(st[0] == "x" for st in o[2])]
        ends = ends_fn(window_ns)
        nch = 48
        chunks = [firsts[i::nch] for i in range(nch)]
        jobs = [(ch, others, k, n, topo, window_ns, ends, orders) for ch in rotate(chunks, seed) if ch]
        for st in pmap(_work, jobs):
            d.executions += st["exec"]
            d.transitions += st["trans"]
            d.nontrivial += st["nontriv"]
            outcomes |= st["outcomes"]
            for fp, (desc, rep) in st["viol"].items():
                run.violation(fp, desc, rep)
            if len(d.samples) < 2:
                d.samples.extend(st["samples"])
    d.states = d.outcomes = len(outcomes)
    d.wall_s = time.time() - t0


# ---------------------------------------------------------------------------
# independent partitions
# ---------------------------------------------------------------------------
def _work_indep(job):
    (firsts, others, n, ends) = job
    st = {"exec": 0, "trans": 0, "nontriv": 0, "outcomes": set(), "viol": {}, "samples": []}
    for first in firsts:
        for other in others:
            if other[0] == first[0]:
                continue
            program = (first, other)
            for end_ns in ends:
                for order in ("fwd", "rev"):
                    par, warns, err = run_parallel(program, n, "none", 0.0, end_ns, (order, None, False))
                    seq = [run_sequential(program, n, end_ns, only_node=i)[i] for i in range(n)]
                    st["exec"] += 1
                    st["trans"] += sum(len(x) for x in par)
                    st["nontriv"] += 1
                    st["outcomes"].add(digest(par))
                    for fp, desc in compare(par, seq, warns, err, end_ns, exact=True):
                        if fp not in st["viol"]:
                            st["viol"][fp] = (desc, {"driver": "independent", "program": program, "n": n,
                                                     "end_ns": end_ns, "order": order})
                    if not st["samples"]:
                        st["samples"].append({"program": program, "end_ns": end_ns, "logs": par})
    return st


def run_independent(run, seed, depth):
    t0 = time.time()
    n = 2
    w = 2 * TICK
    d = run.driver("independent", {"partitions": n, "links": "none", "plan_depth": depth})
    firsts = [s for s in starters(n, "none", w, depth, True)]
    ends = [None, 2 * w, 6 * w, ("sd", 5 * w, 2 * w)]
    nch = 32
    chunks = [firsts[i::nch] for i in range(nch)]
    jobs = [(ch, firsts, n, ends) for ch in rotate(chunks, seed) if ch]
    outcomes = set()
    for st in pmap(_work_indep, jobs):
        d.executions += st["exec"]
        d.transitions += st["trans"]
        d.nontrivial += st["nontriv"]
        outcomes |= st["outcomes"]
        for fp, (desc, rep) in st["viol"].items():
            run.violation(fp, desc, rep)
        if len(d.samples) < 2:
            d.samples.extend(st["samples"])
    d.states = d.outcomes = len(outcomes)
    d.wall_s = time.time() - t0


# ---------------------------------------------------------------------------
# thread schedules: order choices + bounded preemption at handler entries
# ---------------------------------------------------------------------------
def sched_programs(window_ns):
    a = (0, window_ns - 1, (("f", 1), ("x", 1, L_NS), ("l", 0)))
    b = (1, window_ns - 1, (("f", 1), ("x", 0, L_NS + 1), ("g", window_ns)))
    c = (0, 0, (("x", 1, L_NS), ("x", 0, L_NS), ("l", 1)))
    e = (1, 0, (("l", 1), ("l", 0), ("x", 0, 2 * L_NS)))
    return [(a, b), (c, e), (a, e), (c, b), (a, b, c, e)]


def _work_sched(job):
    (program, window_ns, bound) = job
    st = {"exec": 0, "trans": 0, "nontriv": 0, "outcomes": set(), "viol": {}, "samples": [], "points": 0}
    n = 2
    end_ns = None
    seq = run_sequential(program, n, end_ns)

    def one(chooser):
        return run_parallel(program, n, "bi", window_ns / 1e9, end_ns, ("choose", chooser, True))

    for choices, points, (par, warns, err) in explore(one, bound=bound):
        st["exec"] += 1
        st["trans"] += sum(len(x) for x in par)
        st["points"] = max(st["points"], len(points))
        if any(choices):
            st["nontriv"] += 1
        st["outcomes"].add(digest(par))
        for fp, desc in compare(par, seq, warns, err, end_ns):
            fp = "thread-interleaving/" + fp
            if fp not in st["viol"]:
                st["viol"][fp] = (desc, {"driver": "schedules", "program": program, "window_ns": window_ns,
                                         "choices": choices})
        if not st["samples"] and any(choices):
            st["samples"].append({"program": program, "choices": choices, "logs": par})
    return st


def run_schedules(run, seed, bound):
    t0 = time.time()
    d = run.driver("schedules", {"partitions": 2, "links": "bi", "deviation_bound": bound,
                                 "switch_points": "partition run order per window + preemption at every handler entry"})
    jobs = []
    for window_ns in (L_NS, L_NS // 2):
        for program in sched_programs(window_ns):
            jobs.append((program, window_ns, bound))
    outcomes = set()
    for st in pmap(_work_sched, rotate(jobs, seed)):
        d.executions += st["exec"]
        d.transitions += st["trans"]
        d.nontrivial += st["nontriv"]
        outcomes |= st["outcomes"]
        d.extra["max_choice_points"] = max(d.extra.get("max_choice_points", 0), st["points"])
        for fp, (desc, rep) in st["viol"].items():
            run.violation(fp, desc, rep)
        if len(d.samples) < 2:
            d.samples.extend(st["samples"])
    d.states = d.outcomes = len(outcomes)
    d.wall_s = time.time() - t0


def run_free_threads(run, reps):
    """Separate free-running pass with the real ThreadPoolExecutor (a baton's hand-offs are
    happens-before edges that would hide unsynchronised sharing)."""
    t0 = time.time()
    d = run.driver("free-running-threads", {"repetitions": reps, "executor": "real ThreadPoolExecutor"})
    outcomes = set()
    for window_ns in (L_NS, L_NS // 2):
        for program in sched_programs(window_ns):
            seq = run_sequential(program, 2, None)
            for _ in range(reps):
                par, warns, err = run_parallel(program, 2, "bi", window_ns / 1e9, None, real_threads=True)
                d.executions += 1
                d.transitions += sum(len(x) for x in par)
                d.nontrivial += 1
                outcomes.add(digest(par))
                for fp, desc in compare(par, seq, warns, err, None):
                    run.violation("free-threads/" + fp, desc, {"driver": "free", "program": program,
                                                               "window_ns": window_ns})
            if len(d.samples) < 1:
                d.samples.append({"program": program, "window_ns": window_ns})
    d.states = d.outcomes = len(outcomes)
    d.nontrivial = min(d.nontrivial, d.states * reps)
    d.wall_s = time.time() - t0


def main(tier, seed, only=None):
    run = Run(PID, tier, seed, "model_checking",
              rule=("every program (set of event chains: start node x start time on a window-boundary grid x plan of "
                    "local / cross-partition / generator / future steps) is run on the real ParallelSimulation for each "
                    "window size, end_time and partition run order, and on one sequential Simulation; distinct = distinct "
                    "(program, window, end, order); non-trivial = at least one chain crosses partitions (schedules driver: "
                    "the choice sequence deviates from the default order); states = distinct parallel delivery logs"),
              assumptions=["cross-partition delays in every program respect the declared minimum link latency",
                           "deliveries later than end_time are not compared (the sequential engine delivers one event past end_time)",
                           "thread interleavings are explored at handler-entry granularity with a deviation bound; "
                           "bytecode-level races are only covered by the free-running repetition pass"])
    W = [L_NS, L_NS // 2, 3 * TICK // 2 + 1]  # = L, L/2, a non-dyadic 0.1875s+1ns window
    full_end = lambda w: [None, 40 * w]
    cut_end = lambda w: [None, 3 * w, 2 * w + 1, (12 * w) // 5]  # last: 2.4 windows (span/window not integral)

    def want(n):
        return not only or n in only

    if tier == "quick":
        if want("p2-bi-1chain"):
            run_programs(run, "p2-bi-1chain", 2, "bi", W, 3, 1, cut_end, ["fwd", "rev"], True, seed)
        if want("p2-bi-2chains"):
            run_programs(run, "p2-bi-2chains", 2, "bi", W[:2], 2, 2, full_end, ["fwd"], True, seed)
        if want("p3-fanin-2chains"):
            run_programs(run, "p3-fanin-2chains", 3, "fanin", [L_NS, L_NS // 2], 2, 2, cut_end, ["fwd", "rev"], False, seed)
        if want("p3-chain"):
            run_programs(run, "p3-chain", 3, "chain", W[:2], 3, 1, full_end, ["fwd", "rev"], False, seed)
        if want("p2-link-latency"):
            run_programs(run, "p2-link-latency", 2, "bi-lat", W[:2], 3, 1, cut_end, ["fwd"], True, seed)
        if want("p2-cancel-daemon"):
            # sender-side cancellation after the barrier; daemon events crossing a link (finite end only:
            # without end_time the sequential engine auto-terminates on daemon-only heaps, the coordinator does not)
            run_programs(run, "p2-cancel-daemon", 2, "bi", W[:2], 2, 1, lambda w: [12 * w, 5 * w + 1], ["fwd", "rev"],
                         "cancel-daemon", seed)
        if want("p2-start-duration"):
            # the horizon given as start_time + duration (start on and off the window grid)
            run_programs(run, "p2-start-duration", 2, "bi", W[:2], 2, 1,
                         lambda w: [("sd", 4 * w, 3 * w), ("sd", w + TICK // 2, 12 * w), ("sd", 20 * w, 2 * w)],
                         ["fwd", "rev"], True, seed)
        if want("independent"):
            run_independent(run, seed, 1)
        if want("schedules"):
            run_schedules(run, seed, 1)
        if want("free-running-threads"):
            run_free_threads(run, 3)
    else:
        if want("p2-bi-1chain"):
            run_programs(run, "p2-bi-1chain", 2, "bi", W, 4, 1, cut_end, ["fwd", "rev"], True, seed)
        if want("p2-bi-2chains"):
            run_programs(run, "p2-bi-2chains", 2, "bi", W, 2, 2, cut_end, ["fwd", "rev"], True, seed, second_depth=2)
        if want("p3-fanin-2chains"):
            run_programs(run, "p3-fanin-2chains", 3, "fanin", W, 3, 2, cut_end, ["fwd", "rev"], True, seed, second_depth=2)
        if want("p3-chain"):
            run_programs(run, "p3-chain", 3, "chain", W, 4, 1, full_end, ["fwd", "rev"], True, seed)
        if want("p3-bi"):
            run_programs(run, "p3-bi", 3, "bi", W[:2], 3, 1, full_end, ["fwd", "rev"], False, seed)
        if want("p2-link-latency"):
            run_programs(run, "p2-link-latency", 2, "bi-lat", W, 4, 1, cut_end, ["fwd", "rev"], True, seed)
        if want("p2-cancel-daemon"):
            run_programs(run, "p2-cancel-daemon", 2, "bi", W, 3, 1, lambda w: [12 * w, 5 * w + 1], ["fwd", "rev"],
                         "cancel-daemon", seed)
            run_programs(run, "p3-cancel-daemon", 3, "chain", W[:2], 3, 1, lambda w: [12 * w], ["fwd", "rev"],
                         "cancel-daemon", seed)
        if want("p2-start-duration"):
            run_programs(run, "p2-start-duration", 2, "bi", W, 3, 1,
                         lambda w: [("sd", 4 * w, 3 * w), ("sd", w + TICK // 2, 12 * w), ("sd", 20 * w, 2 * w),
                                    ("sd", 3 * w - 1, 6 * w)],
                         ["fwd", "rev"], True, seed)
        if want("independent"):
            run_independent(run, seed, 2)
        if want("schedules"):
            run_schedules(run, seed, 2)
        if want("free-running-threads"):
            run_free_threads(run, 20)
    return run.finish()


def _thaw(x):
    return tuple(_thaw(i) for i in x) if isinstance(x, list) else x


def replay(data):
    rep = data["replay"]
    program = _thaw(rep["program"])
    drv = rep.get("driver")
    if drv == "independent":
        par, warns, err = run_parallel(program, rep["n"], "none", 0.0, rep["end_ns"], (rep["order"], None, False))
        seq = [run_sequential(program, rep["n"], rep["end_ns"], only_node=i)[i] for i in range(rep["n"])]
        v = compare(par, seq, warns, err, rep["end_ns"], exact=True)
    elif drv == "schedules":
        ch = Chooser(rep["choices"])
        par, warns, err = run_parallel(program, 2, "bi", rep["window_ns"] / 1e9, None, ("choose", ch, True))
        seq = run_sequential(program, 2, None)
        v = compare(par, seq, warns, err, None)
    elif drv == "free":
        par, warns, err = run_parallel(program, 2, "bi", rep["window_ns"] / 1e9, None, real_threads=True)
        seq = run_sequential(program, 2, None)
        v = compare(par, seq, warns, err, None)
    else:
        par, warns, err = run_parallel(program, rep["n"], rep["topo"], rep["window_ns"] / 1e9, rep["end_ns"],
                                       (rep["order"], None, False))
        seq = run_sequential(program, rep["n"], rep["end_ns"])
        v = compare(par, seq, warns, err, rep["end_ns"])
    print("program (node, start_ns, plan):", program)
    print({k: rep[k] for k in rep if k not in ("program",)})
    for i, (p, s) in enumerate(zip(par, seq)):
        print(f"  N{i} parallel  : {p}")
        print(f"  N{i} sequential: {s}")
    for w_ in warns:
        print("  engine warning:", w_[:200])
    if err:
        print("  exception:", err)
    for fp, desc in v:
        print(f"  !! {fp}: {desc}")
    return 1 if v else 0

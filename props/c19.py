"""C19 — messaging delivers until acknowledged, to the right consumers, in offset order.

Engine E2 (real ``Simulation``; the property is about delivery *events* reaching
consumer entities).  Drivers:

* ``mq``       MessageQueue + DeadLetterQueue: every sequence of applicable operations
               {publish, poll, ack, reject(requeue), reject(no requeue), redelivery
               time-out, subscribe / unsubscribe per consumer} up to a length bound, one
               operation per tick, for consumers {1,2} x max_redeliveries {0,1,2} x delivery
               latency {0, 0.25 s}; a drain phase after every sequence (props/c19_mq.py).
* ``topic``    Topic: every sequence over {publish, two concurrent publishes, publish_sync,
               subscribe / unsubscribe per subscriber} x subscribers {2,3} x latency {0, 0.25 s}.
* ``eventlog`` EventLog: appends (single and concurrent, incl. key "" and key-less Append events) / reads / waits under every retention
               setting x partitions {1,2,3} (props/c19_stream.py).
* ``group``    ConsumerGroup: every join/leave order of <= 3 members incl. re-joins under the same name and quiet
               ticks (quick: membership toggles + wait, <= 6 ops; thorough: <= 7 ops and, incl. redundant joins /
               leaves, <= 4 ops) x 3 strategies x partitions {1..4} x rebalance delay {0, shorter, longer than a
               tick}; ownership checked after every rebalance and whenever all rebalances have settled.
* ``commit``   ConsumerGroup commit sequences incl. stale and late (non-owner) commits and polls, interleaved
               with rebalances incl. ownership round trips (a partition returning to a former owner).
* ``outbox`` / ``idem`` / ``stream`` (thorough): OutboxRelay, IdempotencyStore, StreamProcessor.
"""
from __future__ import annotations

import itertools
import time

from mc.evidence import Run
from mc.harness import pmap, rotate

from props import c19_mq as MQ
from props import c19_stream as ST

PID = "C19"

RULE = (
    "one execution = one operation sequence (one harness operation per 1 s tick, chosen from the operations "
    "applicable in the current public/consumer-visible state, or 'end') on the real component inside a real "
    "Simulation; all sequences up to the length bound are enumerated by the choice explorer, each exactly once. "
    "non-trivial: mq = a message was redelivered, dead-lettered, or answered (ack/reject) while no longer in flight; "
    "topic = publishes overlapped, followed an unsubscribe / re-subscribe, or a subscription changed during a fan-out; eventlog = a retention sweep expired "
    "records or two appends overlapped; group = a membership change arrived while another rebalance was pending, "
    "a member re-joined, or >= 2 members were in the group; commit = a commit lower than an earlier one of that "
    "member was issued, a member committed for a partition it did not own, or a partition returned to a former owner; outbox = an entry was written while earlier entries were still pending; idem = a key was "
    "used twice; stream = a window held >= 2 records.  states = distinct observation digests (what consumers received, with times, plus public counters)."
)
ASSUMPTIONS = [
    "1 tick = 1 s; delivery latency 0 or 0.25 s, redelivery delay 1.5 s, so nothing the library schedules lands on "
    "a tick and every tick boundary is a quiescent point at which public counters can be compared with receipts",
    "consumers answer (ack / reject) only deliveries they actually received, oldest unanswered first; the "
    "redelivery time-out is issued through MessageQueue.schedule_redelivery for the first message whose public "
    "state is DELIVERED and the returned event is scheduled as a caller would",
    "'never lost' is read operationally: after the sequence a drain phase (one willing auto-acknowledging consumer, "
    "time-outs for in-flight messages, n+1 polls, up to three rounds) must leave every published message "
    "acknowledged or dead-lettered",
    "'redelivery limit' is taken exactly as HEAD documents and implements it, identically for the reject path and "
    "the time-out path (DeadLetterQueue docstring: 'max_redeliveries=3 ... messages that fail 3 times go to DLQ'): a "
    "failure (reject with requeue, or redelivery time-out) of a message that has been delivered fewer than "
    "max_redeliveries times must not dead-letter it, a failure after max_redeliveries or more deliveries must "
    "dead-letter it (deliveries = what the consumers received; checked at quiescent tick boundaries)",
    "uuid.uuid4 is pinned to a counter; no component under test reads the wall clock or the random module",
    "committed offsets are observed per (member, partition) through consumer_lag() = high watermark - committed, "
    "over the whole sequence incl. after a partition returned to a former owner; besides never decreasing between "
    "observations, the value must never be below the highest offset that member committed for that partition "
    "(a commit issued while the member did not own the partition counts only if a calibration probe through the "
    "public API shows that the library applies such commits), and poll() must not hand a member a record below "
    "that offset",
]


# ---------------------------------------------------------------------------
def _mq_jobs(tier):
    """Sub-spaces: configuration x forced 2-operation prefix (+ one job for the shorter sequences)."""
    n = 6 if tier == "quick" else 8
    jobs = []
    for consumers in (1, 2):
        alpha = ["pub", "poll", "ack", "rejq", "rejd", "tmo"] + [f"{a}{k}" for k in range(consumers) for a in ("sub", "unsub")]
        cfgs = [({"consumers": consumers, "M": M, "lat": lat}, n) for M in (0, 1, 2) for lat in (0.0, 0.25)]
        if consumers == 2:
            # delivery latency longer than a tick: subscribe / unsubscribe / ack / time-out land inside a
            # delivery's latency window (weakened oracle there, see MQWorld.long)
            cfgs += [({"consumers": 2, "M": M, "lat": 1.25}, n if tier == "quick" else n - 1) for M in (0, 2)]
        for cfg, n_cfg in cfgs:
            if True:
                plen = 2 if tier == "quick" else 3
                jobs.append(("mq", cfg, (), plen - 1))
                for pre in itertools.product(alpha, repeat=plen):
                    # cheap static pruning of prefixes that can never be applicable
                    if any(o in ("ack", "rejq", "rejd", "tmo") for o in pre[:2]):
                        continue
                    if pre[0].startswith("sub0") or (consumers == 2 and pre[0] == "unsub1"):
                        continue
                    jobs.append(("mq", cfg, pre, n_cfg))
    return jobs, n


def _topic_jobs(tier):
    n = 5 if tier == "quick" else 7
    jobs = []
    for subs in (2, 3):
        alpha = ["pub", "pub2", "pubsync"] + [f"{a}{k}" for k in range(subs) for a in ("sub", "unsub")]
        cfgs = [{"subs": subs, "lat": lat, "initial": 1} for lat in (0.0, 0.25)]
        # fan-out longer than a tick: subscribe / unsubscribe / publish land inside the latency window
        cfgs += [{"subs": subs, "lat": 0.75, "initial": init} for init in sorted({2, subs})]
        for cfg in cfgs:
            jobs.append(("topic", cfg, (), 1))
            for pre in itertools.product(alpha, repeat=2):
                jobs.append(("topic", cfg, pre, n))
    return jobs, n


def _collect(run, d, results, t0):
    outcomes = set()
    for st in results:
        d.executions += st["exec"]
        d.transitions += st["trans"]
        d.nontrivial += st["nontriv"]
        outcomes |= st["outcomes"]
        for fp, (desc, rep) in st["viol"].items():
            old = run.violations.get(fp)
            run.violation(fp, desc, rep)
            if old is not None and tuple(rep.get("rank", (0, 0))) < tuple(old[1].get("rank", (0, 0))):
                run.violations[fp] = (desc, rep)  # keep the simplest witness (found before the drain, shortest)
        if len(d.samples) < 3:
            d.samples.extend(st["samples"])
    d.states = len(outcomes)
    d.outcomes = len(outcomes)
    d.wall_s = time.time() - t0


def run_mq(run, tier, seed):
    t0 = time.time()
    jobs, n = _mq_jobs(tier)
    d = run.driver("mq", {"max_ops": n, "ops": ["pub", "poll", "ack", "rejq", "rejd", "tmo", "sub<k>", "unsub<k>", "end"],
                          "consumers": [1, 2], "max_redeliveries": [0, 1, 2], "delivery_latency_s": [0.0, 0.25],
                          "long_latency_configs": "2 consumers, max_redeliveries {0,2}, latency 1.25 s (max_ops 6 quick / 7 thorough)",
                          "redelivery_delay_s": MQ.RD_S, "max_published": 3, "subspaces": len(jobs)})
    _collect(run, d, pmap(MQ.explore_space, rotate(jobs, seed), chunksize=4), t0)


def run_topic(run, tier, seed):
    t0 = time.time()
    jobs, n = _topic_jobs(tier)
    d = run.driver("topic", {"max_ops": n, "ops": ["pub", "pub2 (two publishes on one instant)", "pubsync",
                                                  "sub<k>", "unsub<k>", "end"],
                             "subscribers": [2, 3], "delivery_latency_s": [0.0, 0.25, "0.75 (fan-out of 2-3 subscribers spans 1-2 ticks)"],
                             "initially_subscribed": "1 (latency 0 / 0.25), 2 or all (latency 0.75)", "max_published": 4,
                             "subspaces": len(jobs)})
    _collect(run, d, pmap(MQ.explore_space, rotate(jobs, seed), chunksize=4), t0)


def run_stream(run, tier, seed, name):
    t0 = time.time()
    jobs, bounds = ST.jobs(name, tier)
    d = run.driver(name, dict(bounds, subspaces=len(jobs)))
    _collect(run, d, pmap(ST.explore_space, rotate(jobs, seed), chunksize=2), t0)


DRIVERS = ["mq", "topic", "eventlog", "group", "commit", "outbox", "idem", "stream"]
THOROUGH_ONLY = {"outbox", "idem", "stream"}


def main(tier, seed, only=None):
    run = Run(PID, tier, seed, "model_checking", rule=RULE, assumptions=ASSUMPTIONS)
    for name in DRIVERS:
        if only and name not in only:
            continue
        if tier == "quick" and name in THOROUGH_ONLY:
            continue
        if name == "mq":
            run_mq(run, tier, seed)
        elif name == "topic":
            run_topic(run, tier, seed)
        else:
            run_stream(run, tier, seed, name)
    if only:
        run.notes.append(f"partial run: --only {sorted(only)}")
    if tier == "quick":
        run.notes.append("drivers outbox / idem / stream run in the thorough tier only")
    return run.finish()


def replay(data):
    rep = data["replay"]
    kind = rep["driver"]
    print(f"fingerprint: {data.get('fingerprint')}")
    print(f"driver={kind} cfg={rep['cfg']} ops={rep['ops']}")
    if kind in MQ.WORLDS:
        w = MQ.replay_world(kind, rep["cfg"], rep["ops"])
    else:
        w = ST.replay_world(kind, rep["cfg"], rep["ops"])
    if w.viol is None:
        print("no violation reproduced")
        return 0
    print(f"reproduced: {w.viol[0]}")
    print(f"  {w.viol[1]}")
    if data.get("fingerprint") not in (None, w.viol[0]):
        print(f"  (recorded fingerprint was {data.get('fingerprint')})")
    return 1

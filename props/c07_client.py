"""C07 registry: clients (Client x retry policies, ConnectionPool, PooledClient)."""
from __future__ import annotations

from props.c07_core import Drv, Entity, P, R

from happysimulator.components.client import (Client, ConnectionPool, DecorrelatedJitter, ExponentialBackoff,
                                              FixedRetry, NoRetry, PooledClient)


class _SlowFirst(Entity):
    """Backend: the first ``k`` calls hang (never complete inside the horizon), later ones take L."""

    def __init__(self, name, L, k):
        super().__init__(name)
        self.L, self.k, self.calls = L, k, 0

    def handle_event(self, event):
        self.calls += 1
        return self._serve(self.calls <= self.k)

    def _serve(self, hang):
        yield 100.0 if hang else self.L
        return None


class _ClientDrv(Drv):
    family = "client"
    ops = ("request",)
    hang_first = 1

    def retry(self):
        return NoRetry()

    def build(self, cfg):
        self.backend = _SlowFirst("backend", cfg.L, self.hang_first)
        self.ok = self.fail = 0
        self.c = Client("client", target=self.backend, timeout=2.0 * cfg.L + P(0.75), retry_policy=self.retry(),
                        on_success=self._ok, on_failure=self._fail)
        return [self.backend, self.c]

    def _ok(self, req, resp):
        self.ok += 1

    def _fail(self, req, reason):
        self.fail += 1

    def request(self, i, op):
        return [self.c.send_request(payload={"i": i})]


class ClientNoRetryDrv(_ClientDrv):
    covers = ("Client", "NoRetry")


class ClientFixedRetryDrv(_ClientDrv):
    covers = ("Client", "FixedRetry")
    hang_first = 2

    def retry(self):
        return FixedRetry(max_attempts=3, delay=P(0.5))


class ClientZeroDelayRetryDrv(_ClientDrv):
    """Bounded retries with zero delay between attempts (delay must be >= 0 per the API)."""
    covers = ("Client", "FixedRetry")
    hang_first = 2

    def retry(self):
        return FixedRetry(max_attempts=3, delay=0.0)


class ClientBackoffDrv(_ClientDrv):
    covers = ("Client", "ExponentialBackoff")
    hang_first = 2

    def retry(self):
        return ExponentialBackoff(max_attempts=3, initial_delay=P(0.25), max_delay=P(1.0), multiplier=2.0, jitter=0.0)


class ClientJitterDrv(_ClientDrv):
    covers = ("Client", "DecorrelatedJitter")
    hang_first = 2

    def retry(self):
        return DecorrelatedJitter(max_attempts=3, base_delay=P(0.25), max_delay=P(1.0))


class ConnectionPoolDrv(Drv):
    contention = True
    """max 1 connection, set-up latency L, acquire timeout 1 s (poll 0.1 s), idle timeout 1 s; holders keep the
    connection for L (op acquire) or 4L+1.5 s (op acquire_long: waiters time out)."""
    family = "client"
    covers = ("ConnectionPool",)
    ops = ("acquire", "acquire_long")

    def build(self, cfg):
        self.backend = _SlowFirst("backend", cfg.L, 0)
        self.timeouts = 0
        self.pool = ConnectionPool("pool", target=self.backend, min_connections=0, max_connections=1,
                                   connection_timeout=P(1.0), idle_timeout=P(1.0), connection_latency=cfg.lat())
        return [self.backend, self.pool]

    def request(self, i, op):
        try:
            conn = yield from self.pool.acquire()
        except TimeoutError:
            self.timeouts += 1
            return None
        yield (self.cfg.L if op == "acquire" else 4 * self.cfg.L + 1.5)
        return self.pool.release(conn)


class ConnectionPoolWarmDrv(Drv):
    contention = True
    """min 2 / max 2 connections created by warmup() at t=0 with set-up latency L; idle timeout 1 s."""
    family = "client"
    covers = ("ConnectionPool",)
    ops = ("acquire",)

    def build(self, cfg):
        self.backend = _SlowFirst("backend", cfg.L, 0)
        self.pool = ConnectionPool("pool", target=self.backend, min_connections=2, max_connections=2,
                                   connection_timeout=P(1.0), idle_timeout=P(1.0), connection_latency=cfg.lat())
        return [self.backend, self.pool]

    def init(self):
        return [self.pool.warmup()]

    def request(self, i, op):
        try:
            conn = yield from self.pool.acquire()
        except TimeoutError:
            return None
        yield self.cfg.L
        return self.pool.release(conn)


class PooledClientDrv(Drv):
    contention = True
    family = "client"
    covers = ("PooledClient", "ConnectionPool")
    ops = ("request",)

    def build(self, cfg):
        self.backend = _SlowFirst("backend", cfg.L, 1)
        self.pool = ConnectionPool("pool", target=self.backend, max_connections=1, connection_timeout=P(1.0),
                                   idle_timeout=P(1.0), connection_latency=cfg.lat())
        self.ok = self.fail = 0
        self.pc = PooledClient("pclient", connection_pool=self.pool, timeout=2.0 * cfg.L + P(0.75),
                               retry_policy=FixedRetry(max_attempts=2, delay=P(0.5)),
                               on_success=lambda a, b: None, on_failure=lambda a, b: None)
        return [self.backend, self.pool, self.pc]

    def request(self, i, op):
        return [self.pc.send_request(payload={"i": i})]


def _short(cfg):
    """A timer SHORTER than the latency knob (and > 0): half of L, or a quarter period in the zero-latency configs."""
    return cfg.L / 2 if cfg.L > 0 else P(0.25)


class ClientShortTimeoutDrv(_ClientDrv):
    """Request timeout L/2, i.e. below the backend's service time L: every attempt times out, then retries."""
    covers = ("Client", "FixedRetry")
    hang_first = 0

    def retry(self):
        return FixedRetry(max_attempts=2, delay=P(0.25))

    def build(self, cfg):
        ents = super().build(cfg)
        self.c = Client("client", target=self.backend, timeout=_short(cfg), retry_policy=self.retry(),
                        on_success=self._ok, on_failure=self._fail)
        return [self.backend, self.c]


class _PooledVariantDrv(Drv):
    contention = True
    """PooledClient arms its request timeout AFTER `yield from pool.acquire()`.  These variants make the time to
    obtain a connection exceed the request timeout: (a) set-up latency L of a new connection vs timeout L/2,
    (b) pool of 1 exhausted, the holder keeps the connection (slow / hanging backend) longer than the waiter's
    request timeout while the pool's own wait timeout is much larger, (c) the same with retries."""
    family = "client"
    covers = ("PooledClient", "ConnectionPool")
    ops = ("request",)
    hang_first = 0
    retries = 1
    max_conn = 1

    def timeout(self, cfg):
        raise NotImplementedError

    def build(self, cfg):
        self.backend = _SlowFirst("backend", cfg.L, self.hang_first)
        self.pool = ConnectionPool("pool", target=self.backend, max_connections=self.max_conn,
                                   connection_timeout=P(6.0), idle_timeout=P(1.0), connection_latency=cfg.lat())
        self.pc = PooledClient("pclient", connection_pool=self.pool, timeout=self.timeout(cfg),
                               retry_policy=(FixedRetry(max_attempts=self.retries, delay=P(0.25))
                                             if self.retries > 1 else NoRetry()),
                               on_success=lambda a, b: None, on_failure=lambda a, b: None)
        return [self.backend, self.pool, self.pc]

    def request(self, i, op):
        return [self.pc.send_request(payload={"i": i})]


class PooledClientTimeoutBelowSetupDrv(_PooledVariantDrv):
    """(a) request timeout L/2 < connection set-up latency L; two connections allowed, healthy backend."""
    max_conn = 2

    def timeout(self, cfg):
        return _short(cfg)


class PooledClientTimeoutBelowHoldDrv(_PooledVariantDrv):
    """(b) one connection, the first call hangs: the holder keeps the connection for its whole request timeout
    (2L + 0.75 s), the waiters (patient pool, 6 s) get it only after their own budget has elapsed."""
    hang_first = 1

    def timeout(self, cfg):
        return 2.0 * cfg.L + P(0.75)


class PooledClientTimeoutBelowHoldRetryDrv(_PooledVariantDrv):
    """(c) like (b) with short timeouts (L/2 resp. 0.25 s), a backend that hangs twice and 2 attempts per request."""
    hang_first = 2
    retries = 2

    def timeout(self, cfg):
        return _short(cfg)


DRIVERS = [ClientNoRetryDrv, ClientFixedRetryDrv, ClientZeroDelayRetryDrv, ClientBackoffDrv, ClientJitterDrv,
           ConnectionPoolDrv, ConnectionPoolWarmDrv, PooledClientDrv, ClientShortTimeoutDrv,
           PooledClientTimeoutBelowSetupDrv, PooledClientTimeoutBelowHoldDrv, PooledClientTimeoutBelowHoldRetryDrv]

"""C07 registry: clients (Client x retry policies, ConnectionPool, PooledClient)."""
from __future__ import annotations

from props.c07_core import Drv, Entity, P, R

from happysimulator.components.client import (Client, ConnectionPool, DecorrelatedJitter, ExponentialBackoff,
                                              FixedRetry, NoRetry, PooledClient)


class _SlowFirst(Entity):
    """Backend: the first ``k`` calls hang (never complete inside the horizon), later ones take L."""

    def __init__(self, name, L, k):
        super().__init__(name)
        self.L, self.k, self.calls = L, k, 0

    def handle_event(self, event):
        self.calls += 1
        return self._serve(self.calls <= self.k)

    def _serve(self, hang):
        yield 100.0 if hang else self.L
        return None


class _ClientDrv(Drv):
    family = "client"
    ops = ("request",)
    hang_first = 1

    def retry(self):
        return NoRetry()

    def build(self, cfg):
        self.backend = _SlowFirst("backend", cfg.L, self.hang_first)
        self.ok = self.fail = 0
        self.c = Client("client", target=self.backend, timeout=P(2.0) * cfg.L + P(0.75), retry_policy=self.retry(),
                        on_success=self._ok, on_failure=self._fail)
        return [self.backend, self.c]

    def _ok(self, req, resp):
        self.ok += 1

    def _fail(self, req, reason):
        self.fail += 1

    def request(self, i, op):
        return [self.c.send_request(payload={"i": i})]


class ClientNoRetryDrv(_ClientDrv):
    covers = ("Client", "NoRetry")


class ClientFixedRetryDrv(_ClientDrv):
    covers = ("Client", "FixedRetry")
    hang_first = 2

    def retry(self):
        return FixedRetry(max_attempts=3, delay=P(0.5))


class ClientZeroDelayRetryDrv(_ClientDrv):
    """Bounded retries with zero delay between attempts (delay must be >= 0 per the API)."""
    covers = ("Client", "FixedRetry")
    hang_first = 2

    def retry(self):
        return FixedRetry(max_attempts=3, delay=0.0)


class ClientBackoffDrv(_ClientDrv):
    covers = ("Client", "ExponentialBackoff")
    hang_first = 2

    def retry(self):
        return ExponentialBackoff(max_attempts=3, initial_delay=P(0.25), max_delay=P(1.0), multiplier=2.0, jitter=0.0)


class ClientJitterDrv(_ClientDrv):
    covers = ("Client", "DecorrelatedJitter")
    hang_first = 2

    def retry(self):
        return DecorrelatedJitter(max_attempts=3, base_delay=P(0.25), max_delay=P(1.0))


class ConnectionPoolDrv(Drv):
    """max 1 connection, set-up latency L, acquire timeout 1 s (poll 0.1 s), idle timeout 1 s; holders keep the
    connection for L (op acquire) or 4L+1.5 s (op acquire_long: waiters time out)."""
    family = "client"
    covers = ("ConnectionPool",)
    ops = ("acquire", "acquire_long")

    def build(self, cfg):
        self.backend = _SlowFirst("backend", cfg.L, 0)
        self.timeouts = 0
        self.pool = ConnectionPool("pool", target=self.backend, min_connections=0, max_connections=1,
                                   connection_timeout=P(1.0), idle_timeout=P(1.0), connection_latency=cfg.lat())
        return [self.backend, self.pool]

    def request(self, i, op):
        try:
            conn = yield from self.pool.acquire()
        except TimeoutError:
            self.timeouts += 1
            return None
        yield (self.cfg.L if op == "acquire" else 4 * self.cfg.L + 1.5)
        return self.pool.release(conn)


class ConnectionPoolWarmDrv(Drv):
    """min 2 / max 2 connections created by warmup() at t=0 with set-up latency L; idle timeout 1 s."""
    family = "client"
    covers = ("ConnectionPool",)
    ops = ("acquire",)

    def build(self, cfg):
        self.backend = _SlowFirst("backend", cfg.L, 0)
        self.pool = ConnectionPool("pool", target=self.backend, min_connections=2, max_connections=2,
                                   connection_timeout=P(1.0), idle_timeout=P(1.0), connection_latency=cfg.lat())
        return [self.backend, self.pool]

    def init(self):
        return [self.pool.warmup()]

    def request(self, i, op):
        try:
            conn = yield from self.pool.acquire()
        except TimeoutError:
            return None
        yield self.cfg.L
        return self.pool.release(conn)


class PooledClientDrv(Drv):
    family = "client"
    covers = ("PooledClient", "ConnectionPool")
    ops = ("request",)

    def build(self, cfg):
        self.backend = _SlowFirst("backend", cfg.L, 1)
        self.pool = ConnectionPool("pool", target=self.backend, max_connections=1, connection_timeout=P(1.0),
                                   idle_timeout=P(1.0), connection_latency=cfg.lat())
        self.ok = self.fail = 0
        self.pc = PooledClient("pclient", connection_pool=self.pool, timeout=P(2.0) * cfg.L + P(0.75),
                               retry_policy=FixedRetry(max_attempts=2, delay=P(0.5)),
                               on_success=lambda a, b: None, on_failure=lambda a, b: None)
        return [self.backend, self.pool, self.pc]

    def request(self, i, op):
        return [self.pc.send_request(payload={"i": i})]


DRIVERS = [ClientNoRetryDrv, ClientFixedRetryDrv, ClientZeroDelayRetryDrv, ClientBackoffDrv, ClientJitterDrv,
           ConnectionPoolDrv, ConnectionPoolWarmDrv, PooledClientDrv]

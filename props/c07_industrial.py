"""C07 registry: industrial components."""
from __future__ import annotations

from props.c07_core import Backend, Drv, Entity, Event, P, PI, R

from happysimulator.components.industrial import (AppointmentScheduler, BalkingQueue, BatchProcessor,
                                                  BreakdownScheduler, ConditionalRouter, ConveyorBelt,
                                                  GateController, InspectionStation, InventoryBuffer,
                                                  PerishableInventory, PooledCycleResource, PreemptibleResource,
                                                  RenegingQueuedResource, Shift, ShiftedServer, ShiftSchedule,
                                                  SplitMerge)
from happysimulator.components.queue_policy import FIFOQueue
from happysimulator.components.server import Server


class AppointmentSchedulerDrv(Drv):
    """Fixed appointments ON the arrival grid (1.0, 1.5, 2.0 s) with 50 % no-shows; walk-ins are the requests."""
    family = "industrial"
    covers = ("AppointmentScheduler",)
    ops = ("walk_in",)

    def build(self, cfg):
        self.clinic = Server("clinic", concurrency=1, service_time=cfg.lat(), downstream=self.h.out)
        self.appt = AppointmentScheduler("appointments", target=self.clinic, appointments=[P(1.0), P(1.5), P(2.0), P(2.0)],
                                         no_show_rate=0.5)
        return [self.clinic, self.appt]

    def init(self):
        return self.appt.start_events()

    def request(self, i, op):
        return [self.h.ev(self.clinic, "WalkIn", {"metadata": {"i": i}})]


class BatchProcessorDrv(Drv):
    """batch_size 2, processing L, timeout 0.75 s (a lone item is flushed by the timeout)."""
    family = "industrial"
    covers = ("BatchProcessor",)
    ops = ("item",)

    def build(self, cfg):
        self.bp = BatchProcessor("batch", downstream=self.h.out, batch_size=2, process_time=cfg.L, timeout_s=P(0.75))
        return [self.bp]

    def request(self, i, op):
        return [self.h.ev(self.bp, "Item", {"metadata": {"i": i}})]


class _Machine(Server):
    pass


class BreakdownSchedulerDrv(Drv):
    """Mean time to failure 1 s, mean repair 0.5 s (exponential draws from the per-scenario seeded RNG)."""
    family = "industrial"
    covers = ("BreakdownScheduler",)
    ops = ("job",)

    def build(self, cfg):
        self.m = _Machine("machine", concurrency=1, service_time=cfg.lat(), downstream=self.h.out)
        self.bd = BreakdownScheduler("breakdowns", target=self.m, mean_time_to_failure=P(1.0), mean_repair_time=P(0.5))
        return [self.m, self.bd]

    def init(self):
        return [self.bd.start_event()]

    def request(self, i, op):
        return [self.h.ev(self.m, "Job", {"metadata": {"i": i}})]


class ConditionalRouterDrv(Drv):
    family = "industrial"
    covers = ("ConditionalRouter",)
    ops = ("gold", "basic", "unknown")

    def build(self, cfg):
        self.fast = Backend("fast", cfg.L / 2, self.h.out)
        self.slow = Backend("slow", cfg.L, self.h.out)
        self.r = ConditionalRouter.by_context_field("router", "tier", {"gold": self.fast, "basic": self.slow},
                                                    default=None)
        self.r2 = ConditionalRouter("router2", routes=[(lambda e: e.context.get("tier") == "unknown", self.r)],
                                    default=self.r, drop_unmatched=False)
        return [self.fast, self.slow, self.r, self.r2]

    def request(self, i, op):
        return [self.h.ev(self.r2, "Order", {"tier": op, "metadata": {"i": i}})]


class ConveyorBeltDrv(Drv):
    family = "industrial"
    covers = ("ConveyorBelt",)
    ops = ("item",)

    def build(self, cfg):
        self.c2 = ConveyorBelt("belt2", downstream=self.h.out, transit_time=cfg.L / 2, capacity=0)
        self.c1 = ConveyorBelt("belt1", downstream=self.c2, transit_time=cfg.L, capacity=2)
        return [self.c1, self.c2]

    def request(self, i, op):
        return [self.h.ev(self.c1, "Item", {"metadata": {"i": i}})]


class GateControllerDrv(Drv):
    """Gate initially closed; scheduled open/close instants land ON the arrival grid (1.0-1.5 s, 2.0-2.5 s);
    'toggle' opens/closes it programmatically from a handler."""
    family = "industrial"
    covers = ("GateController",)
    ops = ("arrive", "toggle")

    def build(self, cfg):
        self.b = Backend("ride", cfg.L, self.h.out)
        self.g = GateController("gate", downstream=self.b, schedule=[(P(1.0), P(1.5)), (P(2.0), P(2.5)), (1.001, 1.003)],
                                initially_open=False, queue_capacity=2)
        return [self.b, self.g]

    def init(self):
        return self.g.start_events()

    def request(self, i, op):
        if op == "toggle":
            return self.g.close() if self.g.is_open else self.g.open()
        return [self.h.ev(self.g, "Guest", {"metadata": {"i": i}})]


class InspectionStationDrv(Drv):
    family = "industrial"
    covers = ("InspectionStation",)
    ops = ("item",)

    def build(self, cfg):
        self.rework = Backend("rework", cfg.L, self.h.out)
        self.st = InspectionStation("inspect", pass_target=self.h.out, fail_target=self.rework,
                                    inspection_time=cfg.L, pass_rate=0.5)
        return [self.rework, self.st]

    def request(self, i, op):
        return [self.h.ev(self.st, "Item", {"metadata": {"i": i}})]


class BalkingQueueDrv(Drv):
    contention = True
    """BalkingQueue policy (threshold 1) in front of a capacity-1 Server."""
    family = "industrial"
    covers = ("BalkingQueue", "Server")
    ops = ("customer",)

    def build(self, cfg):
        self.s = Server("counter", concurrency=1, service_time=cfg.lat(),
                        queue_policy=BalkingQueue(FIFOQueue(), balk_threshold=1, balk_probability=1.0),
                        downstream=self.h.out)
        return [self.s]

    def request(self, i, op):
        return [self.h.ev(self.s, "Customer", {"metadata": {"i": i}})]


class InventoryBufferDrv(Drv):
    """Stock 2, reorder at <= 1, lead time L (0 in the zero configs: the replenishment is due at the ordering instant)."""
    family = "industrial"
    covers = ("InventoryBuffer",)
    ops = ("consume", "consume_two")

    def build(self, cfg):
        self.stockouts = Backend("backorders", cfg.L, self.h.out)
        self.inv = InventoryBuffer("inventory", initial_stock=2, reorder_point=1, order_quantity=2,
                                   lead_time=cfg.L, downstream=self.h.out, stockout_target=self.stockouts)
        return [self.stockouts, self.inv]

    def request(self, i, op):
        return [self.h.ev(self.inv, "Consume", {"quantity": 2 if op == "consume_two" else 1, "metadata": {"i": i}})]


class PerishableInventoryDrv(Drv):
    """Shelf life 1.25 s, spoilage sweep every 0.5 s, reorder at <= 1 with lead time L."""
    family = "industrial"
    covers = ("PerishableInventory",)
    ops = ("consume",)

    def build(self, cfg):
        self.waste = Backend("waste", 0.0, None)
        shelf, sweep = PI(1.25, 0.5)
        self.inv = PerishableInventory("blood-bank", initial_stock=2, shelf_life_s=shelf,
                                       spoilage_check_interval_s=sweep, reorder_point=1, order_quantity=2,
                                       lead_time=cfg.L, downstream=self.h.out, waste_target=self.waste)
        return [self.waste, self.inv]

    def init(self):
        return [self.inv.start_event()]

    def request(self, i, op):
        return [self.h.ev(self.inv, "Consume", {"quantity": 1, "metadata": {"i": i}})]


class PooledCycleResourceDrv(Drv):
    contention = True
    family = "industrial"
    covers = ("PooledCycleResource",)
    ops = ("car",)

    def build(self, cfg):
        self.p = PooledCycleResource("bays", pool_size=1, cycle_time=cfg.L, downstream=self.h.out, queue_capacity=1)
        return [self.p]

    def request(self, i, op):
        return [self.h.ev(self.p, "Car", {"metadata": {"i": i}})]


class PreemptibleResourceDrv(Drv):
    contention = True
    """Capacity 1; 'urgent' (priority 0) preempts a 'routine' (priority 5) holder, which notices via on_preempt."""
    family = "industrial"
    covers = ("PreemptibleResource",)
    ops = ("routine", "urgent")

    def build(self, cfg):
        self.r = PreemptibleResource("or-room", capacity=1)
        self.preempted = []
        return [self.r]

    def request(self, i, op):
        grant = yield self.r.acquire(amount=1, priority=0.0 if op == "urgent" else 5.0, preempt=True,
                                     on_preempt=lambda: self.preempted.append(i))
        yield self.cfg.hold
        grant.release()
        return None


class _Teller(RenegingQueuedResource):
    """Concrete reneging server written like the documented pattern (capacity 1, service L)."""

    def __init__(self, name, L, out, reneged):
        super().__init__(name, reneged_target=reneged, default_patience_s=P(0.75))
        self.L, self.out, self.busy = L, out, 0

    def has_capacity(self):
        return self.busy < 1

    def _handle_served_event(self, event):
        self.busy += 1
        try:
            yield self.L
        finally:
            self.busy -= 1
        return [Event(time=self.now, event_type="Served", target=self.out, context=event.context)]


class RenegingQueuedResourceDrv(Drv):
    contention = True
    family = "industrial"
    covers = ("RenegingQueuedResource",)
    ops = ("customer", "impatient")

    def build(self, cfg):
        self.left = Backend("left", 0.0, None)
        self.t = _Teller("teller", cfg.L, self.h.out, self.left)
        return [self.left, self.t]

    def request(self, i, op):
        ctx = {"metadata": {"i": i}}
        if op == "impatient":
            ctx["patience_s"] = P(0.25)
        return [self.h.ev(self.t, "Customer", ctx)]


class ShiftedServerDrv(Drv):
    """Shift boundaries ON the arrival grid: capacity 1 on [0,1.5), 0 on [1.5,2.0), 2 from 2.0 s (+ the odd ms grid)."""
    family = "industrial"
    covers = ("ShiftedServer", "ShiftSchedule", "Shift")
    ops = ("job",)

    def build(self, cfg):
        sched = ShiftSchedule([Shift(0.0, 1.001, 1), Shift(1.001, 1.003, 0), Shift(1.003, P(1.5), 1),
                               Shift(P(2.0), P(6.0), 2)], default_capacity=0)
        self.s = ShiftedServer("shifted", schedule=sched, service_time=cfg.L, downstream=self.h.out)
        return [self.s]

    def request(self, i, op):
        return [self.h.ev(self.s, "Job", {"metadata": {"i": i}})]


class SplitMergeDrv(Drv):
    family = "industrial"
    covers = ("SplitMerge",)
    ops = ("order",)

    def build(self, cfg):
        self.w1 = Backend("pick", cfg.L, None, reply_value="picked")
        self.w2 = Backend("pack", cfg.L / 2, None, reply_value="packed")
        self.sm = SplitMerge("split-merge", targets=[self.w1, self.w2], downstream=self.h.out)
        return [self.w1, self.w2, self.sm]

    def request(self, i, op):
        return [self.h.ev(self.sm, "Order", {"metadata": {"i": i}})]


DRIVERS = [AppointmentSchedulerDrv, BalkingQueueDrv, BatchProcessorDrv, BreakdownSchedulerDrv, ConditionalRouterDrv, ConveyorBeltDrv,
           GateControllerDrv, InspectionStationDrv, InventoryBufferDrv, PerishableInventoryDrv,
           PooledCycleResourceDrv, PreemptibleResourceDrv, RenegingQueuedResourceDrv, ShiftedServerDrv,
           SplitMergeDrv]

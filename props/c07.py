"""C07 — no library component emits an event into the past or spins at a frozen clock.

Engine E2 (exploration on the real ``Simulation``) over a **component registry**: one small
driver per library component class (props/c07_<family>.py), each built in every latency
configuration {zero, (short,) eq, long} and fed EVERY arrival pattern of <= 3 (thorough: 4)
requests over the offset grid {0, d, 2d(, 3d)} x the driver's op alphabet (simultaneous
arrivals and contention included), inside a real Simulation with an explicit end_time, a
delivery horizon and a same-instant storm guard.  See props/c07_core.py for harness + oracle.

Coverage statement: the evidence lists ``components_covered`` and ``components_not_covered``
computed against the classes exported by the happysimulator.components.* packages.
"""
from __future__ import annotations

import glob
import importlib
import inspect
import os
import pkgutil
import time

from mc.evidence import Run
from mc.harness import pmap, rotate
from props import c07_core as core

PID = "C07"


# ----------------------------------------------------------------------------------------
# registry
# ----------------------------------------------------------------------------------------
def load_registry():
    """All Drv classes of the family modules props/c07_<family>.py.  A module that fails to import
    is reported (its classes stay uncovered); it never crashes the check."""
    here = os.path.dirname(os.path.abspath(__file__))
    drivers, problems = [], []
    for path in sorted(glob.glob(os.path.join(here, "c07_*.py"))):
        name = os.path.basename(path)[:-3]
        if name == "c07_core":
            continue
        try:
            mod = importlib.import_module(f"props.{name}")
            for d in getattr(mod, "DRIVERS", []):
                if d not in drivers:
                    drivers.append(d)
        except Exception as exc:  # pragma: no cover
            problems.append(f"family module {name} failed to import: {type(exc).__name__}: {exc}")
    return drivers, problems


def component_universe():
    """Public Entity classes exported by the happysimulator.components.* packages -> {name: (package, abstract)}."""
    import happysimulator.components as C
    from happysimulator.core.entity import Entity
    pkgs = ["happysimulator.components"] + [f"happysimulator.components.{m.name}"
                                           for m in pkgutil.iter_modules(C.__path__) if m.ispkg]
    uni, aux = {}, {}
    for p in pkgs:
        try:
            m = importlib.import_module(p)
        except Exception:
            continue
        for n in (getattr(m, "__all__", None) or [x for x in dir(m) if not x.startswith("_")]):
            o = getattr(m, n, None)
            if not inspect.isclass(o) or not (o.__module__ or "").startswith("happysimulator.components"):
                continue
            fam = o.__module__.split(".")[2] if o.__module__.count(".") >= 3 else "core-components"
            if issubclass(o, Entity):
                uni.setdefault(o.__name__, (fam, inspect.isabstract(o)))
            else:
                aux.setdefault(o.__name__, fam)
    return uni, aux


def _by_name(name):
    drivers, _ = load_registry()
    for d in drivers:
        if d.drv_name() == name:
            return d
    raise KeyError(name)


# ----------------------------------------------------------------------------------------
def main(tier, seed, only=None):
    run = Run(PID, tier, seed, "exploration",
              rule=("scenario = (registry driver, latency configuration, arrival pattern); every pattern of "
                    "<= max_req requests over the offset grid x op alphabet is executed on the real Simulation; "
                    "distinct = distinct scenario; non-trivial = >= 2 requests AND (two arrivals at one instant OR a "
                    "request arrived while an earlier request's process was still open inside the component); "
                    "states = distinct delivery traces observed"),
              assumptions=["latency knobs are 0 / d/2 / d / 2.5d with d = 0.5 s (dyadic, exact in ns); periodic timer "
                           "intervals of components stay non-zero (a zero period is a configuration, not a workload)",
                           "verdict = engine's public 'Time travel detected' warning + deliveries per instant seen "
                           "through sim.control.on_event; the heap push/pop wrapper only attributes the emitter",
                           "B = 50*(requests+10) deliveries at one instant; max_events = %d; end_time = %.0f s"
                           % (core.MAX_EVENTS, core.END_S),
                           "module-level random is re-seeded per scenario; uuid4 is pinned to a counter",
                           "driver/library exceptions are reported per driver (errors), never as a verdict"])
    drivers, problems = load_registry()
    run.notes.extend(problems)
    tp = core.TIER[tier]
    sel = []
    for d in drivers:
        if only and d.family not in only and d.drv_name() not in only:
            continue
        sel.append(d)
    jobs = []
    for d in sel:
        for cfg_name in tp["cfgs"]:
            if d.cfgs and cfg_name not in d.cfgs:
                continue
            if core.CFGS[cfg_name].via and not d.contention:
                continue
            jobs.append((d, cfg_name, tier))
    # heavy op alphabets first (better pool balance); seed only rotates the order
    jobs.sort(key=lambda j: -len(j[0].ops))
    jobs = rotate(jobs, seed)
    t0 = time.time()
    stats = pmap(core.run_job, jobs, ordered=False)
    wall = time.time() - t0

    fams = {}
    for st in stats:
        fams.setdefault(st["family"], []).append(st)
    covered, inert, declared_missing, erroring = {}, [], [], {}
    per_driver = {}
    for st in stats:
        p = per_driver.setdefault(st["driver"], {"exec": 0, "events": 0, "pushes": 0, "errors": 0, "viol": set(),
                                                 "instances": set(), "completed": 0, "requests": 0,
                                                 "lib_deliveries": 0, "error_sample": None})
        for k in ("exec", "events", "pushes", "errors", "completed", "requests", "lib_deliveries"):
            p[k] += st[k]
        p["viol"] |= set(st["viol"])
        p["instances"] |= set(st["instances"] or [])
        if st["error_sample"] and not p["error_sample"]:
            p["error_sample"] = st["error_sample"]
    by_name = {d.drv_name(): d for d in sel}
    low_verdict = {}
    for name, p in per_driver.items():
        d = by_name[name]
        ok_runs = p["exec"] - p["errors"]
        p["verdict_fraction"] = round(ok_runs / p["exec"], 4) if p["exec"] else 0.0
        if p["verdict_fraction"] < 0.5:
            # most scenarios of this driver were aborted by an exception: its classes are NOT credited to it
            low_verdict[name] = {"verdict_fraction": p["verdict_fraction"], "covers": list(d.covers),
                                 "error_sample": p["error_sample"]}
        for c in d.covers:
            if ok_runs == 0:
                erroring[c] = p["error_sample"]
            elif p["verdict_fraction"] < 0.5:
                continue
            elif c not in p["instances"]:
                declared_missing.append(c)
            else:
                covered[c] = name
        if ok_runs and p["pushes"] == 0:
            inert.append(name)

    best, counts = {}, {}
    cfg_rank = {c: k for k, c in enumerate(core.CFGS)}
    for fam in sorted(fams):
        sts = fams[fam]
        names = sorted({s["driver"] for s in sts})
        d = run.driver(fam, {"registry_drivers": names, "configs": {c: core.CFGS[c].L for c in tp["cfgs"]},
                             "max_requests": tp["max_req"], "offsets_in_d": tp["offsets"], "d_seconds": core.D_S,
                             "ops": {n: list(by_name[n].ops) for n in names},
                             "storm_bound": "50*(requests+10)", "max_events": core.MAX_EVENTS,
                             "end_time_s": core.END_S})
        outcomes = set()
        for s in sts:
            d.executions += s["exec"]
            d.transitions += s["events"]
            d.nontrivial += s["nontriv"]
            outcomes |= s["outcomes"]
            d.wall_s += s["wall"]
            if s["horizon"]:
                d.exhaustive = False
                d.caps.append(f"{s['driver']}/{s['cfg']}: {s['horizon']} scenario(s) stopped at max_events")
            if s["errors"]:
                d.exhaustive = False
                d.caps.append(f"{s['driver']}/{s['cfg']}: {s['errors']} scenario(s) aborted by an exception "
                              f"raised in library/driver code (no verdict for them)")
            if s["sample"] and len(d.samples) < 3:
                d.samples.append(s["sample"])
            for fp, (desc, rep, n) in s["viol"].items():
                key = (len(rep["pattern"]), cfg_rank.get(rep["cfg"], 99), rep["driver"], repr(rep["pattern"]))
                cur = best.get(fp)
                if cur is None or key < cur[0]:
                    best[fp] = (key, desc, rep)
                counts[fp] = counts.get(fp, 0) + n
        d.states = d.outcomes = len(outcomes)
        d.extra["per_driver"] = {n: {"scenarios": per_driver[n]["exec"], "deliveries": per_driver[n]["events"],
                                     "events_emitted": per_driver[n]["pushes"],
                                     "deliveries_to_library_entities": per_driver[n]["lib_deliveries"],
                                     "requests_completed": f"{per_driver[n]['completed']}/{per_driver[n]['requests']}",
                                     "error_scenarios": per_driver[n]["errors"],
                                     "scenarios_with_verdict_fraction": per_driver[n]["verdict_fraction"],
                                     "error_sample": per_driver[n]["error_sample"],
                                     "fingerprints": sorted(per_driver[n]["viol"])} for n in names}

    # one witness per fingerprint: the smallest (fewest requests, first configuration), independent of job order
    for fp in sorted(best):
        _key, desc, rep = best[fp]
        run.violation(fp, desc, rep)
        run.violation_counts[fp] = counts[fp]

    uni, aux = component_universe()
    concrete = {n for n, (_f, ab) in uni.items()}
    cov_names = sorted(c for c in covered if c in concrete)
    not_cov = sorted(concrete - set(cov_names))
    extra_cov = sorted(c for c in covered if c not in concrete)  # auxiliary (non-Entity) classes exercised
    cov = run.driver("coverage", {"universe": "public Entity classes exported by happysimulator.components.* packages"})
    cov.extra.update({
        "components_in_universe": len(concrete),
        "components_covered": cov_names,
        "components_covered_count": len(cov_names),
        "components_not_covered": {n: uni[n][0] for n in not_cov},
        "components_not_covered_count": len(not_cov),
        "auxiliary_classes_exercised": extra_cov,
        "declared_but_not_instantiated": sorted(set(declared_missing)),
        "drivers_failing_in_every_scenario": erroring,
        "drivers_below_50pct_verdicts": low_verdict,
        "classes_only_exercised_by_low_verdict_drivers": sorted(
            {c for v in low_verdict.values() for c in v["covers"]} - set(covered)),
        "drivers_emitting_no_event": sorted(inert),
        "partial_run": bool(only),
    })
    cov.wall_s = wall
    if only:
        run.notes.append(f"partial run: --only {sorted(only)}")
    flaky = [dict(f, driver=st["driver"], cfg=st["cfg"]) for st in stats for f in st.get("flaky", [])]
    nondet = {f"{st['driver']}/{st['cfg']}": st["nondet"] for st in stats if st.get("nondet")}
    cov.extra["violations_not_reproduced_on_reexecution"] = flaky
    cov.extra["determinism_selfcheck_mismatches"] = nondet
    if flaky or nondet:
        run.notes.append(f"determinism: {len(flaky)} violation(s) did not reproduce on re-execution (not reported), "
                         f"{sum(nondet.values())} probe scenario(s) gave a different trace on re-execution")
        print(f"[C07] determinism problems: flaky={flaky[:3]} nondet={nondet}")
    nerr = sum(p["errors"] for p in per_driver.values())
    print(f"[C07] registry drivers={len(sel)} jobs={len(jobs)} covered={len(cov_names)}/{len(concrete)} "
          f"not_covered={len(not_cov)} error_scenarios={nerr} inert={len(inert)} wall={wall:.1f}s")
    if not_cov:
        print(f"[C07] not covered: {', '.join(not_cov)}")
    for n, p in sorted(per_driver.items()):
        if p["errors"]:
            print(f"[C07] driver {n}: {p['errors']}/{p['exec']} scenarios raised; sample: {p['error_sample']}")
    for n, v in sorted(low_verdict.items()):
        print(f"[C07] COVERAGE GAP: driver {n} reached a verdict in only {v['verdict_fraction']:.0%} of its scenarios "
              f"(covers {v['covers']}; not credited)")
    if declared_missing:
        print(f"[C07] declared but not instantiated: {sorted(set(declared_missing))}")
    return run.finish()


def replay(data):
    rep = data["replay"]
    drv = _by_name(rep["driver"])
    cfg = core.CFGS[rep["cfg"]]
    pattern = tuple((int(o), str(op)) for o, op in rep["pattern"])
    print(f"driver={rep['driver']} component={drv.component()} cfg={cfg} d={core.D_S}s t0={core.T0_S}s "
          f"pattern(offset_in_d, op)={list(pattern)}")
    r = core.run_scenario(drv, cfg, pattern, keep_trace=True)
    last, same = None, 0
    shown = 0
    for (t, et, cls, name) in r.trace:
        same = same + 1 if t == last else 1
        last = t
        if same <= 12 and shown < 300:
            print(f"  t={t:>12d}ns  {et:<28s} -> {cls}({name})")
            shown += 1
        elif same == 13:
            print(f"  t={t:>12d}ns  ... further deliveries at this instant elided ...")
    print(f"outcome={r.outcome} deliveries={r.events} max_deliveries_at_one_instant={r.max_same} error={r.error}")
    for p in r.past_pushes[:10]:
        print(f"  past emission (advisory): {p}")
    for fp, desc in r.violations:
        print(f"  !! {fp}: {desc}")
    want = data.get("fingerprint")
    fps = [fp for fp, _ in r.violations]
    return 1 if (want in fps if want else bool(fps)) else 0

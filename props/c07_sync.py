"""C07 registry: sync primitives + Resource (workers are harness processes: acquire -> hold L -> release)."""
from __future__ import annotations

from props.c07_core import Drv

from happysimulator.components.resource import Resource
from happysimulator.components.sync import Barrier, Condition, Mutex, RWLock, Semaphore


class MutexDrv(Drv):
    contention = True
    family = "sync"
    covers = ("Mutex",)
    ops = ("acquire",)

    def build(self, cfg):
        self.m = Mutex("mutex")
        return [self.m]

    def request(self, i, op):
        yield from self.m.acquire(owner=f"w{i}")
        yield self.cfg.hold
        return self.m.release()


class SemaphoreDrv(Drv):
    contention = True
    family = "sync"
    covers = ("Semaphore",)
    ops = ("acquire", "acquire_two")

    def build(self, cfg):
        self.s = Semaphore("sem", initial_count=2)
        return [self.s]

    def request(self, i, op):
        n = 2 if op == "acquire_two" else 1
        yield from self.s.acquire(n)
        yield self.cfg.hold
        return self.s.release(n)


class RWLockDrv(Drv):
    contention = True
    family = "sync"
    covers = ("RWLock",)
    ops = ("read", "write")

    def build(self, cfg):
        self.l = RWLock("rw")
        return [self.l]

    def request(self, i, op):
        if op == "read":
            yield from self.l.acquire_read()
            yield self.cfg.hold
            return self.l.release_read()
        yield from self.l.acquire_write()
        yield self.cfg.hold
        return self.l.release_write()


class BarrierDrv(Drv):
    contention = True
    family = "sync"
    covers = ("Barrier",)
    ops = ("wait",)

    def build(self, cfg):
        self.b = Barrier("barrier", parties=2)
        return [self.b]

    def request(self, i, op):
        yield self.cfg.hold          # phase 1 work
        yield from self.b.wait()
        yield self.cfg.hold          # phase 2 work
        return None


class ConditionDrv(Drv):
    contention = True
    family = "sync"
    covers = ("Condition",)
    ops = ("wait", "notify")

    def build(self, cfg):
        self.m = Mutex("cv-mutex")
        self.c = Condition("cv", self.m)
        self.flag = False
        return [self.m, self.c]

    def request(self, i, op):
        if op == "wait":
            yield from self.m.acquire()
            while not self.flag:
                yield from self.c.wait()
            yield self.cfg.hold
            return self.m.release()
        # notifier: documented produce pattern; does not hold the mutex across simulated time
        yield from self.m.acquire()
        self.flag = True
        self.c.notify_all()
        return self.m.release()


class ResourceDrv(Drv):
    contention = True
    family = "sync"
    covers = ("Resource",)
    ops = ("acquire", "acquire_two")

    def build(self, cfg):
        self.r = Resource("res", capacity=2)
        return [self.r]

    def request(self, i, op):
        n = 2 if op == "acquire_two" else 1
        grant = yield self.r.acquire(n)
        yield self.cfg.hold
        grant.release()
        return None


DRIVERS = [MutexDrv, SemaphoreDrv, RWLockDrv, BarrierDrv, ConditionDrv, ResourceDrv]
